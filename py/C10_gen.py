"""Typed generator of UFL expressions in index notation (properties C10 and C09).

Every random choice flows from the `random.Random` handed in, so a case replays from (seed, n).
Expressions are built with the *raw* node classes (`ComponentTensor`, `Indexed`, `IndexSum`,
`Product`, ...), i.e. through the constructors' `__new__` simplifications but without the
`__getitem__`/`__mul__` conveniences that would hide index structure.

Knobs (probabilities in [0,1]):
  reuse      : a binder (IndexSum / ComponentTensor index) is taken from a small pool of index
               OBJECTS that are re-used across scopes (siblings, nested, outer free indices)
  zeros      : Zero nodes carrying free indices as list-tensor elements / conditional branches
  variables  : Variable nodes (tensor valued, indexed several times; the same Variable object twice)
  lists      : ListTensor nodes
  nested     : ComponentTensor inside ComponentTensor bodies
`hygienic=True` forces a fresh index object for every binder (Barendregt convention).

Also: a Python mirror of the decidable predicates of coq/Props/C10_model.v (`hygienic`,
`var_multi_context`), used only to route cases (the Coq predicate is re-evaluated on the
serialised input inside the generated file)."""

import itertools

import ufl
import uflgen
from ufl.classes import (
    ComponentTensor,
    Conditional,
    FixedIndex,
    Index,
    Indexed,
    IndexSum,
    IntValue,
    Label,
    ListTensor,
    MultiIndex,
    Product,
    Sum,
    Variable,
    Zero,
)


class GenError(Exception):
    pass


DEFAULT_KNOBS = dict(reuse=0.75, zeros=0.15, variables=0.2, lists=0.25, nested=0.5)


class Gen:
    def __init__(self, rng, hygienic=False, knobs=None, max_dim=3, cell="triangle"):
        self.rng = rng
        self.hyg = hygienic
        self.k = dict(DEFAULT_KNOBS)
        if knobs:
            self.k.update(knobs)
        self.pool = [Index() for _ in range(2)]
        self.coefs = {}
        self.vars = {}
        self.max_dim = max_dim
        self.cell = cell
        self._fresh = []

    def fresh(self):
        """a new index object; created in batches and handed out in random order so that the
        counts of the indices are not correlated with the order in which a traversal meets them"""
        if not self._fresh:
            self._fresh = [Index() for _ in range(6)]
            self.rng.shuffle(self._fresh)
        return self._fresh.pop()

    # ---- helpers
    def p(self, knob):
        return self.rng.random() < self.k[knob]

    def dim(self):
        if self.max_dim >= 3 and self.k["zeros"] >= 0.3:
            return self.rng.choice([2, 3])
        return self.rng.choice([2, 2, 2, 3] if self.max_dim >= 3 else [2])

    def coef(self, shape):
        shape = tuple(shape)
        lst = self.coefs.setdefault(shape, [])
        if len(lst) < 2 and (not lst or self.rng.random() < 0.4):
            lst.append(uflgen.coef(shape, self.cell))
        return self.rng.choice(lst)

    def binder(self, forbidden):
        """an index object for a new binder; never one of `forbidden` (the free indices the
        node under construction must keep)"""
        if not self.hyg and self.p("reuse"):
            cand = [i for i in self.pool if i not in forbidden]
            if cand:
                return self.rng.choice(cand)
        return self.fresh()

    @staticmethod
    def fiset(e):
        return dict(zip(e.ufl_free_indices, e.ufl_index_dimensions))

    def check(self, e, shape, fi):
        want = {i.count(): d for i, d in fi.items()}
        if not isinstance(e, ufl.core.expr.Expr):     # e.g. ufl.sin(literal) folds to a python float
            raise GenError("not an expression")
        if tuple(e.ufl_shape) != tuple(shape) or self.fiset(e) != want:
            raise GenError(f"generator produced shape {e.ufl_shape} fi {self.fiset(e)}, wanted {shape} {want}")
        return e

    # ---- scalar expressions with exactly the free indices fi (dict Index -> dim)
    def scalar(self, fi, depth, allow_zero=False):
        rng = self.rng
        if allow_zero and self.p("zeros"):
            items = sorted((i.count(), d) for i, d in fi.items())
            return Zero((), tuple(i for i, _ in items), tuple(d for _, d in items))
        if depth <= 0:
            return self.check(self.leaf(fi), (), fi)
        prods = ["sum", "prod", "prod", "isum", "isum", "ct", "ct", "ct", "leaf", "math", "ctpair"]
        if self.k["lists"] > 0:
            prods += ["lt"]
        if self.k["variables"] > 0:
            prods += ["var"]
        prods += ["cond"]
        if self.k["zeros"] >= 0.3 and len(fi) >= 2:
            prods += ["zero", "zero", "zero"]
        if not self.hyg and fi and self.rng.random() < self.k["reuse"]:
            prods += ["shadow", "shadow", "shadow", "capture", "capture", "capture"]
        if self.k["variables"] > 0:
            prods += ["vartr"]
        for _ in range(6):
            kind = rng.choice(prods)
            try:
                e = getattr(self, "s_" + kind)(fi, depth)
                return self.check(e, (), fi)
            except (GenError, ValueError, KeyError, IndexError):
                continue
        return self.check(self.leaf(fi), (), fi)

    def leaf(self, fi):
        rng = self.rng
        idx = list(fi.items())
        rng.shuffle(idx)
        mi, sh = [], []
        for i, d in idx:
            if rng.random() < 0.3:
                dd = self.dim()
                mi.append(FixedIndex(rng.randrange(dd)))
                sh.append(dd)
            mi.append(i)
            sh.append(d)
        if not idx and rng.random() < 0.5:
            dd = self.dim()
            mi.append(FixedIndex(rng.randrange(dd)))
            sh.append(dd)
        if len(sh) > 3:
            raise GenError("rank")
        f = self.coef(sh)
        if not sh:
            return f
        return Indexed(f, MultiIndex(tuple(mi)))

    def s_leaf(self, fi, depth):
        return self.leaf(fi)

    def s_sum(self, fi, depth):
        return Sum(self.scalar(fi, depth - 1), self.scalar(fi, depth - 1))

    def s_prod(self, fi, depth):
        fa, fb = {}, {}
        for i, d in fi.items():
            r = self.rng.random()
            if r < 0.4:
                fa[i] = d
            elif r < 0.8:
                fb[i] = d
            else:
                fa[i] = d
                fb[i] = d
        return Product(self.scalar(fa, depth - 1), self.scalar(fb, depth - 1))

    def s_isum(self, fi, depth):
        k = self.binder(fi)
        d = self.dim()
        f2 = dict(fi)
        f2[k] = d
        body = self.scalar(f2, depth - 1)
        return IndexSum(body, MultiIndex((k,)))

    def s_math(self, fi, depth):
        a = self.scalar(fi, depth - 1)
        kind = self.rng.choice(["sin", "abs", "sq", "half", "neg"])
        if kind == "sin":
            return ufl.sin(a)
        if kind == "abs":
            if isinstance(a, ufl.classes.Abs):     # Abs(Abs(x)) corrupts x in /repo (C05 matter)
                return ufl.sin(a)
            return ufl.classes.Abs(a)
        if kind == "sq":
            return ufl.classes.Power(a, IntValue(2))
        if kind == "half":
            return ufl.classes.Division(a, IntValue(2))
        return Product(IntValue(-1), a)

    def condition(self, depth):
        d = min(max(depth - 1, 0), 2) if self.rng.random() < 0.5 else 0
        op = self.rng.choice([ufl.classes.LT, ufl.classes.GT])
        return op(self.scalar({}, d), self.scalar({}, 0))

    def s_cond(self, fi, depth):
        c = self.condition(depth)
        return Conditional(c, self.scalar(fi, depth - 1, allow_zero=True), self.scalar(fi, depth - 1))

    def index_into(self, fi, make_tensor, max_rank=2):
        """Indexed(T, mi) with free indices exactly fi; T = make_tensor(shape, fiT)."""
        rng = self.rng
        m = rng.randint(1, max_rank)
        avail = list(fi.items())
        mi, sh, used = [], [], set()
        for _ in range(m):
            if avail and rng.random() < 0.7:
                i, d = rng.choice(avail)
                mi.append(i)
                sh.append(d)
                used.add(i)
            else:
                d = self.dim()
                mi.append(FixedIndex(rng.randrange(d)))
                sh.append(d)
        fiT = {i: d for i, d in fi.items() if i not in used or rng.random() < 0.25}
        T = make_tensor(tuple(sh), fiT)
        return Indexed(T, MultiIndex(tuple(mi)))

    def s_ct(self, fi, depth):
        return self.index_into(fi, lambda sh, f: self.t_ct(sh, f, depth))

    def zero(self, fi):
        items = sorted((i.count(), d) for i, d in fi.items())
        return Zero((), tuple(i for i, _ in items), tuple(d for _, d in items))

    def s_zero(self, fi, depth):
        """a Zero carrying all the free indices, kept alive by a Conditional or a ListTensor"""
        rng = self.rng
        z, other = self.zero(fi), self.scalar(fi, max(depth - 1, 0))
        if rng.random() < 0.6:
            c = self.condition(depth)
            return Conditional(c, z, other) if rng.random() < 0.5 else Conditional(c, other, z)
        ops = [z, other] if rng.random() < 0.5 else [other, z]
        return Indexed(ListTensor(*ops), MultiIndex((FixedIndex(rng.randrange(2)),)))

    def s_shadow(self, fi, depth):
        """an index that is free here (bound by an enclosing scope) is bound AGAIN by an inner sum
        that a traversal meets before a later read of the outer binding"""
        rng = self.rng
        i, d = rng.choice(list(fi.items()))
        inner = IndexSum(self.scalar({i: d}, max(depth - 2, 0)), MultiIndex((i,)))
        kind = rng.choice(["cond", "cond", "prod", "sum"])
        rest = self.scalar(fi, max(depth - 1, 0))
        if kind == "cond":
            c = rng.choice([ufl.classes.LT, ufl.classes.GT])(inner, self.scalar({}, 0))
            return Conditional(c, rest, self.scalar(fi, max(depth - 1, 0)))
        if kind == "prod":
            return Product(inner, rest)
        return Sum(Product(inner, rest), self.scalar(fi, max(depth - 1, 0)))

    def s_capture(self, fi, depth):
        """a ComponentTensor accessed with the very index OBJECT that is bound again inside its body:
        by an inner IndexSum, or by an inner un-indexed ComponentTensor kept alive under a
        Conditional / ListTensor (substituting the outer binder must not be captured)"""
        rng = self.rng
        a, d = rng.choice(list(fi.items()))
        i = self.fresh()
        rest = self.scalar(fi, max(depth - 2, 0))
        if rng.random() < 0.5:
            body = IndexSum(self.scalar({i: d, a: d}, max(depth - 2, 0)), MultiIndex((a,)))
            if rng.random() < 0.4:
                body = Product(body, self.scalar({i: d}, 0))
            e = Indexed(ComponentTensor(body, MultiIndex((i,))), MultiIndex((a,)))
        else:
            k = self.fresh()
            row = ComponentTensor(self.scalar({i: d, a: d}, max(depth - 2, 0)), MultiIndex((a,)))
            row2 = ComponentTensor(self.scalar({i: d, a: d}, 0), MultiIndex((a,)))
            if rng.random() < 0.6:
                W = Conditional(self.condition(1), row, row2)
                wk = Indexed(W, MultiIndex((k,)))
            else:
                W = ListTensor(row, row2)
                wk = Indexed(W, MultiIndex((FixedIndex(rng.randrange(2)), k)))
            outer = ComponentTensor(wk, MultiIndex((i, k)))
            e = Indexed(outer, MultiIndex((a, FixedIndex(rng.randrange(d)))))
        return Product(e, rest)

    def s_vartr(self, fi, depth):
        """one tensor valued Variable reached at permuted components under the same index values"""
        rng = self.rng
        d = self.dim()
        v = self.t_var((d, d), depth)
        avail = [i for i, dd in fi.items() if dd == d]

        def entry():
            if avail and rng.random() < 0.6:
                return rng.choice(avail)
            return FixedIndex(rng.randrange(d))
        p, q = entry(), entry()
        a = Indexed(v, MultiIndex((p, q)))
        b = Indexed(v, MultiIndex((q, p)))
        e = Sum(a, Product(IntValue(-2), b)) if rng.random() < 0.5 else Product(a, Sum(b, IntValue(1)))
        missing = {i: dd for i, dd in fi.items() if i.count() not in e.ufl_free_indices}
        if missing or rng.random() < 0.3:
            e = Product(e, self.scalar(fi, max(depth - 2, 0)))
        return e

    def s_ctpair(self, fi, depth):
        """one scalar body bound by two ComponentTensors with different index tuples (permuted
        or partial), both accessed with the same outer multi-index"""
        rng = self.rng
        d = self.dim()
        p, q = self.binder(fi), self.binder(fi)
        if p == q or p in fi or q in fi:
            p, q = self.fresh(), self.fresh()
        kind = rng.choice(["transpose", "transpose", "partial"])
        avail = [i for i, dd in fi.items() if dd == d]

        def entry():
            if avail and rng.random() < 0.5:
                return rng.choice(avail)
            return FixedIndex(rng.randrange(d))
        if kind == "transpose":
            mi = (entry(), entry())
            used = {i for i in mi if isinstance(i, Index)}
            fb = {i: dd for i, dd in fi.items() if i not in used or rng.random() < 0.3}
            fb.update({p: d, q: d})
            body = self.scalar(fb, max(depth - 1, 0))
            t1 = ComponentTensor(body, MultiIndex((p, q)))
            t2 = ComponentTensor(body, MultiIndex((q, p)))
        else:
            mi = (entry(),)
            used = {i for i in mi if isinstance(i, Index)}
            fb = {i: dd for i, dd in fi.items() if i not in used or rng.random() < 0.3}
            fb.update({p: d, q: d})
            body = self.scalar(fb, max(depth - 1, 0))
            # the index left free by one scope is bound by an enclosing scope of the other
            t1 = ComponentTensor(Indexed(ComponentTensor(body, MultiIndex((p,))), MultiIndex(mi)), MultiIndex((q,)))
            t2 = ComponentTensor(Indexed(ComponentTensor(body, MultiIndex((q,))), MultiIndex(mi)), MultiIndex((p,)))
        a, b = Indexed(t1, MultiIndex(mi)), Indexed(t2, MultiIndex(mi))
        for k in fi:                      # make sure both carry all required free indices
            if k.count() not in a.ufl_free_indices or k.count() not in b.ufl_free_indices:
                raise GenError("free indices")
        if rng.random() < 0.5:
            return Sum(a, Product(IntValue(-1), b))
        return Product(a, b)

    def s_lt(self, fi, depth):
        return self.index_into(fi, lambda sh, f: self.t_lt(sh, f, depth), max_rank=2)

    def s_var(self, fi, depth):
        def mk(sh, f):
            if f:
                raise GenError("variables are closed")
            return self.t_var(sh, depth)
        rng = self.rng
        # variables have no free indices: every index of fi must be consumed by the multiindex
        m = max(1, len(fi))
        if m > 2:
            raise GenError("rank")
        mi, sh = [], []
        for i, d in fi.items():
            mi.append(i)
            sh.append(d)
        if not mi or (len(mi) < 2 and rng.random() < 0.5):
            d = self.dim()
            mi.append(FixedIndex(rng.randrange(d)))
            sh.append(d)
        order = list(range(len(mi)))
        rng.shuffle(order)
        mi = [mi[k] for k in order]
        sh = [sh[k] for k in order]
        return Indexed(self.t_var(tuple(sh), depth), MultiIndex(tuple(mi)))

    # ---- tensor valued expressions
    def tensor(self, shape, fi, depth):
        rng = self.rng
        shape = tuple(shape)
        if not shape:
            return self.scalar(fi, depth)
        opts = ["ct", "ct"]
        if self.k["lists"] > 0:
            opts.append("lt")
        if not fi:
            opts.append("coef")
            if self.k["variables"] > 0:
                opts.append("var")
        if depth > 0:
            opts += ["sum", "cond"]
        for _ in range(6):
            kind = rng.choice(opts)
            try:
                if kind == "coef":
                    e = self.coef(shape)
                elif kind == "var":
                    e = self.t_var(shape, depth)
                elif kind == "sum":
                    e = Sum(self.tensor(shape, fi, depth - 1), self.tensor(shape, fi, depth - 1))
                elif kind == "cond":
                    c = self.condition(depth)
                    e = Conditional(c, self.tensor(shape, fi, depth - 1), self.tensor(shape, fi, depth - 1))
                else:
                    e = getattr(self, "t_" + kind)(shape, fi, depth)
                return self.check(e, shape, fi)
            except (GenError, ValueError, KeyError, IndexError):
                continue
        return self.check(self.t_ct(shape, fi, 0), shape, fi)

    def t_ct(self, shape, fi, depth):
        js = []
        f2 = dict(fi)
        for d in shape:
            for _ in range(8):
                j = self.binder(f2)
                if j not in js:
                    break
            else:
                j = self.fresh()
            js.append(j)
            f2[j] = d
        d2 = depth - 1 if self.p("nested") else min(depth - 1, 1)
        if self.k["zeros"] >= 0.3 and len(f2) >= 2 and self.rng.random() < 0.7:
            body = self.check(self.s_zero(f2, max(d2, 0)), (), f2)
        else:
            body = self.scalar(f2, max(d2, 0))
        return ComponentTensor(body, MultiIndex(tuple(js)))

    def t_lt(self, shape, fi, depth):
        n = shape[0]
        if len(shape) == 1:
            ops = [self.scalar(fi, max(depth - 1, 0), allow_zero=True) for _ in range(n)]
        else:
            ops = [self.tensor(shape[1:], fi, max(depth - 1, 0)) for _ in range(n)]
        return ListTensor(*ops)

    def t_var(self, shape, depth):
        shape = tuple(shape)
        lst = self.vars.setdefault(shape, [])
        if lst and self.rng.random() < 0.6:
            return self.rng.choice(lst)
        inner = self.tensor(shape, {}, max(depth - 1, 0)) if self.rng.random() < 0.6 else self.coef(shape)
        v = Variable(inner, Label())
        lst.append(v)
        return v

    # ---- top level
    def top(self, depth, closed_scalar=False):
        rng = self.rng
        if closed_scalar:
            if not self.hyg and rng.random() < 0.5:
                # an enclosing scope (sum or component tensor) over an index that is re-bound inside
                i, d = rng.choice(self.pool), self.dim()
                body = self.s_shadow({i: d}, depth - 1)
                if rng.random() < 0.5:
                    return self.check(IndexSum(body, MultiIndex((i,))), (), {})
                ct = ComponentTensor(body, MultiIndex((i,)))
                return self.check(Indexed(ct, MultiIndex((FixedIndex(rng.randrange(d)),))), (), {})
            return self.scalar({}, depth)
        nfree = rng.choice([0, 0, 1, 1, 2])
        fi = {}
        for _ in range(nfree):
            i = self.fresh() if (self.hyg or rng.random() < 0.5) else rng.choice(self.pool)
            if i in fi:
                i = self.fresh()
            fi[i] = (2 if len(fi) == 0 else rng.choice([2, 3])) if nfree == 2 else self.dim()
        rank = rng.choice([0, 0, 0, 1, 1, 2]) if nfree < 2 else rng.choice([0, 0, 1])
        if self.k["zeros"] >= 0.3 and nfree == 0 and rng.random() < 0.5:
            rank = 2
        shape = tuple(2 if nfree else self.dim() for _ in range(rank))
        if rank == 2 and shape == (3, 3):
            shape = (3, 2)
        return self.tensor(shape, fi, depth)


# ------------------------------------------------------------------------------------------------
# Python mirrors of the decidable class predicates (coq/Props/C10_model.v)

def _children(e):
    return [o for o in e.ufl_operands if not isinstance(o, MultiIndex | Label)]


def hygienic(e):
    """Mirror of C10_model.hygienic: no binder re-binds an index that is bound on the path above
    it or free in the whole expression, and the indices of one ComponentTensor are distinct."""
    top = set(e.ufl_free_indices)

    def go(x, bs):
        if x._ufl_is_terminal_:
            return True
        if isinstance(x, IndexSum):
            (k,) = x.ufl_operands[1]
            if k.count() in bs:
                return False
            return go(x.ufl_operands[0], bs | {k.count()})
        if isinstance(x, ComponentTensor):
            ks = [k.count() for k in x.ufl_operands[1]]
            if len(set(ks)) != len(ks) or any(k in bs for k in ks):
                return False
            return go(x.ufl_operands[0], bs | set(ks))
        if isinstance(x, ufl.classes.Condition):
            return all(go(o, bs) for o in x.ufl_operands)
        return all(go(o, bs) for o in _children(x))

    return go(e, frozenset(top))


def var_contexts(e):
    """label -> set of (component, valuation-relevant) contexts under which IndexExpander visits
    the variable; here approximated structurally: the set of distinct multiindices with which the
    variable (or a tensor containing it) is reached.  Used for the class predicate
    `var_multi_context`: some tensor-valued Variable label is reached under an Indexed whose
    multiindex is not one constant tuple of fixed indices for all visits."""
    seen = {}

    def go(x, comp_known):
        if x._ufl_is_terminal_:
            return
        if isinstance(x, Variable):
            lab = x.ufl_operands[1].count()
            seen.setdefault(lab, set()).add(comp_known)
            go(x.ufl_operands[0], comp_known)
            return
        if isinstance(x, Indexed):
            mi = x.ufl_operands[1]
            key = tuple(int(i) if isinstance(i, FixedIndex) else ("free", i.count()) for i in mi)
            go(x.ufl_operands[0], key)
            return
        if isinstance(x, ListTensor):
            for k, o in enumerate(x.ufl_operands):
                go(o, ("lt", k, comp_known))
            return
        if isinstance(x, ComponentTensor):
            go(x.ufl_operands[0], ("ct", comp_known))
            return
        if isinstance(x, ufl.classes.Condition):
            for o in x.ufl_operands:
                go(o, ())
            return
        for o in _children(x):
            go(o, comp_known)

    go(e, ())
    return seen


def has_tensor_variable(e):
    """Mirror of C10_model.has_tensor_var: some Variable node has a non-scalar shape."""
    from ufl.corealg.traversal import unique_pre_traversal
    return any(isinstance(x, Variable) and x.ufl_shape != () for x in unique_pre_traversal(e))


def zero_fully_fixed(e):
    """Mirror of C10_model.zero_fixed_hit: an Indexed(ComponentTensor(body, ix), mi) node where
    `body` contains a Zero whose free indices are all among the ix that mi maps to fixed indices."""
    from ufl.corealg.traversal import unique_pre_traversal
    for x in unique_pre_traversal(e):
        if isinstance(x, Indexed) and isinstance(x.ufl_operands[0], ComponentTensor):
            body, ix = x.ufl_operands[0].ufl_operands
            mi = x.ufl_operands[1]
            fixed = {i.count() for i, m in zip(ix, mi) if isinstance(m, FixedIndex)}
            touched = {i.count() for i in ix}
            for z in unique_pre_traversal(body):
                if isinstance(z, Zero) and z.ufl_free_indices and \
                        any(i in touched for i in z.ufl_free_indices) and \
                        all(i in fixed for i in z.ufl_free_indices):
                    return True
    return False


def n_nodes(e):
    from ufl.corealg.traversal import unique_pre_traversal
    return sum(1 for _ in unique_pre_traversal(e))


def valuations(e):
    """all valuations of the free indices of e: list of dict count -> value"""
    fi = list(zip(e.ufl_free_indices, e.ufl_index_dimensions))
    return [dict(zip([i for i, _ in fi], v)) for v in itertools.product(*[range(d) for _, d in fi])]
