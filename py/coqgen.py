"""Emit and check Coq files of traced obligations (tie T2 of DESIGN.md).

A Case is one run of the real code on generic symbolic operands: `out` is the expression the
implementation built, `inp` the expression (or `spec`, a Gallina term) that defines the intended
value.  For every component c of the result the obligation is

    forall algebra env D DX s rho,  hyps ->  den out c = den inp c          (all operand values)

plus shape / free-index obligations computed by the model's `shape`/`fidx` and compared with the
attributes the implementation reports.  Proofs are `vm_compute` normalisation followed by
ring/field, checked by the Coq kernel."""

import itertools
import os

import ufl2coq
import vlib

HEADER = r'''Require Import UFLV.Core.Tac.
Section Cases.
(* an arbitrary UFL algebra, given by its components so that ring/field see variables *)
Variable KT : Type.
Variables (z0 z1 : KT) (add mul sub : KT -> KT -> KT) (opp : KT -> KT) (div : KT -> KT -> KT) (inv : KT -> KT).
Hypothesis Fth : field_theory z0 z1 add mul sub opp div inv (@eq KT).
Variables (conj re im abs : KT -> KT) (fn : mathfn -> KT -> KT) (pow atan2 : KT -> KT -> KT)
          (bessel : bkind -> KT -> KT -> KT).
Variable BT : Type.
Variables (cmp : cmpop -> KT -> KT -> BT) (and_ or_ : BT -> BT -> BT) (not_ : BT -> BT)
          (cond_ : BT -> KT -> KT -> KT) (min_ max_ : KT -> KT -> KT).
Definition A : ualg :=
  Build_ualg KT z0 z1 add mul sub opp div inv Fth conj re im abs fn pow atan2 bessel
             BT cmp and_ or_ not_ cond_ min_ max_.
Add Field Ff : Fth.
Variable env : side -> nat -> nat -> list nat -> KT.
Variables Dx DX : nat -> KT -> KT.
Variable ki : KT.
Hypothesis char0 : forall p, @of_pos A p <> z0.
Notation DEN := (@den A env Dx DX ki).
Notation DET := (@det A).
Notation GRAM := (@gram A).
Notation MAT := (@matrix_of A).

(* make the arguments of equal function symbols syntactically equal when ring/field proves them
   equal, so that ring can treat the applications as the same atom *)
Ltac arg_eq X Y := first [ ring | field; nz_solve char0 ].
Ltac unify1 :=
  match goal with
  | |- context [fn ?f ?X] =>
      match goal with
      | |- context [fn f ?Y] =>
          lazymatch X with Y => fail | _ => idtac end;
          replace (fn f X) with (fn f Y) by (f_equal; arg_eq X Y)
      end
  | |- context [abs ?X] =>
      match goal with
      | |- context [abs ?Y] =>
          lazymatch X with Y => fail | _ => idtac end;
          replace (abs X) with (abs Y) by (f_equal; arg_eq X Y)
      end
  | |- context [conj ?X] =>
      match goal with
      | |- context [conj ?Y] =>
          lazymatch X with Y => fail | _ => idtac end;
          replace (conj X) with (conj Y) by (f_equal; arg_eq X Y)
      end
  | |- context [Dx ?j ?X] =>
      match goal with
      | |- context [Dx j ?Y] =>
          lazymatch X with Y => fail | _ => idtac end;
          replace (Dx j X) with (Dx j Y) by (f_equal; arg_eq X Y)
      end
  | |- context [DX ?j ?X] =>
      match goal with
      | |- context [DX j ?Y] =>
          lazymatch X with Y => fail | _ => idtac end;
          replace (DX j X) with (DX j Y) by (f_equal; arg_eq X Y)
      end
  end.
Ltac close := norm_goal; first [ reflexivity | ring | field; nz_solve char0
                               | repeat unify1; first [ reflexivity | ring | field; nz_solve char0 ] ].
'''

FOOTER = "End Cases.\n"


class Case:
    def __init__(self, name, out, inp=None, spec=None, hyps=(), comps=None, note=None, ctx=None,
                 tactic=None, side="s", check_fidx=True, named=None,
                 refvalue_terminal=False):
        assert (inp is None) != (spec is None)
        self.name = name
        self.out, self.inp, self.spec = out, inp, spec
        self.hyps = list(hyps)           # Gallina propositions; may mention {A0}, {A1} (operand names)
        self.comps = comps
        self.note = note or {}
        self.ctx = ctx or ufl2coq.Ctx()
        self.tactic = tactic
        self.side = side
        self.check_fidx = check_fidx
        self.named = named or {}
        self.refvalue_terminal = refvalue_terminal
        self.lemmas = []

    def components(self):
        if self.comps is not None:
            return list(self.comps)
        return list(itertools.product(*[range(d) for d in self.out.ufl_shape]))

    def emit(self):
        ser = ufl2coq.Ser(self.ctx, prefix=f"{self.name}_n", refvalue_terminal=self.refvalue_terminal)
        t_out = ser.expr(self.out)
        t_inp = ser.expr(self.inp) if self.inp is not None else None
        nm = {k: ser.expr(v) for k, v in self.named.items()}
        txt = [f"(* case {self.name}: {self.note} *)\n", ser.definitions_text()]
        txt.append(f"Definition {self.name}_out : expr := {t_out}.\n")
        if t_inp is not None:
            txt.append(f"Definition {self.name}_in : expr := {t_inp}.\n")
        # shape / free indices as the implementation reports them
        sh = ufl2coq.natlist(self.out.ufl_shape)
        self.lemmas = []
        txt.append(f"Example {self.name}_shape : shape {self.name}_out = {sh}. Proof. reflexivity. Qed.\n")
        self.lemmas.append(f"{self.name}_shape")
        if self.check_fidx:
            fi = sorted((self.ctx.index(i), d) for i, d in
                        zip(self.out.ufl_free_indices, self.out.ufl_index_dimensions))
            fit = "[" + "; ".join(f"({i}, {d})" for i, d in fi) + "]"
            txt.append(f"Example {self.name}_fidx : fidx {self.name}_out = {fit}. Proof. reflexivity. Qed.\n")
            self.lemmas.append(f"{self.name}_fidx")
        if t_inp is not None:
            txt.append(f"Example {self.name}_shape_in : shape {self.name}_in = {sh}. Proof. reflexivity. Qed.\n")
            self.lemmas.append(f"{self.name}_shape_in")
        for k, v in nm.items():
            txt.append(f"Definition {self.name}_{k} : expr := {v}.\n")
        hyps = "".join("(" + h.format(**{k: f"{self.name}_{k}" for k in nm}) + ") -> " for h in self.hyps)
        nh = len(self.hyps)
        intro = ""
        if nh:
            names = " ".join(f"H{k}" for k in range(nh))
            intro = f"intros {names}; " + "".join(f"try norm_hyp H{k}; " for k in range(nh))
        tac = self.tactic or "close"
        for c in self.components():
            cn = "_".join(map(str, c))
            rhs = (f"DEN {self.side} rho {self.name}_in {ufl2coq.natlist(c)}" if t_inp is not None
                   else self.spec.replace("{c}", ufl2coq.natlist(c)))
            ln = f"{self.name}_c{cn}"
            binder = "s rho" if self.side == "s" else "rho"
            txt.append(f"Lemma {ln} {binder} : {hyps}DEN {self.side} rho {self.name}_out {ufl2coq.natlist(c)} = {rhs}.\n"
                       f"Proof. {intro}{tac}. Qed.\n")
            self.lemmas.append(ln)
        return "".join(txt)


def emit_and_check(run, pid, cases, shards=None, timeout=600, extra_header=""):
    """Write the cases into Gen/<pid>_t2_<k>.v (sharded), compile in parallel, record obligations.
    Returns the list of (case, lemma_name, message) that failed."""
    shards = shards or min(vlib.NCPU, max(1, len(cases)))
    texts = [(c, c.emit()) for c in cases]
    # greedy balance by text length
    bins = [[] for _ in range(shards)]
    load = [0] * shards
    for c, t in sorted(texts, key=lambda x: -len(x[1])):
        k = load.index(min(load))
        bins[k].append((c, t))
        load[k] += len(t) * max(1, len(c.lemmas))
    paths = []
    by_file = {}
    for k, b in enumerate(bins):
        if not b:
            continue
        b.sort(key=lambda x: x[0].name)
        path = os.path.join(vlib.GEN, f"{pid}_t2_{k}.v")
        vlib.write_if_changed(path, HEADER + extra_header + "".join(t for _, t in b) + FOOTER)
        paths.append(path)
        by_file[path] = [c for c, _ in b]
    # remove stale shards
    for f in os.listdir(vlib.GEN):
        if f.startswith(f"{pid}_t2_") and f.endswith(".v") and os.path.join(vlib.GEN, f) not in paths:
            os.remove(os.path.join(vlib.GEN, f))
    failing = []
    pending = list(paths)
    rounds = 0
    masked = {p: set() for p in paths}
    while pending and rounds < 6:
        rounds += 1
        results = vlib.coqc_many(pending, timeout=timeout)
        nxt = []
        for r in results:
            run.extra.setdefault('coqc_wall_s', {})[os.path.basename(r.path)] = round(r.wall, 1)
            names = [l for c in by_file[r.path] for l in c.lemmas if l not in masked[r.path]]
            if r.ok:
                run.add_coq_result(r, names)
                continue
            fl = r.failing_lemma()
            case = next((c for c in by_file[r.path] if fl in c.lemmas), None)
            msg = " ".join((r.err or "").strip().split("\n")[-3:])[:300]
            if case is None or rounds >= 6:
                run.add_coq_result(r, names)
                failing.append((case, fl, msg))
                continue
            # record the failure, then mask the failing lemma (Abort it) and re-check the rest
            failing.append((case, fl, msg))
            run.obligations.append((fl, os.path.relpath(r.path, vlib.COQ)))
            run.failed.append((fl, os.path.relpath(r.path, vlib.COQ), msg))
            masked[r.path].add(fl)
            src = open(r.path).read()
            i = src.index(f"Lemma {fl} ") if f"Lemma {fl} " in src else src.index(f"Example {fl} ")
            j = src.index("Qed.", i)
            k0 = src.index("Proof.", i)
            src = src[:k0] + "Proof. Abort. (* FAILED *)" + src[j + 4:]
            with open(r.path, "w") as f:
                f.write(src)
            nxt.append(r.path)
        pending = nxt
    run.checker_cmds.append(f"coqc -Q coq UFLV coq/Gen/{pid}_t2_*.v")
    return failing
