"""Regenerate the findings table (0.2) and the seeded-changes table (0.3) of DESIGN.md from
known_findings.json and seeded/RESULTS.json."""
import json, os, re
V = os.path.dirname(os.path.dirname(os.path.abspath(__file__)))
kf = json.load(open(f"{V}/known_findings.json"))
rows = ["| property | finding | status | what fails (abridged) |", "|---|---|---|---|"]
for k in sorted(kf["findings"], key=lambda k: (k.get("property", ""), k.get("id", ""))):
    st = k.get("status", "open")
    if st == "fixed":
        st = f"fixed in /repo by `{k.get('commit')}`"
    elif k.get("partially_fixed"):
        st = "open (partly repaired: " + k["partially_fixed"][:90] + ")"
    what = re.sub(r"\s+", " ", str(k.get("what", "")))[:230].replace("|", "\\|")
    rows.append(f"| {k.get('property')} | `{k.get('id')}` | {st} | {what} |")
t02 = "\n".join(rows)
try:
    rs = json.load(open(f"{V}/seeded/RESULTS.json"))
except FileNotFoundError:
    rs = {}
rows = ["| seed | change (abridged) | caught by `bin/check <ID>` | failing input in replay | first broken obligation / report |",
        "|---|---|---|---|---|"]
for name in sorted(rs, key=lambda n: (n.split("-")[0], int(n.split("-")[1]))):
    r = rs[name]
    if r.get("status") == "ok" and r.get("demo_mutated_exit") == 0 and not r.get("caught"):
        c = "n/a: after a later `fix:` commit the change no longer breaks the property (its demo passes)"
        w, fb = "-", ""
    elif r.get("status") == "ok":
        c = "yes" if r.get("caught") else "NO"
        w = "yes" if r.get("failing_input_found") else ("no" if r.get("caught") else "-")
        fb = str(r.get("first_broken", ""))[:90].replace("|", "\\|")
    else:
        c = "patch overlaps a later `fix:` commit" + (" (caught before it)" if r.get("before_fix_caught") else "")
        w = "yes" if r.get("before_fix_failing_input_found") else "-"
        fb = ""
    what = re.sub(r"\s+", " ", str(r.get("what", "")))[:120].replace("|", "\\|")
    rows.append(f"| {name} | {what} | {c} | {w} | {fb} |")
t03 = "\n".join(rows)
p = f"{V}/DESIGN.md"
s = open(p).read()
def put(s, tag, body):
    a, b = f"<!-- {tag}:begin -->", f"<!-- {tag}:end -->"
    if a not in s:
        raise SystemExit(f"marker {tag} missing in DESIGN.md")
    i, j = s.index(a) + len(a), s.index(b)
    return s[:i] + "\n" + body + "\n" + s[j:]
s = put(s, "findings-table", t02)
s = put(s, "seeds-table", t03)
open(p, "w").write(s)
print("tables updated:", len(kf["findings"]), "findings,", len(rs), "seeds")
