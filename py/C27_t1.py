"""C27 tie T1: translate the metadata-dict handling of the anchored functions into the aliasing IR of
coq/Props/C27_heap.v with Python's `ast` (fail closed).

Sources of INPUT dicts: `<expr>.metadata()`, `<expr>._metadata`, a parameter called `metadata`, loop
variables bound from a container that holds such aliases.  Every dict-mutating syntactic form in the
function (subscript store, del, augmented assignment, .update/.setdefault/.pop/.popitem/.clear/
.__setitem__/.__delitem__) is classified:
  * target is a tracked local name          -> IR write through that variable
  * target is a depth-1 store into a local container (by_cdid[k] = ..) -> write to the container, a
    local object; if the stored value mentions a tracked variable the container becomes tainted
  * target expression contains a source, or goes through an element of a tainted container
                                            -> IR write through an input alias (rejected by `safe`)
  * anything else that mentions a tracked name in a way not listed -> Untranslatable."""

import ast
import inspect
import textwrap

MUTATORS = {"update", "setdefault", "pop", "popitem", "clear", "__setitem__", "__delitem__", "__ior__"}
READERS = {"get", "items", "keys", "values", "copy", "__contains__", "__getitem__"}
FRESH_CALLS = {"dict", "defaultdict", "list", "set", "tuple", "OrderedDict"}
# callees that receive a dict and only store / read it (checked separately: Integral.__init__,
# Measure.__init__ and the reconstruct methods are themselves translated)
PASSIVE_CALLEES = {"Integral", "Measure", "Form", "reconstruct", "canonicalize_metadata", "hash", "isinstance",
                   "str", "repr", "len", "sorted", "IntegralData", "ValueError", "all", "any", "zip", "enumerate",
                   "tuple", "hasattr", "getattr", "type", "id", "bool", "float", "int", "warn", "format", "sum",
                   "min", "max", "list", "set", "frozenset", "map", "filter", "iter", "next", "range", "print",
                   "chain", "ZeroBaseForm"}
# list mode (FormSum / Form constructors): component / weight / integral lists of OTHER objects are inputs
LIST_MUTATORS = {"append", "extend", "insert", "remove", "sort", "reverse"}
LIST_SOURCE_METHODS = {"components", "weights", "integrals", "metadata", "ufl_sub_spaces"}
LIST_SOURCE_ATTRS = {"_components", "_weights", "_integrals", "ufl_operands", "_metadata"}
_LIST_MODE = [False]


class Untranslatable(Exception):
    pass


def src(fn):
    fn = getattr(fn, "__func__", fn)
    node = ast.parse(textwrap.dedent(inspect.getsource(fn))).body[0]
    return node


def is_source(n):
    """<expr>.metadata() or <expr>._metadata; in list mode also the component/weight/integral lists of
    objects other than self"""
    if _LIST_MODE[0]:
        if isinstance(n, ast.Call) and isinstance(n.func, ast.Attribute) and n.func.attr in LIST_SOURCE_METHODS \
                and not n.args and not (isinstance(n.func.value, ast.Name) and n.func.value.id == "self"):
            return True
        if isinstance(n, ast.Attribute) and n.attr in LIST_SOURCE_ATTRS and isinstance(n.ctx, ast.Load) \
                and not (isinstance(n.value, ast.Name) and n.value.id == "self"):
            return True
        return False
    if isinstance(n, ast.Call) and isinstance(n.func, ast.Attribute) and n.func.attr == "metadata" and not n.args:
        return True
    if isinstance(n, ast.Attribute) and n.attr == "_metadata" and isinstance(n.ctx, ast.Load):
        return True
    return False


def contains(n, pred):
    return any(pred(x) for x in ast.walk(n))


class FnTr:
    def __init__(self, fn, name, list_mode=False):
        self.node = src(fn)
        self.name = name
        self.list_mode = list_mode
        self.vars = {}          # local name -> IR variable number
        self.sources = []       # distinct source expressions (unparsed)
        self.tainted = set()    # local containers holding input aliases
        self.ir = []            # (text, comment)
        self.tmp = 0
        self.freshnames = set()  # names only ever bound to dicts allocated here (python-side hint)

    def v(self, name):
        if name not in self.vars:
            self.vars[name] = len(self.vars)
        return self.vars[name]

    def srcnum(self, n):
        t = ast.unparse(n)
        if t not in self.sources:
            self.sources.append(t)
        return self.sources.index(t)

    def emit(self, text, node):
        self.ir.append((text, ast.unparse(node).split("\n")[0][:90]))

    def tracked(self, n):
        return isinstance(n, ast.Name) and n.id in self.vars

    def mentions_tracked(self, n):
        return contains(n, lambda x: (isinstance(x, ast.Name) and x.id in self.vars) or is_source(x))

    def mentions_tainted(self, n):
        return contains(n, lambda x: isinstance(x, ast.Name) and x.id in self.tainted)

    # ---- right-hand sides -----------------------------------------------------------------------
    def rhs(self, n):
        """-> IR rhs text or None if the value is not a metadata dict / alias"""
        if isinstance(n, ast.Dict) and not n.keys:
            return "RNew"
        if self.list_mode:
            if isinstance(n, ast.List) and not any(self.tracked(e) or is_source(e) for e in n.elts):
                return "RNew"
            if isinstance(n, ast.ListComp):
                return "RNew"           # a new list (its elements are not containers we track)
            if isinstance(n, ast.Call) and isinstance(n.func, ast.Name) and n.func.id == "list":
                if not n.args:
                    return "RNew"
                if len(n.args) == 1 and self.tracked(n.args[0]):
                    return f"RCopyVar {self.v(n.args[0].id)}"
                if len(n.args) == 1 and is_source(n.args[0]):
                    return f"RCopyInput {self.srcnum(n.args[0])}"
        if isinstance(n, ast.Dict) and any(k is None for k in n.keys):      # {**y}
            ys = [v for k, v in zip(n.keys, n.values) if k is None]
            if len(ys) == 1 and self.tracked(ys[0]):
                return f"RCopyVar {self.v(ys[0].id)}"
            if len(ys) == 1 and is_source(ys[0]):
                return f"RCopyInput {self.srcnum(ys[0])}"
            raise Untranslatable(f"{self.name}: dict display {ast.unparse(n)}")
        if is_source(n):
            return f"RInput {self.srcnum(n)}"
        if self.tracked(n):
            return f"RAlias {self.v(n.id)}"
        if isinstance(n, ast.Call):
            f = n.func
            if isinstance(f, ast.Attribute) and f.attr == "copy" and not n.args:
                if self.tracked(f.value):
                    return f"RCopyVar {self.v(f.value.id)}"
                if is_source(f.value):
                    return f"RCopyInput {self.srcnum(f.value)}"
            if isinstance(f, ast.Name) and f.id in ("dict", "deepcopy") and len(n.args) == 1:
                if self.tracked(n.args[0]):
                    return f"RCopyVar {self.v(n.args[0].id)}"
                if is_source(n.args[0]):
                    return f"RCopyInput {self.srcnum(n.args[0])}"
            if isinstance(f, ast.Name) and f.id == "dict" and not n.args:
                return "RNew"
        if isinstance(n, ast.IfExp):
            a, b = self.rhs(n.body), self.rhs(n.orelse)
            if a is None and b is None:
                return None
            cands = [x for x in (a, b) if x is not None]
            bad = [x for x in cands if x.startswith(("RAlias", "RInput"))]
            if bad:
                return bad[0]
            copies = [x for x in cands if x.startswith("RCopy")]
            return copies[0] if copies else "RNew"
        if isinstance(n, ast.BoolOp) and isinstance(n.op, ast.Or):          # metadata or {}
            rs = [self.rhs(x) for x in n.values]
            bad = [x for x in rs if x is not None and x.startswith(("RAlias", "RInput"))]
            if bad:
                return bad[0]
            if any(x is not None for x in rs):
                return "RNew"
        return None

    # ---- statements -----------------------------------------------------------------------------
    def write_target(self, tgt, node, kind):
        """A dict-mutating operation on the object denoted by expression tgt."""
        if self.tracked(tgt):
            return self.v(tgt.id)
        if is_source(tgt) or contains(tgt, is_source):
            self.tmp += 1
            t = self.v(f"<tmp{self.tmp}>")
            srcs = [x for x in ast.walk(tgt) if is_source(x)]
            self.emit(f"Assign {t} (RInput {self.srcnum(srcs[0])})", node)
            return t
        root = tgt
        depth = 0
        while isinstance(root, (ast.Subscript, ast.Attribute, ast.Call)):
            root = root.value if not isinstance(root, ast.Call) else root.func
            depth += 1
        if isinstance(root, ast.Name) and root.id in self.tainted and depth >= 1:
            self.tmp += 1
            t = self.v(f"<tmp{self.tmp}>")
            self.emit(f"Assign {t} (RInput {self.srcnum(ast.Name(id=root.id + '[..]', ctx=ast.Load()))})", node)
            return t
        return None      # a local container / unrelated object

    def note_store(self, container, value, node):
        """container[k] = value / container.append(value): taint if value mentions an alias."""
        root = container
        while isinstance(root, (ast.Subscript, ast.Attribute)):
            root = root.value
        if isinstance(root, ast.Name) and value is not None and (self.mentions_tracked(value) or self.mentions_tainted(value)):
            self.tainted.add(root.id)
            for x in ast.walk(value):
                if isinstance(x, ast.Name) and x.id in self.vars:
                    self.emit(f"Use {self.v(x.id)}", node)

    def expr_uses(self, n, node):
        """Tracked names / sources occurring in an expression that is evaluated (calls)."""
        for c in ast.walk(n):
            if isinstance(c, ast.Call):
                f = c.func
                fname = f.attr if isinstance(f, ast.Attribute) else (f.id if isinstance(f, ast.Name) else None)
                args = list(c.args) + [k.value for k in c.keywords]
                touched = [a for a in args if (self.tracked(a) and not (a.id in self.freshnames
                                                                       and a.id not in self.tainted))
                           or is_source(a)]
                if isinstance(f, ast.Attribute) and (self.tracked(f.value) or is_source(f.value)):
                    if fname in MUTATORS or (self.list_mode and fname in LIST_MUTATORS):
                        continue      # handled as a statement-level write
                    # any other method name is not a dict method (dict's methods are a fixed set): the
                    # object is not a dict (e.g. an Integral taken out of a container) - a read-only use
                    if self.tracked(f.value):
                        self.emit(f"Use {self.v(f.value.id)}", node)
                if touched and fname not in PASSIVE_CALLEES and fname not in FRESH_CALLS \
                        and not (isinstance(f, ast.Attribute) and fname in MUTATORS | READERS | LIST_MUTATORS):
                    raise Untranslatable(f"{self.name}: metadata dict passed to unknown callee {fname}: "
                                         f"{ast.unparse(c)[:80]}")
                for a in touched:
                    if self.tracked(a):
                        self.emit(f"Use {self.v(a.id)}", node)

    def stmt(self, st):
        if isinstance(st, (ast.FunctionDef, ast.ClassDef)):
            for s in st.body:
                self.stmt(s)
            return
        if isinstance(st, ast.Expr) and isinstance(st.value, ast.Constant):
            return
        if isinstance(st, (ast.For, ast.While)):
            if isinstance(st, ast.For):
                # loop variables bound from a tainted container / from something mentioning aliases
                if self.mentions_tainted(st.iter) or self.mentions_tracked(st.iter):
                    for x in ast.walk(st.target):
                        if isinstance(x, ast.Name):
                            self.emit(f"Assign {self.v(x.id)} (RInput {self.srcnum(st.iter)})", st)
                self.expr_uses(st.iter, st)
            for s in st.body + st.orelse:
                self.stmt(s)
            return
        if isinstance(st, ast.If):
            self.expr_uses(st.test, st)
            for s in st.body + st.orelse:
                self.stmt(s)
            return
        if isinstance(st, (ast.With, ast.Try)):
            for s in getattr(st, "body", []) + getattr(st, "orelse", []) + getattr(st, "finalbody", []):
                self.stmt(s)
            for h in getattr(st, "handlers", []):
                for s in h.body:
                    self.stmt(s)
            return
        if isinstance(st, ast.Assign):
            if len(st.targets) != 1:
                if self.mentions_tracked(st.value):
                    raise Untranslatable(f"{self.name}: chained assignment of a metadata dict")
                return
            tgt, val = st.targets[0], st.value
            self.expr_uses(val, st)
            if isinstance(tgt, ast.Name):
                r = self.rhs(val)
                if r is not None:
                    if r.startswith(("RNew", "RCopy")) and (tgt.id not in self.vars or tgt.id in self.freshnames):
                        self.freshnames.add(tgt.id)
                    else:
                        self.freshnames.discard(tgt.id)
                    self.emit(f"Assign {self.v(tgt.id)} ({r})" if " " in r else f"Assign {self.v(tgt.id)} {r}", st)
                    return
                # a call to one of the translated helper functions that returns aliases
                if isinstance(val, ast.Call) and isinstance(val.func, ast.Name) \
                        and val.func.id in ("accumulate_integrands_with_same_metadata",):
                    self.tainted.add(tgt.id)
                    return
                if self.mentions_tracked(val) or self.mentions_tainted(val):
                    # tuple/list/dict holding aliases, sorted(container.values()) ...
                    self.tainted.add(tgt.id)
                    for x in ast.walk(val):
                        if isinstance(x, ast.Name) and x.id in self.vars:
                            self.emit(f"Use {self.v(x.id)}", st)
                    if tgt.id in self.vars:
                        self.freshnames.discard(tgt.id)
                        self.emit(f"Assign {self.v(tgt.id)} (RInput {self.srcnum(val)})", st)
                    return
                if tgt.id in self.vars:
                    # re-bound to something that is not a metadata dict: treat as unknown input
                    self.emit(f"Assign {self.v(tgt.id)} (RInput {self.srcnum(val)})", st)
                return
            if isinstance(tgt, ast.Tuple) and isinstance(val, ast.Tuple) and len(tgt.elts) == len(val.elts) \
                    and all(isinstance(x, ast.Name) for x in tgt.elts):
                rs = [self.rhs(x) for x in val.elts]        # evaluate all right-hand sides first
                for x, r, ve in zip(tgt.elts, rs, val.elts):
                    if r is not None:
                        self.emit(f"Assign {self.v(x.id)} ({r})" if " " in r else f"Assign {self.v(x.id)} {r}", st)
                    elif x.id in self.vars or self.mentions_tracked(ve):
                        self.emit(f"Assign {self.v(x.id)} (RInput {self.srcnum(ve)})", st)
                return
            if isinstance(tgt, ast.Tuple):
                if self.mentions_tracked(val) or self.mentions_tainted(val):
                    for x in tgt.elts:
                        if isinstance(x, ast.Name):
                            self.emit(f"Assign {self.v(x.id)} (RInput {self.srcnum(val)})", st)
                return
            if isinstance(tgt, ast.Subscript):
                w = self.write_target(tgt.value, st, "setitem")
                if w is not None:
                    self.emit(f"SetItem {w} 0 0", st)
                self.note_store(tgt.value, val, st)
                return
            if isinstance(tgt, ast.Attribute):
                # self._metadata = <dict>: the new object shares the dict (no write)
                for x in ast.walk(val):
                    if isinstance(x, ast.Name) and x.id in self.vars:
                        self.emit(f"Use {self.v(x.id)}", st)
                return
            raise Untranslatable(f"{self.name}: assignment target {ast.unparse(tgt)}")
        if isinstance(st, ast.AugAssign):
            self.expr_uses(st.value, st)
            tgt = st.target
            if isinstance(tgt, ast.Name) and tgt.id in self.vars:
                self.emit(f"SetItem {self.v(tgt.id)} 0 0", st)
            elif isinstance(tgt, ast.Subscript):
                w = self.write_target(tgt.value, st, "setitem")
                if w is not None:
                    self.emit(f"SetItem {w} 0 0", st)
                else:
                    self.note_store(tgt.value, st.value, st)
            elif contains(tgt, is_source):
                w = self.write_target(tgt, st, "aug")
                self.emit(f"SetItem {w} 0 0", st)
            return
        if isinstance(st, ast.Delete):
            for t in st.targets:
                if isinstance(t, ast.Subscript):
                    w = self.write_target(t.value, st, "del")
                    if w is not None:
                        self.emit(f"SetItem {w} 0 0", st)
            return
        if isinstance(st, ast.Expr) and isinstance(st.value, ast.Call):
            c = st.value
            f = c.func
            if isinstance(f, ast.Attribute) and (f.attr in MUTATORS or (self.list_mode and f.attr in LIST_MUTATORS)):
                w = self.write_target(f.value, st, f.attr)
                if w is not None:
                    if f.attr in ("update", "extend") and len(c.args) == 1 and self.tracked(c.args[0]):
                        self.emit(f"UpdateVar {w} {self.v(c.args[0].id)}", st)
                    elif f.attr in ("update", "extend") and len(c.args) == 1 and is_source(c.args[0]):
                        self.emit(f"UpdateInput {w} {self.srcnum(c.args[0])}", st)
                    else:
                        self.emit(f"SetItem {w} 0 0", st)
                    for a in c.args:
                        self.expr_uses(a, st)
                    return
                for a in c.args:
                    self.note_store(f.value, a, st)
                return
            if isinstance(f, ast.Attribute) and f.attr in ("append", "extend", "add", "insert"):
                for a in c.args:
                    self.expr_uses(a, st)
                    self.note_store(f.value, a, st)
                return
            self.expr_uses(c, st)
            return
        if isinstance(st, (ast.Return, ast.Expr)):
            if st.value is not None:
                self.expr_uses(st.value, st)
                for x in ast.walk(st.value):
                    if isinstance(x, ast.Name) and x.id in self.vars:
                        self.emit(f"Use {self.v(x.id)}", st)
            return
        if isinstance(st, (ast.Raise, ast.Pass, ast.Import, ast.ImportFrom, ast.Assert, ast.Continue, ast.Break,
                           ast.Nonlocal, ast.Global, ast.AnnAssign)):
            if isinstance(st, ast.AnnAssign) and st.value is not None and self.mentions_tracked(st.value):
                raise Untranslatable(f"{self.name}: annotated assignment of a metadata dict")
            return
        raise Untranslatable(f"{self.name}: statement {type(st).__name__} not in whitelist")

    def translate(self):
        _LIST_MODE[0] = self.list_mode
        try:
            return self._translate()
        finally:
            _LIST_MODE[0] = False

    def _translate(self):
        args = self.node.args
        for a in args.args + args.kwonlyargs:
            if a.arg == "metadata":
                # the caller's dict: an input
                self.emit(f"Assign {self.v('metadata')} (RInput {self.srcnum(ast.Name(id='<param metadata>', ctx=ast.Load()))})",
                          ast.Name(id="def " + self.name + "(..., metadata, ...)", ctx=ast.Load()))
        for s in self.node.body:
            self.stmt(s)
        return self

    def to_coq(self, ident):
        def clean(c):
            return c.replace("(*", "( *").replace("*)", "* )").replace('"', "'")
        body = ";\n   ".join(f"{t} (* {clean(c)} *)" for t, c in self.ir)
        return (f"(* {self.name}; variables: " + ", ".join(f"{i}={n}" for n, i in self.vars.items()) +
                "; input dicts: " + clean(", ".join(f"{i}={s}" for i, s in enumerate(self.sources))) + " *)\n"
                f"Definition {ident}_ir : list stmt :=\n  [{body}].\n")

    def safe(self):
        """python mirror of Coq's `safe`"""
        fresh = set()
        for t, _ in self.ir:
            w = t.replace("(", " ").replace(")", " ").split()
            if w[0] == "Assign":
                x = int(w[1])
                if w[2] in ("RNew", "RCopyVar", "RCopyInput"):
                    fresh.add(x)
                elif w[2] == "RAlias":
                    (fresh.add if int(w[3]) in fresh else fresh.discard)(x)
                else:
                    fresh.discard(x)
            elif w[0] in ("UpdateVar", "UpdateInput", "SetItem"):
                if int(w[1]) not in fresh:
                    return False
        return True


def targets():
    import importlib
    ais = importlib.import_module("ufl.algorithms.apply_integral_scaling")
    cfd = importlib.import_module("ufl.algorithms.compute_form_data")
    da = importlib.import_module("ufl.algorithms.domain_analysis")
    from ufl.form import Form, FormSum
    from ufl.integral import Integral
    from ufl.measure import Measure
    return [
        ("attach_estimated_degrees", cfd.attach_estimated_degrees),
        ("apply_integral_scaling", ais.apply_integral_scaling),
        ("Integral_init", Integral.__init__),
        ("Integral_reconstruct", Integral.reconstruct),
        ("Measure_init", Measure.__init__),
        ("Measure_reconstruct", Measure.reconstruct),
        ("Measure_call", Measure.__call__),
        ("Measure_rmul", Measure.__rmul__),
        ("group_form_integrals", da.group_form_integrals),
        ("accumulate_integrands_with_same_metadata", da.accumulate_integrands_with_same_metadata),
        ("build_integral_data", da.build_integral_data),
        ("rearrange_integrals_by_single_subdomains", da.rearrange_integrals_by_single_subdomains),
        ("canonicalize_metadata", importlib.import_module("ufl.utils.sorting").canonicalize_metadata),
        ("FormSum_init", FormSum.__init__, True),
        ("FormSum_sum_variational_components", FormSum._sum_variational_components, True),
        ("Form_init", Form.__init__, True),
        ("Form_add", Form.__add__, True),
        ("map_integrands", importlib.import_module("ufl.algorithms.map_integrands").map_integrands, True),
    ]
