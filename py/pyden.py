"""Numeric mirror of coq/Core/Den.v on real UFL objects, used ONLY to search for concrete failing
inputs after an obligation broke (and by correspondence harnesses as a value oracle).

Values are truncated multivariate Taylor jets in the spatial variables (and optional extra
perturbation variables), with exact Fraction coefficients as long as only field operations are
used and float coefficients once a transcendental function is applied.  Terminals are random
polynomial fields; Grad is the formal partial derivative, so "the true derivative" is exact."""

import itertools
import math
import random
from fractions import Fraction

from ufl.core.multiindex import FixedIndex, Index


class Unsupported(Exception):
    pass


class Jet:
    """Truncated power series sum_a c_a x^a, |a| <= order, in nv variables."""

    __slots__ = ("nv", "order", "c")

    def __init__(self, nv, order, c=None):
        self.nv, self.order, self.c = nv, order, c or {}

    @staticmethod
    def const(nv, order, v):
        return Jet(nv, order, {(0,) * nv: v} if v != 0 else {})

    @staticmethod
    def var(nv, order, j, x0=0):
        c = {}
        if x0 != 0:
            c[(0,) * nv] = x0
        if order >= 1:
            c[tuple(1 if k == j else 0 for k in range(nv))] = Fraction(1)
        return Jet(nv, order, c)

    def value(self):
        return self.c.get((0,) * self.nv, Fraction(0))

    def _lift(self, o):
        return o if isinstance(o, Jet) else Jet.const(self.nv, self.order, o)

    def __add__(self, o):
        o = self._lift(o)
        n = min(self.order, o.order)
        c = {}
        for a, v in self.c.items():
            if sum(a) <= n:
                c[a] = v
        for a, v in o.c.items():
            if sum(a) <= n:
                w = c.get(a, 0) + v
                if w == 0:
                    c.pop(a, None)
                else:
                    c[a] = w
        return Jet(self.nv, n, c)

    __radd__ = __add__

    def __neg__(self):
        return Jet(self.nv, self.order, {a: -v for a, v in self.c.items()})

    def __sub__(self, o):
        return self + (-self._lift(o))

    def __rsub__(self, o):
        return self._lift(o) + (-self)

    def __mul__(self, o):
        o = self._lift(o)
        n = min(self.order, o.order)
        c = {}
        for a, v in self.c.items():
            sa = sum(a)
            if sa > n:
                continue
            for b, w in o.c.items():
                if sa + sum(b) > n:
                    continue
                k = tuple(x + y for x, y in zip(a, b))
                t = c.get(k, 0) + v * w
                if t == 0:
                    c.pop(k, None)
                else:
                    c[k] = t
        return Jet(self.nv, n, c)

    __rmul__ = __mul__

    def recip(self):
        a0 = self.value()
        if a0 == 0:
            raise ZeroDivisionError
        inv = 1 / a0 if isinstance(a0, Fraction) else 1.0 / a0
        d = (self - a0) * inv            # self = a0 (1 + d)
        # 1/(1+d) = sum (-d)^k
        r = Jet.const(self.nv, self.order, 1 if isinstance(a0, Fraction) else 1.0)
        p = Jet.const(self.nv, self.order, 1)
        for _ in range(self.order):
            p = p * (-d)
            r = r + p
        return r * inv

    def __truediv__(self, o):
        o = self._lift(o)
        return self * o.recip()

    def __rtruediv__(self, o):
        return self._lift(o) * self.recip()

    def diff(self, j):
        c = {}
        for a, v in self.c.items():
            if a[j] > 0:
                b = tuple(x - 1 if k == j else x for k, x in enumerate(a))
                c[b] = v * a[j]
        return Jet(self.nv, self.order - 1, c)

    def compose(self, coeffs):
        """sum_k coeffs[k] * (self - a0)^k"""
        d = self - self.value()
        r = Jet.const(self.nv, self.order, coeffs[0])
        p = Jet.const(self.nv, self.order, 1)
        for k in range(1, self.order + 1):
            p = p * d
            r = r + p * coeffs[k]
        return r

    def close_to(self, o, tol=1e-7):
        o = self._lift(o)
        n = min(self.order, o.order)
        keys = {a for a in self.c if sum(a) <= n} | {a for a in o.c if sum(a) <= n}
        for a in keys:
            x, y = self.c.get(a, 0), o.c.get(a, 0)
            if isinstance(x, Fraction) and isinstance(y, Fraction):
                if x != y:
                    return False
            else:
                if abs(complex(x) - complex(y)) > tol * (1 + abs(complex(x)) + abs(complex(y))):
                    return False
        return True


def _uni(order, a0):
    """the univariate jet a0 + t"""
    return Jet.var(1, order, 0, a0)


def _integrate(j, c0):
    c = {(0,): c0}
    for (k,), v in j.c.items():
        c[(k + 1,)] = v / (k + 1)
    return Jet(1, j.order + 1, c)


def taylor_coeffs(fname, a0, n):
    """f^(k)(a0)/k! for k = 0..n, as floats"""
    a0 = float(a0)
    t = _uni(n, a0)

    def coeffs(j):
        return [j.c.get((k,), 0.0) for k in range(n + 1)]

    def exp_series(b0):      # exp(b0 + t)
        return [math.exp(b0) / math.factorial(k) for k in range(n + 1)]

    if fname == "exp":
        return exp_series(a0)
    if fname == "sin":
        return [[math.sin, math.cos, lambda x: -math.sin(x), lambda x: -math.cos(x)][k % 4](a0) / math.factorial(k)
                for k in range(n + 1)]
    if fname == "cos":
        return [[math.cos, lambda x: -math.sin(x), lambda x: -math.cos(x), math.sin][k % 4](a0) / math.factorial(k)
                for k in range(n + 1)]
    if fname == "ln":
        return [math.log(a0)] + [(-1) ** (k - 1) / (k * a0 ** k) for k in range(1, n + 1)]
    if fname == "sqrt":
        out, b = [], 1.0
        for k in range(n + 1):
            out.append(b * a0 ** (0.5 - k))
            b = b * (0.5 - k) / (k + 1)
        return out
    sinj = lambda: t.compose(taylor_coeffs("sin", a0, n))  # noqa: E731
    cosj = lambda: t.compose(taylor_coeffs("cos", a0, n))  # noqa: E731
    expj = lambda s=1: (t * s).compose(exp_series(a0 * s))  # noqa: E731
    if fname == "tan":
        return coeffs(sinj() / cosj())
    if fname == "sinh":
        return coeffs((expj(1) - expj(-1)) * 0.5)
    if fname == "cosh":
        return coeffs((expj(1) + expj(-1)) * 0.5)
    if fname == "tanh":
        return coeffs((expj(1) - expj(-1)) / (expj(1) + expj(-1)))
    tm = _uni(max(n - 1, 0), a0)
    if fname == "atan":
        return coeffs(_integrate((tm * tm + 1.0).recip(), math.atan(a0)))
    if fname in ("asin", "acos"):
        u = 1.0 - tm * tm
        r = u.compose(taylor_coeffs("sqrt", u.value(), max(n - 1, 0))).recip()
        j = _integrate(r, math.asin(a0))
        if fname == "acos":
            j = math.pi / 2 - j
        return coeffs(j)
    if fname == "erf":
        u = -(tm * tm)
        e = u.compose([math.exp(float(u.value())) / math.factorial(k) for k in range(max(n - 1, 0) + 1)])
        return coeffs(_integrate(e * (2 / math.sqrt(math.pi)), math.erf(a0)))
    raise Unsupported(fname)


MATH = {"Sqrt": "sqrt", "Exp": "exp", "Ln": "ln", "Cos": "cos", "Sin": "sin", "Tan": "tan",
        "Cosh": "cosh", "Sinh": "sinh", "Tanh": "tanh", "Acos": "acos", "Asin": "asin",
        "Atan": "atan", "Erf": "erf"}


def perm_sign(c):
    if len(set(c)) != len(c):
        return 0
    inv = sum(1 for i in range(len(c)) for j in range(i + 1, len(c)) if c[i] > c[j])
    return 1 if inv % 2 == 0 else -1


def det_f(n, M):
    if n == 0:
        return 1
    tot = 0
    for j in range(n):
        minor = lambda r, c, j=j: M(r + 1, c if c < j else c + 1)  # noqa: E731
        tot = tot + (1 if j % 2 == 0 else -1) * (M(0, j) * det_f(n - 1, minor))
    return tot


def cof_f(n, M, i, j):
    if n == 0:
        return 1
    minor = lambda r, c: M(r if r < i else r + 1, c if c < j else c + 1)  # noqa: E731
    return (1 if (i + j) % 2 == 0 else -1) * det_f(n - 1, minor)


class Env:
    """Random polynomial fields for terminals.  value(t, comp, side) -> Jet."""

    def __init__(self, nv=2, order=3, seed=0, degree=2, positive=False, overrides=None, complex_values=False):
        self.nv, self.order, self.degree = nv, order, degree
        self.complex_values = complex_values
        self.rng = random.Random(seed)
        self.cache = {}
        self.positive = positive
        self.overrides = overrides or {}
        self.x0 = tuple(Fraction(self.rng.randint(-3, 3), 4) for _ in range(nv))

    def zero(self):
        return Jet.const(self.nv, self.order, Fraction(0))

    def const(self, v):
        return Jet.const(self.nv, self.order, Fraction(v) if isinstance(v, int) else v)

    def field(self, key, constant=False):
        if key in self.cache:
            return self.cache[key]
        c = {}
        deg = 0 if constant else self.degree
        for a in itertools.product(range(deg + 1), repeat=self.nv):
            if sum(a) <= deg and sum(a) <= self.order:
                v = Fraction(self.rng.randint(-5, 5), self.rng.choice([1, 2, 3]))
                if self.complex_values:
                    v = complex(float(v), self.rng.randint(-4, 4) / 2.0)
                if v != 0:
                    c[a] = v
        if self.positive or c.get((0,) * self.nv, 0) == 0:
            c[(0,) * self.nv] = Fraction(self.rng.randint(2, 9), 3) + (Fraction(0))
        j = Jet(self.nv, self.order, c)
        self.cache[key] = j
        return j

    def value(self, t, comp, side):
        from ufl2coq import Ctx
        for pred, fn in self.overrides.items():
            pass
        name = type(t).__name__
        h = getattr(self, "t_" + name, None)
        if h is not None:
            return h(t, comp, side)
        cellwise_const = name == "Constant" or (hasattr(t, "is_cellwise_constant") and t.is_cellwise_constant())
        key = (Ctx.term_key(t), tuple(comp), side if self.side_dependent(t) else None)
        return self.field(key, constant=cellwise_const)

    def side_dependent(self, t):
        return True

    def t_SpatialCoordinate(self, t, comp, side):
        return Jet.var(self.nv, self.order, comp[0], self.x0[comp[0]] if comp[0] < len(self.x0) else 0)


def evaluate(e, env, rho=None, c=(), side=None, memo=None):
    """den: Jet value of component c of e."""
    rho = rho or {}
    memo = memo if memo is not None else {}
    return _ev(e, env, rho, tuple(c), side, memo)


def _ev(e, env, rho, c, side, memo):
    key = (id(e), c, side, tuple(sorted(rho.items())))
    if key in memo:
        return memo[key]
    r = _ev1(e, env, rho, c, side, memo)
    memo[key] = r
    return r


def _idx(i, rho):
    if isinstance(i, FixedIndex):
        return int(i)
    if isinstance(i, Index):
        return rho[i.count()]
    raise Unsupported("index")


def _ev1(e, env, rho, c, side, memo):
    n = type(e).__name__
    ops = e.ufl_operands
    ev = lambda x, cc=(), r=rho, s=side: _ev(x, env, r, tuple(cc), s, memo)  # noqa: E731
    if n == "Zero":
        return env.zero()
    if n in ("IntValue",):
        return env.const(int(e._value))
    if n == "FloatValue":
        x = float(e._value)
        fr = Fraction(x).limit_denominator(5040)
        if fr != 0 and abs(float(fr) - x) <= 4.5e-16 * abs(x) or x == 0:
            return env.const(fr)
        return env.const(Fraction(x))
    if n == "ComplexValue":
        if e._value.imag != 0:
            raise Unsupported("complex literal")
        return env.const(Fraction(e._value.real))
    if n == "Identity":
        return env.const(1 if c[0] == c[1] else 0)
    if n == "PermutationSymbol":
        return env.const(perm_sign(c))
    if e._ufl_is_terminal_:
        return env.value(e, c, side)
    if n == "Sum":
        return ev(ops[0], c) + ev(ops[1], c)
    if n == "Product":
        return ev(ops[0]) * ev(ops[1])
    if n == "Division":
        return ev(ops[0]) / ev(ops[1])
    if n == "Power":
        b = ops[1]
        if type(b).__name__ == "IntValue" and int(b._value) >= 0:
            r = env.const(1)
            a = ev(ops[0])
            for _ in range(int(b._value)):
                r = r * a
            return r
        if type(b).__name__ == "IntValue":
            a = ev(ops[0])
            r = env.const(1)
            for _ in range(-int(b._value)):
                r = r * a
            return r.recip()
        a, bb = ev(ops[0]), ev(b)
        la = a.compose(taylor_coeffs("ln", a.value(), a.order))
        u = la * bb
        return u.compose([math.exp(float(u.value())) / math.factorial(k) for k in range(u.order + 1)])
    if n == "Abs":
        a = ev(ops[0], c)
        return a if a.value() >= 0 else -a
    if n in ("Conj", "Real", "Imag"):
        a = ev(ops[0], c)
        if not getattr(env, "complex_values", False):
            return a if n != "Imag" else env.zero()
        f = {"Conj": lambda z: complex(z).conjugate(), "Real": lambda z: complex(z).real,
             "Imag": lambda z: complex(z).imag}[n]
        return Jet(a.nv, a.order, {k: f(v) for k, v in a.c.items() if f(v) != 0})
    if n == "Indexed":
        return ev(ops[0], tuple(_idx(i, rho) for i in ops[1]))
    if n == "IndexSum":
        (i,) = ops[1]
        tot = env.zero()
        for k in range(e.dimension()):
            r2 = dict(rho)
            r2[i.count()] = k
            tot = tot + ev(ops[0], c, r2)
        return tot
    if n == "ComponentTensor":
        r2 = dict(rho)
        for i, k in zip(ops[1], c):
            r2[i.count()] = k
        return ev(ops[0], (), r2)
    if n == "ListTensor":
        return ev(ops[c[0]], c[1:])
    if n == "Conditional":
        return ev(ops[1], c) if _cond(ops[0], env, rho, side, memo) else ev(ops[2], c)
    if n == "MinValue":
        a, b = ev(ops[0]), ev(ops[1])
        return a if a.value() <= b.value() else b
    if n == "MaxValue":
        a, b = ev(ops[0]), ev(ops[1])
        return a if a.value() >= b.value() else b
    if n in MATH:
        a = ev(ops[0])
        return a.compose(taylor_coeffs(MATH[n], a.value(), a.order))
    if n == "Atan2":
        a, b = ev(ops[0]), ev(ops[1])
        q = a / b
        r = q.compose(taylor_coeffs("atan", q.value(), q.order))
        if b.value() < 0:
            r = r + (math.pi if a.value() >= 0 else -math.pi)
        return r
    if n == "Variable":
        return ev(ops[0], c)
    if n == "PositiveRestricted":
        return ev(ops[0], c, rho, "+")
    if n == "NegativeRestricted":
        return ev(ops[0], c, rho, "-")
    if n == "Grad":
        return env.grad(ops[0], c[:-1], c[-1], rho, side, memo) if hasattr(env, "grad") \
            else ev(ops[0], c[:-1]).diff(c[-1])
    if n == "NablaGrad":
        return ev(ops[0], c[1:]).diff(c[0])
    if n == "Div":
        tot = env.zero()
        for j in range(ops[0].ufl_shape[-1]):
            tot = tot + ev(ops[0], c + (j,)).diff(j)
        return tot
    if n == "NablaDiv":
        tot = env.zero()
        for j in range(ops[0].ufl_shape[0]):
            tot = tot + ev(ops[0], (j,) + c).diff(j)
        return tot
    if n == "Curl":
        a = ops[0]
        sh = a.ufl_shape
        if sh == ():
            return ev(a).diff(1) if c[0] == 0 else -ev(a).diff(0)
        if sh == (2,):
            return ev(a, (1,)).diff(0) - ev(a, (0,)).diff(1)
        i = c[0]
        return ev(a, ((i + 2) % 3,)).diff((i + 1) % 3) - ev(a, ((i + 1) % 3,)).diff((i + 2) % 3)
    if n == "ReferenceValue":
        return env.value(e, c, side) if hasattr(env, "reference_value") else ev(ops[0], c)
    if n == "ReferenceGrad":
        if hasattr(env, "refgrad"):
            return env.refgrad(ops[0], c[:-1], c[-1], rho, side, memo)
        raise Unsupported("ReferenceGrad")
    if n == "Transposed":
        return ev(ops[0], c[::-1])
    if n == "Outer":
        ra = len(ops[0].ufl_shape)
        a = ev(ops[0], c[:ra])
        if getattr(env, "complex_values", False):
            a = Jet(a.nv, a.order, {k: complex(v).conjugate() for k, v in a.c.items()})
        return a * ev(ops[1], c[ra:])
    if n == "Inner":
        tot = env.zero()
        cj = (lambda j: Jet(j.nv, j.order, {k: complex(v).conjugate() for k, v in j.c.items()})) \
            if getattr(env, "complex_values", False) else (lambda j: j)
        for I in itertools.product(*[range(d) for d in ops[0].ufl_shape]):
            tot = tot + ev(ops[0], I) * cj(ev(ops[1], I))
        return tot
    if n == "Dot":
        ra = len(ops[0].ufl_shape) - 1
        tot = env.zero()
        for k in range(ops[0].ufl_shape[-1]):
            tot = tot + ev(ops[0], c[:ra] + (k,)) * ev(ops[1], (k,) + c[ra:])
        return tot
    if n == "Cross":
        i = c[0]
        a, b = ops
        return ev(a, ((i + 1) % 3,)) * ev(b, ((i + 2) % 3,)) - ev(a, ((i + 2) % 3,)) * ev(b, ((i + 1) % 3,))
    if n == "Perp":
        return -ev(ops[0], (1,)) if c[0] == 0 else ev(ops[0], (0,))
    if n == "Trace":
        tot = env.zero()
        for i in range(ops[0].ufl_shape[0]):
            tot = tot + ev(ops[0], (i, i))
        return tot
    if n in ("Determinant", "Inverse", "Cofactor"):
        a = ops[0]
        sh = a.ufl_shape
        if sh == ():
            return ev(a) if n == "Determinant" else env.const(1) / ev(a)
        M = lambda i, j: ev(a, (i, j))  # noqa: E731
        nn = sh[0]
        if n == "Determinant":
            return det_f(nn, M)
        if n == "Cofactor":
            return cof_f(nn, M, c[0], c[1])
        return cof_f(nn, M, c[1], c[0]) / det_f(nn, M)
    if n == "Deviatoric":
        a = ops[0]
        nn = a.ufl_shape[0]
        r = ev(a, c)
        if c[0] == c[1]:
            tr = env.zero()
            for k in range(nn):
                tr = tr + ev(a, (k, k))
            r = r - tr * Fraction(1, nn)
        return r
    if n == "Skew":
        return (ev(ops[0], c) - ev(ops[0], c[::-1])) * Fraction(1, 2)
    if n == "Sym":
        return (ev(ops[0], c) + ev(ops[0], c[::-1])) * Fraction(1, 2)
    raise Unsupported(n)


def _cond(cn, env, rho, side, memo):
    n = type(cn).__name__
    ops = cn.ufl_operands
    if n in ("EQ", "NE", "LT", "GT", "LE", "GE"):
        a = _ev(ops[0], env, rho, (), side, memo).value()
        b = _ev(ops[1], env, rho, (), side, memo).value()
        return {"EQ": a == b, "NE": a != b, "LT": a < b, "GT": a > b, "LE": a <= b, "GE": a >= b}[n]
    if n == "AndCondition":
        return _cond(ops[0], env, rho, side, memo) and _cond(ops[1], env, rho, side, memo)
    if n == "OrCondition":
        return _cond(ops[0], env, rho, side, memo) or _cond(ops[1], env, rho, side, memo)
    if n == "NotCondition":
        return not _cond(ops[0], env, rho, side, memo)
    raise Unsupported(n)


def free_index_valuations(e, rng, limit=3):
    fi = list(zip(e.ufl_free_indices, e.ufl_index_dimensions))
    vals = []
    for _ in range(limit):
        vals.append({i: rng.randrange(d) for i, d in fi})
    return vals if fi else [{}]


def find_mismatch(out, inp, trials=40, seed=0, nv=None, env_factory=None, order=2):
    """Random search for operand values and a component where den(out) != den(inp).
    Returns a JSON-able witness or None."""
    rng = random.Random(seed)
    if nv is None:
        nv = 3
    comps = list(itertools.product(*[range(d) for d in out.ufl_shape]))
    for t in range(trials):
        # second half of the trials: complex-valued fields (conj / real / imag conventions)
        cplx = (not env_factory) and t >= trials // 2
        env = env_factory(rng.randrange(10**9)) if env_factory else \
            Env(nv=nv, order=order, seed=rng.randrange(10**9), complex_values=cplx)
        for rho in free_index_valuations(out, rng, 2):
            for c in comps:
                try:
                    a = evaluate(out, env, rho, c)
                    b = evaluate(inp, env, rho, c)
                except ZeroDivisionError:
                    continue
                except (Unsupported, ValueError, OverflowError, TypeError):
                    if cplx:
                        break
                    return None
                if not a.close_to(b):
                    return {"component": list(c), "free_index_values": {str(k): v for k, v in rho.items()},
                            "implementation_value": str(a.value()), "expected_value": str(b.value()),
                            "terminal_values": {str(k): str(v.value()) for k, v in list(env.cache.items())[:40]},
                            "env_seed_trial": t}
    return None
