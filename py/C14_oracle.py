"""C14 search oracle: evaluate a UFL integrand over the Gaussian rationals Q(i) with polynomial (jet)
fields for the terminals, so that additivity / (conjugate-)homogeneity in a form argument can be
tested numerically on integrands that the REAL arity checker accepted.  Used only to find concrete
failing inputs (never as a proof).  Mirrors coq/Core/Den.v for the node types of the C14 generator."""

import itertools
import random
from fractions import Fraction

from pyden import Jet, Unsupported, _idx, perm_sign, taylor_coeffs, MATH


class GQ:
    """p + q*i with p, q Fractions."""
    __slots__ = ("re", "im")

    def __init__(self, re=0, im=0):
        self.re = Fraction(re) if not isinstance(re, float) else re
        self.im = Fraction(im) if not isinstance(im, float) else im

    @staticmethod
    def lift(o):
        return o if isinstance(o, GQ) else GQ(o, 0)

    def __add__(self, o):
        o = GQ.lift(o)
        return GQ(self.re + o.re, self.im + o.im)
    __radd__ = __add__

    def __neg__(self):
        return GQ(-self.re, -self.im)

    def __sub__(self, o):
        return self + (-GQ.lift(o))

    def __rsub__(self, o):
        return GQ.lift(o) + (-self)

    def __mul__(self, o):
        o = GQ.lift(o)
        return GQ(self.re * o.re - self.im * o.im, self.re * o.im + self.im * o.re)
    __rmul__ = __mul__

    def conj(self):
        return GQ(self.re, -self.im)

    def inv(self):
        n = self.re * self.re + self.im * self.im
        if n == 0:
            raise ZeroDivisionError
        return GQ(self.re / n, -self.im / n)

    def __truediv__(self, o):
        return self * GQ.lift(o).inv()

    def __rtruediv__(self, o):
        return GQ.lift(o) * self.inv()

    def __eq__(self, o):
        o = GQ.lift(o)
        return self.re == o.re and self.im == o.im

    def __ne__(self, o):
        return not self == o

    def __hash__(self):
        return hash((self.re, self.im))

    def __repr__(self):
        return f"({self.re}+{self.im}i)"


def jmap(j, fn):
    return Jet(j.nv, j.order, {a: w for a, w in ((a, fn(GQ.lift(v))) for a, v in j.c.items()) if w != 0})


def jeq(a, b):
    n = min(a.order, b.order)
    keys = {k for k in a.c if sum(k) <= n} | {k for k in b.c if sum(k) <= n}
    for k in keys:
        x, y = GQ.lift(a.c.get(k, 0)), GQ.lift(b.c.get(k, 0))
        if isinstance(x.re, float) or isinstance(y.re, float) or isinstance(x.im, float) or isinstance(y.im, float):
            if abs(complex(x.re, x.im) - complex(y.re, y.im)) > 1e-7 * (1 + abs(complex(x.re, x.im))):
                return False
        elif x != y:
            return False
    return True


class Env:
    """Random polynomial fields (degree <= 2 jets in nv variables) for the terminals; the value of an
    Argument can be overridden (per argument id -> function(component, side) -> Jet)."""

    def __init__(self, seed, complex_mode, nv=2, order=2):
        self.rng = random.Random(seed)
        self.cm = complex_mode
        self.nv, self.order = nv, order
        self.cache = {}
        self.opaque = {}

    def rand_scalar(self, rng=None):
        rng = rng or self.rng
        re = Fraction(rng.randint(-5, 5), rng.choice([1, 2, 3]))
        im = Fraction(rng.randint(-5, 5), rng.choice([1, 2, 3])) if self.cm else 0
        if re == 0 and im == 0:
            re = Fraction(1)
        return GQ(re, im)

    def rand_field(self, rng=None):
        c = {}
        for a in itertools.product(range(self.order + 1), repeat=self.nv):
            if sum(a) <= self.order:
                c[a] = self.rand_scalar(rng)
        return Jet(self.nv, self.order, c)

    def zero(self):
        return Jet(self.nv, self.order, {})

    def const(self, v):
        return Jet.const(self.nv, self.order, GQ.lift(v))

    def field(self, key):
        if key not in self.cache:
            self.cache[key] = self.rand_field()
        return self.cache[key]


def term_key(t):
    import ufl.classes as C
    if isinstance(t, C.Argument):
        return ("Argument", t.number(), t.part(), repr(t.ufl_function_space()))
    if isinstance(t, (C.Coefficient, C.Constant)):
        return (type(t).__name__, t.count())
    return (type(t).__name__, repr(t))


def has_argument(e):
    from ufl.algorithms.analysis import extract_type
    from ufl.classes import Argument
    return bool(extract_type(e, Argument))


def ev(e, env, argval, rho=None, c=(), side=None):
    """argval: dict argument-key -> dict (component, side) -> Jet (missing entries are created)."""
    rho = rho or {}
    n = type(e).__name__
    ops = e.ufl_operands
    E = lambda x, cc=(), r=rho, s=side: ev(x, env, argval, r, tuple(cc), s)  # noqa: E731
    if n == "Zero":
        return env.zero()
    if n == "IntValue":
        return env.const(int(e._value))
    if n in ("FloatValue", "RealValue"):
        x = float(e._value)
        fr = Fraction(x).limit_denominator(5040)
        return env.const(fr if abs(float(fr) - x) <= 4.5e-16 * abs(x) else Fraction(x))
    if n == "ComplexValue":
        return env.const(GQ(Fraction(e._value.real), Fraction(e._value.imag)))
    if n == "Identity":
        return env.const(1 if c[0] == c[1] else 0)
    if n == "PermutationSymbol":
        return env.const(perm_sign(c))
    if n == "Argument":
        d = argval.setdefault(term_key(e), {})
        k = (tuple(c), side)
        if k not in d:
            d[k] = env.rand_field()
        return d[k]
    if e._ufl_is_terminal_:
        return env.field((term_key(e), tuple(c), side))
    if n == "Sum":
        return E(ops[0], c) + E(ops[1], c)
    if n == "Product":
        return E(ops[0]) * E(ops[1])
    if n == "Division":
        return E(ops[0]) / E(ops[1])
    if n == "Conj":
        return jmap(E(ops[0], c), lambda z: z.conj())
    if n == "Real":
        return jmap(E(ops[0], c), lambda z: GQ(z.re, 0))
    if n == "Imag":
        return jmap(E(ops[0], c), lambda z: GQ(z.im, 0))
    if n == "Indexed":
        return E(ops[0], tuple(_idx(i, rho) for i in ops[1]))
    if n == "IndexSum":
        (i,) = ops[1]
        tot = env.zero()
        for k in range(e.dimension()):
            r2 = dict(rho)
            r2[i.count()] = k
            tot = tot + E(ops[0], c, r2)
        return tot
    if n == "ComponentTensor":
        r2 = dict(rho)
        for i, k in zip(ops[1], c):
            r2[i.count()] = k
        return E(ops[0], (), r2)
    if n == "ListTensor":
        return E(ops[c[0]], c[1:])
    if n == "Variable":
        return E(ops[0], c)
    if n == "PositiveRestricted":
        return E(ops[0], c, rho, "+")
    if n == "NegativeRestricted":
        return E(ops[0], c, rho, "-")
    if n in ("Grad", "ReferenceGrad"):
        return E(ops[0], c[:-1]).diff(c[-1]) + env.zero()
    if n == "ReferenceValue":
        return E(ops[0], c)
    if n in ("CellAvg", "FacetAvg"):
        return E(ops[0], c)
    if n == "Outer":
        ra = len(ops[0].ufl_shape)
        return jmap(E(ops[0], c[:ra]), lambda z: z.conj()) * E(ops[1], c[ra:])
    if n == "Inner":
        tot = env.zero()
        for I in itertools.product(*[range(d) for d in ops[0].ufl_shape]):
            tot = tot + E(ops[0], I) * jmap(E(ops[1], I), lambda z: z.conj())
        return tot
    if n == "Dot":
        ra = len(ops[0].ufl_shape) - 1
        tot = env.zero()
        for k in range(ops[0].ufl_shape[-1]):
            tot = tot + E(ops[0], c[:ra] + (k,)) * E(ops[1], (k,) + c[ra:])
        return tot
    if n == "Conditional":
        return E(ops[1], c) if _cond(ops[0], env, argval, rho, side) else E(ops[2], c)
    if n == "Power" and type(ops[1]).__name__ == "IntValue" and int(ops[1]._value) >= 0:
        r = env.const(1)
        a = E(ops[0])
        for _ in range(int(ops[1]._value)):
            r = r * a
        return r
    # nonlinear operators: argument-free operands -> an opaque field (the same in every evaluation)
    if not has_argument(e):
        key = ("opaque", id(e), tuple(c), side, tuple(sorted(rho.items())))
        env._keep = getattr(env, "_keep", [])
        env._keep.append(e)
        return env.field(key)
    # nonlinear operator applied to an argument: evaluate for the few cases we can
    if n == "Abs":
        a = E(ops[0], c)
        z = GQ.lift(a.value())
        if z.im != 0:
            raise Unsupported("abs of complex")
        return a if z.re >= 0 else -a
    if n in ("MinValue", "MaxValue"):
        a, b = E(ops[0]), E(ops[1])
        ar, br = GQ.lift(a.value()).re, GQ.lift(b.value()).re
        return (a if ar <= br else b) if n == "MinValue" else (a if ar >= br else b)
    if n in MATH:
        a = E(ops[0])
        z = GQ.lift(a.value())
        if z.im != 0 or any(GQ.lift(v).im != 0 for v in a.c.values()):
            raise Unsupported("math function of complex")
        ar = Jet(a.nv, a.order, {k: float(GQ.lift(v).re) for k, v in a.c.items()})
        r = ar.compose(taylor_coeffs(MATH[n], ar.value(), ar.order))
        return Jet(r.nv, r.order, {k: GQ(float(v), 0.0) for k, v in r.c.items()})
    if n == "Power":
        a = E(ops[0])
        if type(ops[1]).__name__ == "IntValue":
            r = env.const(1)
            for _ in range(-int(ops[1]._value)):
                r = r * a
            return env.const(1) / r
        raise Unsupported("power")
    if n in ("Transposed",):
        return E(ops[0], c[::-1])
    if n == "Trace":
        tot = env.zero()
        for i in range(ops[0].ufl_shape[0]):
            tot = tot + E(ops[0], (i, i))
        return tot
    if n == "Div":
        tot = env.zero()
        for j in range(ops[0].ufl_shape[-1]):
            tot = tot + E(ops[0], c + (j,)).diff(j)
        return tot + env.zero()
    if n == "NablaGrad":
        return E(ops[0], c[1:]).diff(c[0]) + env.zero()
    if n in ("Sym", "Skew"):
        sgn = 1 if n == "Sym" else -1
        return (E(ops[0], c) + sgn * E(ops[0], c[::-1])) * Fraction(1, 2)
    raise Unsupported(n)


def _cond(cn, env, argval, rho, side):
    n = type(cn).__name__
    ops = cn.ufl_operands
    if n in ("EQ", "NE", "LT", "GT", "LE", "GE"):
        a = GQ.lift(ev(ops[0], env, argval, rho, (), side).value()).re
        b = GQ.lift(ev(ops[1], env, argval, rho, (), side).value()).re
        return {"EQ": a == b, "NE": a != b, "LT": a < b, "GT": a > b, "LE": a <= b, "GE": a >= b}[n]
    if n == "AndCondition":
        return _cond(ops[0], env, argval, rho, side) and _cond(ops[1], env, argval, rho, side)
    if n == "OrCondition":
        return _cond(ops[0], env, argval, rho, side) or _cond(ops[1], env, argval, rho, side)
    if n == "NotCondition":
        return not _cond(ops[0], env, argval, rho, side)
    raise Unsupported(n)


def linearity_witness(e, arguments, complex_mode, seed=0, trials=3):
    """Test, for every argument NUMBER among `arguments`:  e[z] == s*e[x] + e[y]  where the values of all
    arguments with that number are z = a*x + y, and s = conj(a) for number 0 in complex mode, else a.
    Also tests that e does not depend on Arguments outside `arguments`.
    Returns None if all tests pass, else a JSON-able description of the failing evaluation.
    Raises Unsupported when e contains a node the oracle cannot evaluate."""
    from ufl.algorithms.analysis import extract_type
    from ufl.classes import Argument
    rng = random.Random(seed)
    present = sorted(extract_type(e, Argument), key=lambda a: (a.number(), -1 if a.part() is None else a.part()))
    extra = [a for a in present if a not in arguments]
    if extra:
        return {"kind": "integrand contains an Argument that is not among the form's arguments",
                "argument": str(extra[0])}
    comps = list(itertools.product(*[range(d) for d in e.ufl_shape]))
    fi = list(zip(e.ufl_free_indices, e.ufl_index_dimensions))
    for t in range(trials):
        env = Env(rng.randrange(10**9), complex_mode)
        for number in sorted({a.number() for a in arguments}):
            fam = [a for a in arguments if a.number() == number]
            a_s = env.rand_scalar()
            if a_s == 1:
                a_s = GQ(2, 1 if complex_mode else 0)
            s = a_s.conj() if (complex_mode and number == 0) else a_s
            vx, vy, vz = {}, {}, {}
            frng = random.Random(rng.randrange(10**9))

            def value_tables(arg_key, comp_side, is_fam):
                k = (arg_key, comp_side)
                if k not in vx:
                    if is_fam:
                        x, y = env.rand_field(frng), env.rand_field(frng)
                        vx[k], vy[k], vz[k] = x, y, x * a_s + y
                    else:
                        x = env.rand_field(frng)
                        vx[k] = vy[k] = vz[k] = x
                return vx[k], vy[k], vz[k]

            famkeys = {term_key(a) for a in fam}

            class Tab(dict):
                def __init__(self, sel, akey):
                    super().__init__()
                    self.sel, self.akey = sel, akey

                def __contains__(self, k):
                    return True

                def __getitem__(self, k):
                    return value_tables(self.akey, k, self.akey in famkeys)[self.sel]

            class Top(dict):
                def __init__(self, sel):
                    super().__init__()
                    self.sel = sel

                def setdefault(self, akey, default=None):
                    if akey not in self:
                        dict.__setitem__(self, akey, Tab(self.sel, akey))
                    return dict.__getitem__(self, akey)

            for rho in ([{i: rng.randrange(d) for i, d in fi}] if fi else [{}]):
                for c in comps:
                    try:
                        ex = ev(e, env, Top(0), rho, c)
                        ey = ev(e, env, Top(1), rho, c)
                        ez = ev(e, env, Top(2), rho, c)
                    except ZeroDivisionError:
                        continue
                    if not jeq(ez, ex * s + ey):
                        return {"kind": "not (conjugate-)linear in argument number %d" % number,
                                "argument_number": number, "complex_mode": complex_mode,
                                "scalar_a": repr(a_s), "expected_scaling": repr(s),
                                "component": list(c), "free_index_values": {str(k): v for k, v in rho.items()},
                                "value_at_a*x+y": repr(GQ.lift(ez.value())),
                                "s*value_at_x+value_at_y": repr(GQ.lift((ex * s + ey).value()))}
    return None
