"""C13 tie T1: translate __eq__/.equals, __repr__ and the hash method of UFL's terminal and form-level
classes into `spec` values of coq/Props/C13_spec.v, with Python's `ast` (fail closed).

The *effective* methods are taken from the imported classes of $UFL_REPO (inspect.getsource follows
the MRO and aliases such as `__eq__ = BaseArgument.__eq__`), parsed with `ast`, and walked with a
whitelist; anything outside the whitelist raises Untranslatable (reported as a broken tie)."""

import ast
import inspect
import textwrap

OWN = {"self": "Self", "other": "Other"}
VIEW_NAMES = {0: "value", 1: "id_or_none", 2: "sorted (key, id(value)) items", 3: "len", 4: "int",
              5: "zip-truncated elementwise"}
KIND_NAMES = {0: "repr", 1: "str", 2: "format_float", 3: "hash", 4: "_ufl_hash_data_()",
              5: "repr of insertion-ordered dict", 6: "value", 7: "items of canonically ordered dict",
              8: "join of element reprs", 9: "identity-dependent", 10: "pure function of value"}

# attributes that hold plain user dicts (Python dict ==: order-insensitive; repr: insertion order)
PLAIN_DICT_ATTRS = {("Integral", "_metadata"), ("Measure", "_metadata")}
# dict attributes whose constructor re-inserts the items in a canonical (sorted) order
CANONICAL_DICT_ATTRS = {("Integral", "_extra_domain_integral_type_map")}


class Untranslatable(Exception):
    pass


def fn_ast(fn):
    fn = getattr(fn, "__func__", fn)
    try:
        src = textwrap.dedent(inspect.getsource(fn))
    except (OSError, TypeError) as ex:
        raise Untranslatable(f"no source for {fn!r}: {ex}")
    node = ast.parse(src).body[0]
    if not isinstance(node, ast.FunctionDef):
        raise Untranslatable(f"{fn!r} is not a plain function")
    return node, getattr(fn, "__qualname__", str(fn))


def body_wo_doc(fnode):
    b = list(fnode.body)
    if b and isinstance(b[0], ast.Expr) and isinstance(b[0].value, ast.Constant) \
            and isinstance(b[0].value.value, str):
        b = b[1:]
    return b


def dump(n):
    try:
        return ast.unparse(n)
    except Exception:
        return ast.dump(n)


class ClassTr:
    """Translator state for one class."""

    def __init__(self, cls, eq_name="__eq__", hash_name=None):
        self.cls = cls
        self.name = cls.__name__
        self.fields = []          # attribute names, index = field number
        self.notes = []
        self.guards = []
        self.identity_shortcut = False
        self.scalar_branch = False
        self.eq_name = eq_name
        self.hash_name = hash_name
        self.sources = {}

    # ---- helpers -------------------------------------------------------------------------------
    def fnum(self, name):
        if name not in self.fields:
            self.fields.append(name)
        return self.fields.index(name)

    def init_assignment(self, attr):
        """Last `self.<attr> = <expr>` in the class's own __init__ / _init."""
        for m in ("__init__", "_init"):
            fn = getattr(self.cls, m, None)
            if fn is None:
                continue
            try:
                node, _ = fn_ast(fn)
            except Untranslatable:
                continue
            found = None
            for st in ast.walk(node):
                if isinstance(st, ast.Assign) and len(st.targets) == 1:
                    t = st.targets[0]
                    if isinstance(t, ast.Attribute) and isinstance(t.value, ast.Name) \
                            and t.value.id == "self" and t.attr == attr:
                        found = st.value
            if found is not None:
                return found
        return None

    def accessor_field(self, meth):
        """self.<meth>() with body `return self.<attr>` -> attr."""
        fn = getattr(self.cls, meth, None)
        if fn is None:
            raise Untranslatable(f"{self.name}: no method {meth}")
        if isinstance(fn, property):
            fn = fn.fget
        node, _ = fn_ast(fn)
        b = body_wo_doc(node)
        if len(b) == 1 and isinstance(b[0], ast.Return) and self.is_self_attr(b[0].value, ("self",)):
            return b[0].value.attr
        raise Untranslatable(f"{self.name}.{meth}() is not a plain accessor")

    @staticmethod
    def is_self_attr(n, owners=("self", "other")):
        return isinstance(n, ast.Attribute) and isinstance(n.value, ast.Name) and n.value.id in owners

    def is_own_class_ref(self, n):
        """Name of this class or one of its bases, `self._ufl_class_`, or a union of types."""
        if isinstance(n, ast.Name):
            names = {c.__name__ for c in self.cls.__mro__}
            return n.id in names
        if self.is_self_attr(n, ("self",)) and n.attr == "_ufl_class_":
            return True
        return False

    # ---- __eq__ --------------------------------------------------------------------------------
    def term(self, n, env):
        """-> ('attr', owner, field, view) | ('repr', owner) | ('hashdata', owner) | ('hash', owner)"""
        if self.is_self_attr(n):
            return ("attr", OWN[n.value.id], n.attr, 0)
        if isinstance(n, ast.Name) and n.id in env:
            return env[n.id]
        if isinstance(n, ast.Subscript) and self.is_self_attr(n.value) \
                and isinstance(n.slice, ast.Constant) and isinstance(n.slice.value, int):
            return ("attr", OWN[n.value.value.id], f"{n.value.attr}[{n.slice.value}]", 0)
        if isinstance(n, ast.Call) and isinstance(n.func, ast.Name) and len(n.args) == 1 and not n.keywords:
            f, a = n.func.id, n.args[0]
            if isinstance(a, ast.Name) and a.id in OWN:
                if f == "repr":
                    return ("repr", OWN[a.id])
                if f == "hash":
                    return ("hash", OWN[a.id])
                if f == "int":
                    node, _ = fn_ast(self.cls.__int__)
                    b = body_wo_doc(node)
                    if len(b) == 1 and isinstance(b[0], ast.Return) and self.is_self_attr(b[0].value, ("self",)):
                        return ("attr", OWN[a.id], b[0].value.attr, 0)
                    raise Untranslatable(f"{self.name}.__int__ is not a plain accessor")
            if self.is_self_attr(a):
                if f == "id_or_none":
                    return ("attr", OWN[a.value.id], a.attr, 1)
                if f == "len":
                    return ("attr", OWN[a.value.id], a.attr, 3)
        if isinstance(n, ast.Call) and isinstance(n.func, ast.Attribute) and not n.args and not n.keywords \
                and isinstance(n.func.value, ast.Name) and n.func.value.id in OWN:
            if n.func.attr == "_ufl_hash_data_":
                return ("hashdata", OWN[n.func.value.id])
        raise Untranslatable(f"{self.name}.{self.eq_name}: term not in whitelist: {dump(n)}")

    def sorted_id_items(self, n):
        """sorted((k, id(v)) for k, v in list(<owner>.<attr>.items())) -> (owner, attr)"""
        try:
            assert isinstance(n, ast.Call) and n.func.id == "sorted" and len(n.args) == 1
            g = n.args[0]
            assert isinstance(g, ast.GeneratorExp) and len(g.generators) == 1
            comp = g.generators[0]
            assert not comp.ifs
            kname, vname = [e.id for e in comp.target.elts]
            elt = g.elt
            assert isinstance(elt, ast.Tuple) and len(elt.elts) == 2
            assert isinstance(elt.elts[0], ast.Name) and elt.elts[0].id == kname
            c = elt.elts[1]
            assert isinstance(c, ast.Call) and c.func.id == "id" and c.args[0].id == vname
            it = comp.iter
            if isinstance(it, ast.Call) and isinstance(it.func, ast.Name) and it.func.id == "list":
                it = it.args[0]
            assert isinstance(it, ast.Call) and it.func.attr == "items" and self.is_self_attr(it.func.value)
            return OWN[it.func.value.value.id], it.func.value.attr
        except (AssertionError, AttributeError, ValueError, IndexError):
            return None

    def guard(self, n):
        """isinstance(other, X) / type(self) is type(other) / type(other) is X (positive form)."""
        if isinstance(n, ast.Call) and isinstance(n.func, ast.Name) and n.func.id == "isinstance" \
                and len(n.args) == 2 and isinstance(n.args[0], ast.Name) and n.args[0].id == "other":
            self.guards.append("isinstance(other, %s)" % dump(n.args[1]))
            return True
        if isinstance(n, ast.Compare) and len(n.ops) == 1 and isinstance(n.ops[0], ast.Is):
            l, r = n.left, n.comparators[0]

            def typeof(x, who):
                return isinstance(x, ast.Call) and isinstance(x.func, ast.Name) and x.func.id == "type" \
                    and len(x.args) == 1 and isinstance(x.args[0], ast.Name) and x.args[0].id == who
            if typeof(l, "self") and typeof(r, "other"):
                self.guards.append("type(self) is type(other)")
                return True
            if typeof(l, "other") and self.is_own_class_ref(r):
                self.guards.append("type(other) is %s" % dump(r))
                return True
        return False

    def negated_guard(self, n):
        if isinstance(n, ast.UnaryOp) and isinstance(n.op, ast.Not):
            return self.guard(n.operand)
        if isinstance(n, ast.Compare) and len(n.ops) == 1 and isinstance(n.ops[0], ast.IsNot):
            pos = ast.Compare(left=n.left, ops=[ast.Is()], comparators=n.comparators)
            return self.guard(pos)
        return False

    def conj_of_compare(self, l, r, env, out):
        a, b = self.term(l, env), self.term(r, env)
        if a[0] == "attr" and b[0] == "attr":
            out.append(("cmp", a[1], a[2], a[3], b[1], b[2], b[3]))
        elif a[0] == b[0] == "repr" and {a[1], b[1]} == {"Self", "Other"}:
            out.append(("crepr",))
        elif a[0] == b[0] == "hash" and {a[1], b[1]} == {"Self", "Other"}:
            out.append(("chash",))
        elif a[0] == b[0] == "hashdata" and {a[1], b[1]} == {"Self", "Other"}:
            # tuple equality is elementwise ==: one conjunct per component of _ufl_hash_data_()
            toks = self.hashdata_tokens()
            for t in toks:
                if t[0] != "tf":
                    raise Untranslatable(f"{self.name}: identity inside _ufl_hash_data_")
                out.append(("cmp", "Self", t[1], 0, "Other", t[1], 0))
            self.notes.append("__eq__ compares _ufl_hash_data_() tuples: elementwise == of the components")
        else:
            raise Untranslatable(f"{self.name}.{self.eq_name}: comparison not in whitelist: "
                                 f"{dump(l)} == {dump(r)}")

    def boolexpr(self, n, env, out):
        if isinstance(n, ast.BoolOp) and isinstance(n.op, ast.And):
            for v in n.values:
                self.boolexpr(v, env, out)
            return
        if self.guard(n):
            return
        if isinstance(n, ast.Compare) and len(n.ops) == 1 and isinstance(n.ops[0], ast.Eq):
            self.conj_of_compare(n.left, n.comparators[0], env, out)
            return
        # all(a == b for a, b in zip(self.F, other.F))
        if isinstance(n, ast.Call) and isinstance(n.func, ast.Name) and n.func.id == "all" and len(n.args) == 1 \
                and isinstance(n.args[0], ast.GeneratorExp):
            g = n.args[0]
            comp = g.generators[0]
            ok = (len(g.generators) == 1 and not comp.ifs and isinstance(comp.target, ast.Tuple)
                  and len(comp.target.elts) == 2 and isinstance(comp.iter, ast.Call)
                  and isinstance(comp.iter.func, ast.Name) and comp.iter.func.id == "zip"
                  and len(comp.iter.args) == 2 and all(self.is_self_attr(a) for a in comp.iter.args)
                  and isinstance(g.elt, ast.Compare) and len(g.elt.ops) == 1
                  and isinstance(g.elt.ops[0], ast.Eq))
            if ok:
                an, bn = [e.id for e in comp.target.elts]
                e = g.elt
                if isinstance(e.left, ast.Name) and isinstance(e.comparators[0], ast.Name) \
                        and {e.left.id, e.comparators[0].id} == {an, bn}:
                    x, y = comp.iter.args
                    out.append(("zipall", OWN[x.value.id], x.attr, OWN[y.value.id], y.attr))
                    return
        raise Untranslatable(f"{self.name}.{self.eq_name}: boolean expression not in whitelist: {dump(n)}")

    def eq_stmts(self, stmts, env, out):
        """Statements of an __eq__ body; appends conjuncts; returns when a `return` is reached."""
        for i, st in enumerate(stmts):
            if isinstance(st, ast.Return):
                self.boolexpr(st.value, env, out)
                if i != len(stmts) - 1:
                    raise Untranslatable(f"{self.name}.{self.eq_name}: code after return")
                return
            if isinstance(st, ast.Assign) and len(st.targets) == 1 and isinstance(st.targets[0], ast.Name):
                v = self.sorted_id_items(st.value)
                if v is None:
                    raise Untranslatable(f"{self.name}.{self.eq_name}: assignment not in whitelist: {dump(st)}")
                env[st.targets[0].id] = ("attr", v[0], v[1], 2)
                continue
            if isinstance(st, ast.If):
                ret_false = (len(st.body) == 1 and isinstance(st.body[0], ast.Return)
                             and isinstance(st.body[0].value, ast.Constant) and st.body[0].value.value is False)
                ret_true = (len(st.body) == 1 and isinstance(st.body[0], ast.Return)
                            and isinstance(st.body[0].value, ast.Constant) and st.body[0].value.value is True)
                t = st.test
                if ret_false and not st.orelse:
                    if self.negated_guard(t):
                        continue
                    if isinstance(t, ast.Compare) and len(t.ops) == 1 and isinstance(t.ops[0], ast.NotEq):
                        self.conj_of_compare(t.left, t.comparators[0], env, out)
                        continue
                if ret_true and not st.orelse and isinstance(t, ast.Compare) and len(t.ops) == 1 \
                        and isinstance(t.ops[0], ast.Is) and isinstance(t.left, ast.Name) \
                        and t.left.id == "self" and isinstance(t.comparators[0], ast.Name) \
                        and t.comparators[0].id == "other":
                    self.identity_shortcut = True
                    continue
                # if isinstance(other, <own class>): <body>  elif isinstance(other, int | float): ... else: False
                if isinstance(t, ast.Call) and isinstance(t.func, ast.Name) and t.func.id == "isinstance" \
                        and isinstance(t.args[0], ast.Name) and t.args[0].id == "other" \
                        and self.is_own_class_ref(t.args[1]) and i == len(stmts) - 1:
                    self.guards.append("isinstance(other, %s)" % dump(t.args[1]))
                    self.eq_stmts(st.body, env, out)
                    self.check_foreign_branches(st.orelse)
                    return
            raise Untranslatable(f"{self.name}.{self.eq_name}: statement not in whitelist: {dump(st)[:200]}")
        raise Untranslatable(f"{self.name}.{self.eq_name}: falls off the end")

    def check_foreign_branches(self, orelse):
        """Branches for `other` not of this class: python scalars, or `return False`."""
        for st in orelse:
            if isinstance(st, ast.Return):
                continue
            if isinstance(st, ast.If):
                t = st.test
                if isinstance(t, ast.Call) and isinstance(t.func, ast.Name) and t.func.id == "isinstance" \
                        and isinstance(t.args[0], ast.Name) and t.args[0].id == "other":
                    self.scalar_branch = True
                    self.notes.append("comparison with %s handled by a separate branch (outside the model: "
                                      "python scalars are not UFL expressions)" % dump(t.args[1]))
                    for b in st.body:
                        if not isinstance(b, ast.Return):
                            raise Untranslatable(f"{self.name}.{self.eq_name}: foreign branch not a return")
                    self.check_foreign_branches(st.orelse)
                    continue
            raise Untranslatable(f"{self.name}.{self.eq_name}: else-branch not in whitelist")

    def translate_eq(self):
        node, qn = fn_ast(getattr(self.cls, self.eq_name))
        self.sources["eq"] = qn
        raw = []
        self.eq_stmts(body_wo_doc(node), {}, raw)
        conjs = []
        lens = {(c[2]) for c in raw if c[0] == "cmp" and c[3] == 3 and c[6] == 3 and c[2] == c[5]}
        for c in raw:
            if c[0] == "cmp":
                conjs.append(("cmp", c[1], self.fnum(c[2]), c[3], c[4], self.fnum(c[5]), c[6]))
            elif c[0] == "zipall":
                v = 0 if (c[2] in lens and c[2] == c[4]) else 5
                if v == 5:
                    self.notes.append("zip() truncates: lengths are not compared")
                conjs.append(("cmp", c[1], self.fnum(c[2]), v, c[3], self.fnum(c[4]), v))
            else:
                conjs.append(c)
        return conjs

    # ---- reads of __repr__ / hash ----------------------------------------------------------------
    def dict_kind(self, attr, default):
        if (self.name, attr) in PLAIN_DICT_ATTRS and default in (0, 1):
            return 5
        if (self.name, attr) in CANONICAL_DICT_ATTRS and default in (0, 1):
            return 7
        return default

    def is_canonicaliser(self, fname):
        """True iff `fname` is a function of the class's module whose source is, recognisably, "rebuild every
        dict with its keys in sorted order, recursing into dict values / lists / tuples, and return everything
        else unchanged" (fail closed: any other statement or return form -> False)."""
        import sys
        fn = vars(sys.modules[self.cls.__module__]).get(fname)
        if not inspect.isfunction(fn):
            return False
        try:
            node, _ = fn_ast(fn)
        except Untranslatable:
            return False
        if len(node.args.args) != 1:
            return False
        p = node.args.args[0].arg
        keyvars = set()

        def sorted_keys(v):
            return (isinstance(v, ast.Call) and isinstance(v.func, ast.Name) and v.func.id == "sorted"
                    and len(v.args) == 1 and isinstance(v.args[0], ast.Name) and v.args[0].id == p
                    and all(k.arg == "key" and isinstance(k.value, ast.Name) and k.value.id in ("repr", "str")
                            for k in v.keywords))

        def rec_or_elem(v, var):
            """helper(<elem>) or <elem>, elem = p[var] / var"""
            if isinstance(v, ast.Call) and isinstance(v.func, ast.Name) and v.func.id == fname and len(v.args) == 1:
                v = v.args[0]
            if isinstance(v, ast.Name) and v.id == var:
                return True
            return (isinstance(v, ast.Subscript) and isinstance(v.value, ast.Name) and v.value.id == p
                    and isinstance(v.slice, ast.Name) and v.slice.id == var)

        def ok_return(v):
            if isinstance(v, ast.Name) and v.id == p:
                return True
            if isinstance(v, ast.DictComp) and len(v.generators) == 1 and not v.generators[0].ifs:
                g = v.generators[0]
                return (isinstance(g.target, ast.Name) and isinstance(g.iter, ast.Name) and g.iter.id in keyvars
                        and isinstance(v.key, ast.Name) and v.key.id == g.target.id and rec_or_elem(v.value, g.target.id))
            # type(p)(helper(x) for x in p) / [helper(x) for x in p] / tuple(helper(x) for x in p)
            inner = v
            if isinstance(v, ast.Call) and len(v.args) == 1 and not v.keywords:
                f = v.func
                if (isinstance(f, ast.Name) and f.id in ("list", "tuple")) or (
                        isinstance(f, ast.Call) and isinstance(f.func, ast.Name) and f.func.id == "type"
                        and isinstance(f.args[0], ast.Name) and f.args[0].id == p):
                    inner = v.args[0]
            if isinstance(inner, (ast.GeneratorExp, ast.ListComp)) and len(inner.generators) == 1 \
                    and not inner.generators[0].ifs:
                g = inner.generators[0]
                return (isinstance(g.target, ast.Name) and isinstance(g.iter, ast.Name) and g.iter.id == p
                        and rec_or_elem(inner.elt, g.target.id))
            return False

        def ok_stmts(stmts):
            for st in stmts:
                if isinstance(st, ast.Expr) and isinstance(st.value, ast.Constant):
                    continue
                if isinstance(st, ast.Return):
                    if not ok_return(st.value):
                        return False
                elif isinstance(st, ast.Assign) and len(st.targets) == 1 and isinstance(st.targets[0], ast.Name) \
                        and sorted_keys(st.value):
                    keyvars.add(st.targets[0].id)
                elif isinstance(st, ast.Try):
                    if st.orelse or st.finalbody or not ok_stmts(st.body):
                        return False
                    for h in st.handlers:
                        if not ok_stmts(h.body):
                            return False
                elif isinstance(st, ast.If):
                    t = st.test
                    typetest = (isinstance(t, ast.Call) and isinstance(t.func, ast.Name) and t.func.id == "isinstance"
                                and isinstance(t.args[0], ast.Name) and t.args[0].id == p) or \
                               (isinstance(t, ast.Compare) and isinstance(t.left, ast.Call)
                                and isinstance(t.left.func, ast.Name) and t.left.func.id == "type")
                    if not typetest or not ok_stmts(st.body) or not ok_stmts(st.orelse):
                        return False
                else:
                    return False
            return True
        good = ok_stmts(node.body)
        # there must be a dict branch that sorts
        return bool(good and keyvars)

    def read_field(self, n):
        """self.<attr> | self.<accessor>() -> attr name, else None"""
        if self.is_self_attr(n, ("self",)):
            return n.attr
        if isinstance(n, ast.Call) and not n.args and not n.keywords and self.is_self_attr(n.func, ("self",)):
            return self.accessor_field(n.func.attr)
        return None

    def reads(self, n, env, kind, out, what, loopvars=None):
        """Collect (token) reads of expression n rendered with `kind` (the innermost rendering)."""
        loopvars = loopvars or {}
        if n is None or isinstance(n, ast.Constant):
            return
        if isinstance(n, ast.Name):
            if n.id == "self":
                if kind == 9:
                    out.append(("selfid",))
                    return
                raise Untranslatable(f"{self.name}.{what}: bare self")
            if n.id in loopvars:
                fld, items = loopvars[n.id]
                k = kind
                if k == 6 and items:
                    k = 7 if (self.name, fld) in CANONICAL_DICT_ATTRS else 5
                elif items and k != 9:
                    k = 7 if (self.name, fld) in CANONICAL_DICT_ATTRS else 5
                out.append(("tf", fld, k))
                return
            if n.id in env:
                for t in env[n.id]:
                    out.append(t)
                return
            raise Untranslatable(f"{self.name}.{what}: name not in whitelist: {n.id}")
        f = self.read_field(n)
        if f is not None:
            if f in ("_ufl_typecode_", "_ufl_class_", "_ufl_handler_name_"):
                return          # class constants
            out.append(("tf", f, self.dict_kind(f, kind)))
            return
        if isinstance(n, ast.IfExp):
            # <a> if <cond> else <b>: the condition is a pure function of attribute values (kind 10)
            cond = []
            self.cond_reads(n.test, env, cond, what)
            out.extend(cond)
            self.reads(n.body, env, kind, out, what, loopvars)
            self.reads(n.orelse, env, kind, out, what, loopvars)
            return
        if isinstance(n, ast.Call) and isinstance(n.func, ast.Name) and len(n.args) == 1 and not n.keywords \
                and self.is_canonicaliser(n.func.id):
            # a module-level helper that rebuilds dicts with sorted keys: the rendering of its result is the
            # canonical-order rendering (kind 7) of the attribute
            f2 = self.read_field(n.args[0])
            if f2 is None:
                raise Untranslatable(f"{self.name}.{what}: canonicaliser applied to {dump(n.args[0])}")
            out.append(("tf", f2, 7))
            self.notes.append(f"{what}: {f2} is printed through {n.func.id}() (dict keys in sorted order)")
            return
        if isinstance(n, ast.JoinedStr):
            for v in n.values:
                if isinstance(v, ast.FormattedValue):
                    if v.format_spec is not None:
                        raise Untranslatable(f"{self.name}.{what}: format spec")
                    k = 0 if v.conversion == 114 else 1
                    self.reads(v.value, env, k, out, what, loopvars)
            return
        if isinstance(n, (ast.Tuple, ast.List)):
            for e in n.elts:
                self.reads(e, env, kind, out, what, loopvars)
            return
        if isinstance(n, ast.Starred):
            self.reads(n.value, env, kind, out, what, loopvars)
            return
        if isinstance(n, ast.BinOp) and isinstance(n.op, ast.Add):
            self.reads(n.left, env, kind, out, what, loopvars)
            self.reads(n.right, env, kind, out, what, loopvars)
            return
        if isinstance(n, ast.Attribute) and n.attr in ("__name__", "name"):
            # type(self).__name__, self._ufl_class_.__name__ : class constants
            v = n.value
            if (isinstance(v, ast.Call) and isinstance(v.func, ast.Name) and v.func.id == "type"
                    and isinstance(v.args[0], ast.Name) and v.args[0].id == "self") \
                    or (self.is_self_attr(v, ("self",)) and v.attr == "_ufl_class_"):
                return
        if isinstance(n, ast.Subscript) and isinstance(n.value, ast.Name) \
                and n.value.id in ("integral_type_to_measure_name",):
            self.reads(n.slice, env, 10, out, what, loopvars)
            return
        if isinstance(n, (ast.GeneratorExp, ast.ListComp)):
            if len(n.generators) != 1 or n.generators[0].ifs:
                raise Untranslatable(f"{self.name}.{what}: comprehension")
            comp = n.generators[0]
            it = comp.iter
            if isinstance(it, ast.Call) and isinstance(it.func, ast.Name) and it.func.id == "list":
                it = it.args[0]
            items = False
            if isinstance(it, ast.Call) and isinstance(it.func, ast.Attribute) and it.func.attr == "items" \
                    and not it.args:
                items = True
                it = it.func.value
            fld = self.read_field(it)
            if fld is None:
                raise Untranslatable(f"{self.name}.{what}: comprehension over {dump(comp.iter)}")
            lv = dict(loopvars)
            tg = comp.target
            names = [tg.id] if isinstance(tg, ast.Name) else [e.id for e in tg.elts]
            for nm in names:
                lv[nm] = (fld, items)
            self.reads(n.elt, env, 6 if kind in (0, 1, 6) and not isinstance(n.elt, ast.Name) else kind,
                       out, what, lv)
            return
        if isinstance(n, ast.Call):
            fn = n.func
            if isinstance(fn, ast.Name) and not n.keywords:
                if fn.id in ("hash", "repr", "str", "format_float", "id", "id_or_none") and len(n.args) == 1:
                    k = {"hash": 3, "repr": 0, "str": 1, "format_float": 2, "id": 9, "id_or_none": 9}[fn.id]
                    a = n.args[0]
                    if fn.id in ("repr", "hash") and isinstance(a, ast.Name) and a.id == "self":
                        raise Untranslatable(f"{self.name}.{what}: {fn.id}(self) nested")
                    self.reads(a, env, k, out, what, loopvars)
                    return
                if fn.id in ("tuple", "sorted", "list") and len(n.args) == 1:
                    self.reads(n.args[0], env, kind, out, what, loopvars)
                    return
                if fn.id == "map" and len(n.args) == 2 and isinstance(n.args[0], ast.Name) \
                        and n.args[0].id in ("hash", "repr", "str"):
                    k = {"hash": 3, "repr": 8, "str": 1}[n.args[0].id]
                    self.reads(n.args[1], env, k, out, what, loopvars)
                    return
                if fn.id == "type" and len(n.args) == 1 and isinstance(n.args[0], ast.Name) \
                        and n.args[0].id == "self":
                    return
            if isinstance(fn, ast.Attribute):
                # "<const>".join(x) / "<const>".format(a, b)
                if isinstance(fn.value, ast.Constant) and isinstance(fn.value.value, str) \
                        and fn.attr in ("join", "format") and not n.keywords:
                    for a in n.args:
                        self.reads(a, env, 1 if kind == 6 else kind, out, what, loopvars)
                    return
                # self.<attr>._ufl_hash_data_()
                if fn.attr == "_ufl_hash_data_" and not n.args:
                    f2 = self.read_field(fn.value)
                    if f2 is not None:
                        out.append(("tf", f2, 4))
                        return
                    if isinstance(fn.value, ast.Name) and fn.value.id in env:
                        for t in env[fn.value.id]:
                            out.append(("tf", t[1], 4) if t[0] == "tf" else t)
                        return
                # Base._ufl_hash_data_(self, "Name")
                if fn.attr == "_ufl_hash_data_" and isinstance(fn.value, ast.Name) and n.args \
                        and isinstance(n.args[0], ast.Name) and n.args[0].id == "self":
                    base = [c for c in self.cls.__mro__ if c.__name__ == fn.value.id]
                    if base:
                        node, _ = fn_ast(base[0]._ufl_hash_data_)
                        out.extend(self.fn_reads(node, what + "->" + fn.value.id, kind))
                        return
        raise Untranslatable(f"{self.name}.{what}: expression not in whitelist: {dump(n)[:160]}")

    def fn_reads(self, node, what, kind0):
        """Reads of a whole function body (straight-line code with simple ifs)."""
        env, out = {}, []
        params = {a.arg for a in node.args.args} - {"self"}
        for p in params:
            env[p] = []      # other parameters are class constants at the call sites we follow
        cache_attr = None

        def stmts(ss, depth=0):
            nonlocal cache_attr
            for st in ss:
                if isinstance(st, ast.Return):
                    v = st.value
                    if self.is_self_attr(v, ("self",)) and v.attr == cache_attr:
                        continue
                    if self.is_self_attr(v, ("self",)) and v.attr in ("_repr", "_hash") \
                            and self.init_assignment(v.attr) is not None:
                        iv = self.init_assignment(v.attr)
                        self.notes.append(f"{what}: returns self.{v.attr}, assigned in __init__/_init")
                        self.reads(iv, env, kind0, out, what)
                        continue
                    self.reads(v, env, kind0, out, what)
                elif isinstance(st, ast.Assign) and len(st.targets) == 1 and isinstance(st.targets[0], ast.Name):
                    tmp = []
                    v = st.value
                    if isinstance(v, ast.BoolOp) and isinstance(v.op, ast.Or) and all(
                            isinstance(x, ast.Constant) or (isinstance(x, ast.Name) and x.id in params)
                            for x in v.values):
                        pass    # `name = name or "Default"`: class constant
                    else:
                        self.reads(v, env, kind0, tmp, what)
                    nm = st.targets[0].id
                    # inside an if-branch the other branch may assign the same name: keep both
                    env[nm] = (env.get(nm, []) + tmp) if depth > 0 else tmp
                elif isinstance(st, ast.Expr) and isinstance(st.value, ast.Call) \
                        and isinstance(st.value.func, ast.Attribute) and st.value.func.attr == "append" \
                        and isinstance(st.value.func.value, ast.Name) and st.value.func.value.id in env:
                    tmp = []
                    self.reads(st.value.args[0], env, kind0, tmp, what)
                    env[st.value.func.value.id] = env[st.value.func.value.id] + tmp
                elif isinstance(st, ast.If):
                    t = st.test
                    # if self._hash is None: self._hash = E   (cache)
                    if isinstance(t, ast.Compare) and isinstance(t.ops[0], ast.Is) \
                            and self.is_self_attr(t.left, ("self",)) and len(st.body) == 1 \
                            and isinstance(st.body[0], ast.Assign) \
                            and self.is_self_attr(st.body[0].targets[0], ("self",)) \
                            and st.body[0].targets[0].attr == t.left.attr and not st.orelse:
                        cache_attr = t.left.attr
                        self.notes.append(f"{what}: value cached in self.{cache_attr}")
                        self.reads(st.body[0].value, env, kind0, out, what)
                        continue
                    # condition: a pure function of attribute values / locals
                    cond = []
                    self.cond_reads(t, env, cond, what)
                    # reads in the condition are renderings too (truthiness): kind 10
                    for c in cond:
                        out.append(c)
                    stmts(st.body, depth + 1)
                    stmts(st.orelse, depth + 1)
                else:
                    raise Untranslatable(f"{self.name}.{what}: statement not in whitelist: {dump(st)[:160]}")
        stmts(body_wo_doc(node))
        return out

    def cond_reads(self, t, env, out, what):
        if isinstance(t, ast.Compare) and len(t.ops) == 1 and isinstance(t.ops[0], (ast.Is, ast.IsNot)) \
                and isinstance(t.comparators[0], ast.Constant):
            return self.cond_reads(t.left, env, out, what)
        if isinstance(t, ast.Name) and t.id in env:
            for x in env[t.id]:
                out.append(("tf", x[1], 10) if x[0] == "tf" else x)
            return
        f = self.read_field(t)
        if f is not None:
            out.append(("tf", f, 10))
            return
        raise Untranslatable(f"{self.name}.{what}: condition not in whitelist: {dump(t)}")

    def hashdata_tokens(self):
        node, _ = fn_ast(self.cls._ufl_hash_data_)
        toks = self.fn_reads(node, "_ufl_hash_data_", 6)
        res = []
        for t in toks:
            if t[0] == "tf":
                # nested hash data of a component stands for the component itself
                res.append(("tf", t[1], 6))
            else:
                res.append(t)
        # dedupe keeping order
        seen, out = set(), []
        for t in res:
            if t not in seen:
                seen.add(t)
                out.append(t)
        return out

    def translate_repr(self):
        node, qn = fn_ast(self.cls.__repr__)
        self.sources["repr"] = qn
        return self.fn_reads(node, "__repr__", 0)

    def translate_hash(self):
        hn = self.hash_name
        fn = getattr(self.cls, hn)
        node, qn = fn_ast(fn)
        self.sources["hash"] = qn
        b = body_wo_doc(node)
        # return hash(repr(self))
        if len(b) == 1 and isinstance(b[0], ast.Return):
            v = b[0].value
            if isinstance(v, ast.Call) and isinstance(v.func, ast.Name) and v.func.id == "hash" and len(v.args) == 1:
                a = v.args[0]
                if isinstance(a, ast.Call) and isinstance(a.func, ast.Name) and a.func.id == "repr" \
                        and isinstance(a.args[0], ast.Name) and a.args[0].id == "self":
                    return "ofrepr"
                if isinstance(a, ast.JoinedStr) and len(a.values) == 1 \
                        and isinstance(a.values[0], ast.FormattedValue) \
                        and isinstance(a.values[0].value, ast.Name) and a.values[0].value.id == "self" \
                        and a.values[0].conversion == 114:
                    return "ofrepr"
                # return hash(self._ufl_hash_data_())
                if isinstance(a, ast.Call) and isinstance(a.func, ast.Attribute) \
                        and a.func.attr == "_ufl_hash_data_" and isinstance(a.func.value, ast.Name) \
                        and a.func.value.id == "self":
                    return self.hashdata_tokens()
        return self.fn_reads(node, hn, 6)

    def operand_count(self):
        """Number of operands an Operator subclass stores: Operator.__init__(self, (a, b, ...)) in __init__."""
        node, _ = fn_ast(self.cls.__init__)
        for c in ast.walk(node):
            if isinstance(c, ast.Call) and isinstance(c.func, ast.Attribute) and c.func.attr == "__init__" \
                    and isinstance(c.func.value, ast.Name) and c.func.value.id == "Operator" and len(c.args) == 2 \
                    and isinstance(c.args[1], ast.Tuple):
                return len(c.args[1].elts)
        raise Untranslatable(f"{self.name}: cannot determine the number of operands")

    def expand_operands(self, toks):
        """A read of the whole operand tuple is a read of every operand (when == compares them one by one)."""
        if toks == "ofrepr" or not any(f.startswith("ufl_operands[") for f in self.fields):
            return toks
        n = self.operand_count()
        out = []
        for t in toks:
            if t[0] == "tf" and t[1] == "ufl_operands":
                out += [("tf", f"ufl_operands[{i}]", t[2]) for i in range(n)]
            else:
                out.append(t)
        return out

    def translate_newargs(self):
        """Attributes returned by __getnewargs__, for classes whose own __new__ can hand out a shared / cached
        instance (pickle then writes the pickled state into whatever __new__(cls, *newargs) returned, so the
        newargs must determine the whole state).  None: not applicable."""
        owner_new = next((c for c in self.cls.__mro__ if "__new__" in c.__dict__), object)
        if owner_new is object or owner_new.__name__ in ("Expr", "Operator", "Terminal"):
            return None
        gn = getattr(self.cls, "__getnewargs__", None)
        if gn is None:
            return None
        node, qn = fn_ast(gn)
        self.sources["getnewargs"] = qn
        b = body_wo_doc(node)
        if len(b) != 1 or not isinstance(b[0], ast.Return):
            raise Untranslatable(f"{self.name}.__getnewargs__: not a single return")
        v = b[0].value
        elts = v.elts if isinstance(v, ast.Tuple) else [v]
        out = []
        for e_ in elts:
            f = self.read_field(e_)
            if f is None:
                raise Untranslatable(f"{self.name}.__getnewargs__: element not an attribute: {dump(e_)}")
            out.append(f)
        return out

    def literal_normalisation(self):
        """For literal classes: the builtin type the constructor converts the stored value to
        (`super().__init__(int(value))`), which is what makes `==` on values imply equal rendering."""
        for m in ("_init", "__init__"):
            fn = self.cls.__dict__.get(m)
            if fn is None:
                continue
            node, _ = fn_ast(fn)
            for c in ast.walk(node):
                if isinstance(c, ast.Call) and isinstance(c.func, ast.Attribute) and c.func.attr == "__init__" and c.args:
                    a = c.args[-1]
                    if isinstance(a, ast.Call) and isinstance(a.func, ast.Name) and a.func.id in ("int", "float", "complex") \
                            and len(a.args) == 1 and isinstance(a.args[0], ast.Name):
                        return a.func.id
                    if isinstance(a, ast.Name):
                        return None
        return None

    def translate(self):
        eqs = self.translate_eq()
        rep = self.expand_operands(self.translate_repr())
        hsh = self.expand_operands(self.translate_hash())

        def num(toks):
            res, seen = [], set()
            for t in toks:
                tt = ("tf", self.fnum(t[1]), t[2]) if t[0] == "tf" else t
                if tt not in seen:
                    seen.add(tt)
                    res.append(tt)
            return res
        rep = num(rep)
        hsh = hsh if hsh == "ofrepr" else num(hsh)
        na = self.translate_newargs()
        if na is not None and any(f.startswith("ufl_operands[") for f in self.fields) and na == ["ufl_operands"]:
            na = [f for f in self.fields if f.startswith("ufl_operands[")]
        sp = Spec(self.name, list(self.fields), eqs, rep, hsh, self)
        sp.newargs = None if na is None else [self.fnum(f) for f in na]
        sp.fields = list(self.fields)
        return sp


# ------------------------------------------------------------------------------------------------
# python mirror of the Coq definitions (used to choose which lemma to emit and by the harness)

def kind_faithful(k):
    return k not in (5, 9)


def faithful(v, k):
    return kind_faithful(k) if v == 0 else v in (1, 2)


class Spec:
    def __init__(self, name, fields, eqs, rep, hsh, tr):
        self.name, self.fields, self.eqs, self.rep, self.hsh, self.tr = name, fields, eqs, rep, hsh, tr

    @staticmethod
    def proper(c):
        return c[0] != "cmp" or ({c[1], c[4]} == {"Self", "Other"} and c[2] == c[5] and c[3] == c[6])

    @staticmethod
    def trivial(c):
        return c[0] == "cmp" and c[1] == c[4] and c[2] == c[5] and c[3] == c[6]

    def covered(self, t):
        if t[0] != "tf":
            return False
        return any(c[0] == "cmp" and {c[1], c[4]} == {"Self", "Other"} and c[2] == c[5] == t[1]
                   and c[3] == c[6] and faithful(c[3], t[2]) for c in self.eqs)

    def wf(self):
        if not all(self.proper(c) for c in self.eqs):
            return False
        if not (any(c[0] == "crepr" for c in self.eqs) or all(self.covered(t) for t in self.rep)):
            return False
        if self.hsh == "ofrepr":
            return True
        return any(c[0] == "chash" for c in self.eqs) or all(self.covered(t) for t in self.hsh)

    def partial_ok(self):
        return all(self.proper(c) or self.trivial(c) for c in self.eqs)

    def newargs_cover(self):
        """mirror of Coq's newargs_cover; True when not applicable"""
        if getattr(self, "newargs", None) is None:
            return True
        na = set(self.newargs)
        toks = list(self.rep) + ([] if self.hsh == "ofrepr" else list(self.hsh))
        if any(t[0] != "tf" or t[1] not in na for t in toks):
            return False
        return all(c[0] != "cmp" or (c[2] in na and c[5] in na) for c in self.eqs)

    def rep_fields(self):
        return sorted({t[1] for t in self.rep if t[0] == "tf"})

    def repr_roundtrip_cover(self):
        """Everything == and the hash read is printed by repr (so an object rebuilt from its repr can be ==)."""
        na = set(self.rep_fields())
        toks = [] if self.hsh == "ofrepr" else list(self.hsh)
        if any(t[0] != "tf" or t[1] not in na for t in toks):
            return False
        return all(c[0] != "cmp" or (c[2] in na and c[5] in na) for c in self.eqs)

    def repr_omitted_fields(self):
        na = set(self.rep_fields())
        out = set()
        for c in self.eqs:
            if c[0] == "cmp":
                out |= {c[2], c[5]} - na
        if self.hsh != "ofrepr":
            out |= {t[1] for t in self.hsh if t[0] == "tf"} - na
        return sorted(out)

    def uncovered(self):
        """Tokens of repr / hash data that == does not determine: [(where, token)]"""
        res = []
        if not any(c[0] == "crepr" for c in self.eqs):
            res += [("repr", t) for t in self.rep if not self.covered(t)]
        if self.hsh != "ofrepr" and not any(c[0] == "chash" for c in self.eqs):
            res += [("hash", t) for t in self.hsh if not self.covered(t)]
        return res

    def improper(self):
        return [c for c in self.eqs if not self.proper(c)]

    # ---- Gallina -------------------------------------------------------------------------------
    def conj_coq(self, c):
        if c[0] == "cmp":
            return f"Cmp {c[1]} {c[2]} {c[3]} {c[4]} {c[5]} {c[6]}"
        return {"crepr": "CRepr", "chash": "CHash"}[c[0]]

    @staticmethod
    def tok_coq(t):
        return f"TF {t[1]} {t[2]}" if t[0] == "tf" else "TSelfId"

    def to_coq(self):
        eqs = "; ".join(self.conj_coq(c) for c in self.eqs)
        rep = "; ".join(self.tok_coq(t) for t in self.rep)
        hsh = "HOfRepr" if self.hsh == "ofrepr" else "HToks [" + "; ".join(self.tok_coq(t) for t in self.hsh) + "]"
        return f"{{| eqs := [{eqs}]; rep := [{rep}]; hsh := {hsh} |}}"

    def describe(self):
        def cj(c):
            if c[0] != "cmp":
                return {"crepr": "repr(self) == repr(other)", "chash": "hash(self) == hash(other)"}[c[0]]
            def side(o, f, v):
                s = f"{o.lower()}.{self.fields[f]}"
                return s if v == 0 else f"{VIEW_NAMES.get(v, v)}({s})"
            return f"{side(c[1], c[2], c[3])} == {side(c[4], c[5], c[6])}"

        def tk(t):
            return f"{KIND_NAMES.get(t[2], t[2])}({self.fields[t[1]]})" if t[0] == "tf" else "id(self)"
        return {"class": self.name, "fields": self.fields, "eq": [cj(c) for c in self.eqs],
                "repr_reads": [tk(t) for t in self.rep],
                "hash_reads": "hash(repr(self))" if self.hsh == "ofrepr" else [tk(t) for t in self.hsh],
                "sources": self.tr.sources, "guards": sorted(set(self.tr.guards)),
                "identity_shortcut": self.tr.identity_shortcut, "notes": self.tr.notes}

    def refutation_witness(self):
        """Objects of the counter-model (Props/C13_spec.v): attribute f of b gets a different ==-class
        (if no faithful conjunct reads it) or a different presentation (if compared but the rendering is
        not a function of the ==-class).  Returns (gallina a, gallina b, description) or None."""
        unc = self.uncovered()
        if not unc:
            return None
        where, t = unc[0]
        if t[0] != "tf":
            return ("(0, fun _ => (0, 0))", "(1, fun _ => (0, 0))", {"where": where, "token": "id(self)"})
        f = t[1]
        compared = any(c[0] == "cmp" and self.proper(c) and c[2] == f and c[3] == 0 for c in self.eqs)
        val = "(0, 1)" if compared else "(1, 0)"
        b = f"(0, fun f => if Nat.eqb f {f} then {val} else (0, 0))"
        return ("(0, fun _ => (0, 0))", b,
                {"where": where, "field": self.fields[f], "rendering": KIND_NAMES.get(t[2], t[2]),
                 "compared_by_eq": compared})


def translate_class(cls, eq_name="__eq__", hash_name=None):
    return ClassTr(cls, eq_name, hash_name).translate()


def float_format_precision():
    """The module-level default `precision` of ufl.constantvalue and a check that format_float has the
    expected shape (precision falsy -> f"{float(x)}", the shortest round-tripping repr).  -> (value, ok, note)"""
    import ufl.constantvalue as cv
    tree = ast.parse(inspect.getsource(cv))
    val, found = None, False
    for st in tree.body:
        if isinstance(st, ast.Assign) and len(st.targets) == 1 and isinstance(st.targets[0], ast.Name) \
                and st.targets[0].id == "precision":
            if not isinstance(st.value, ast.Constant):
                raise Untranslatable("constantvalue.precision is not a literal")
            val, found = st.value.value, True
    if not found:
        raise Untranslatable("constantvalue.precision not found")
    node, _ = fn_ast(cv.format_float)
    b = body_wo_doc(node)
    ok = (len(b) == 1 and isinstance(b[0], ast.If) and isinstance(b[0].test, ast.Name) and b[0].test.id == "precision"
          and len(b[0].orelse) == 1 and isinstance(b[0].orelse[0], ast.Return)
          and ast.unparse(b[0].orelse[0].value) in ("f'{float(x)}'", "repr(float(x))", "f'{float(x)!r}'"))
    if not ok:
        raise Untranslatable("format_float does not have the expected shape: " + ast.unparse(node)[:200])
    return val
