"""Shared machinery of the C19/C20 checks: class table introspection (T1), AST shape checks of the
handler-resolution loops, random expression DAGs with sharing, expression -> Coq `tree`."""

import ast
import importlib
import inspect
import os
import pkgutil
import random

import ufl
from ufl.core.expr import Expr
from ufl.core.ufl_type import UFLType

import uflgen
import vlib

DEFAULT = "ufl_type"


# ------------------------------------------------------------------------------------------------
# class table (T1 by introspection of the live classes)

def mro_names(cls):
    """Handler names along the mro exactly as the resolution loops read them."""
    out = []
    for c in cls.mro():
        try:
            n = c._ufl_handler_name_
        except AttributeError:
            n = UFLType._ufl_handler_name_
        out.append(n)
    return out


def class_table():
    classes = list(Expr._ufl_all_classes_)
    names = sorted({n for c in classes for n in mro_names(c)} - {DEFAULT})
    name_id = {DEFAULT: 0}
    for n in names:
        name_id[n] = len(name_id)
    rows = []
    for c in classes:
        parent = None
        for b in c.mro()[1:]:
            if "_ufl_typecode_" in b.__dict__:
                parent = b._ufl_typecode_
                break
        rows.append({
            "cls": c, "tc": c._ufl_typecode_, "name": c._ufl_handler_name_, "parent": parent,
            "mro": mro_names(c), "abstract": bool(getattr(c, "_ufl_is_abstract_", False)),
            "terminal": bool(getattr(c, "_ufl_is_terminal_", False)),
        })
    return rows, name_id


def coq_list(xs):
    return "[" + "; ".join(str(x) for x in xs) + "]"


def coq_opt(x):
    return "None" if x is None else f"(Some {x})"


def emit_class_table(rows, name_id, modname="C19_classes"):
    """coq/Gen/C19_classes.v: the table and structural checks (vm_compute)."""
    n = len(rows)
    L = ["(* GENERATED from the live classes of the UFL tree under check - do not edit *)",
         "Require Import List Arith NArith Bool.", "Require Import UFLV.Props.C19_dispatch.", "Import ListNotations.",
         "Open Scope N_scope.",
         "Definition dflt : N := 0.",
         "Definition row (tc name : N) (p : option N) (m : list N) := (tc, name, p, m).",
         "(* typecode, handler name, parent typecode, handler names along the mro *)",
         "Definition class_table : list (N * N * option N * list N) := ["]
    ent = []
    for r in rows:
        ent.append(f"  row {r['tc']} {name_id[r['name']]} {coq_opt(r['parent'])} "
                   f"{coq_list(name_id[x] for x in r['mro'])} (* {r['cls'].__name__} *)")
    L.append(";\n".join(ent) + "].")
    L += [
        "Definition tc_of (c : N * N * option N * list N) := fst (fst (fst c)).",
        "Definition name_of (c : N * N * option N * list N) := snd (fst (fst c)).",
        "Definition parent_of (c : N * N * option N * list N) := snd (fst c).",
        "Definition mro_of (c : N * N * option N * list N) := snd c.",
        "Definition mros : list (list N) := map mro_of class_table.",
        "Definition parentf (c : nat) : option nat := match nth_error class_table c with "
        "Some r => option_map N.to_nat (parent_of r) | None => None end.",
        "Definition namef (c : nat) : N := match nth_error class_table c with Some r => name_of r | None => 0 end.",
        "Fixpoint list_eqb (a b : list N) : bool := match a, b with [] , [] => true "
        "| x :: a', y :: b' => N.eqb x y && list_eqb a' b' | _, _ => false end.",
        f"Example typecodes_are_positions : map tc_of class_table = map N.of_nat (seq 0 {n}%nat).",
        "Proof. vm_compute. reflexivity. Qed.",
        "(* acyclic: every parent was registered earlier, so the parent function is a forest *)",
        "Example parents_registered_earlier : forallb (fun c => match parent_of c with Some p => N.ltb p (tc_of c) "
        "| None => true end) class_table = true.",
        "Proof. vm_compute. reflexivity. Qed.",
        "Example own_name_first : forallb (fun c => match mro_of c with x :: _ => N.eqb x (name_of c) | [] => false end) "
        "class_table = true.",
        "Proof. vm_compute. reflexivity. Qed.",
        "Example default_in_every_mro : forallb (fun c => hasl (mro_of c) dflt) class_table = true.",
        "Proof. vm_compute. reflexivity. Qed.",
    ]
    roots = [r["tc"] for r in rows if r["parent"] is None]
    L += [f"Example forest_roots : map tc_of (filter (fun c => match parent_of c with None => true | _ => false end) "
          f"class_table) = {coq_list(roots)}.",
          "Proof. vm_compute. reflexivity. Qed."]
    # which classes' mro is the parent chain (single inheritance inside the UFL hierarchy)
    by_tc = {r["tc"]: r for r in rows}

    def chain(tc):
        out = []
        while tc is not None:
            out.append(by_tc[tc]["name"])
            tc = by_tc[tc]["parent"]
        return out + [DEFAULT]

    def upto(names):
        out = []
        for x in names:
            out.append(x)
            if x == DEFAULT:
                break
        return out

    flags = [upto(r["mro"]) == chain(r["tc"]) for r in rows]
    L += [f"(* mro (cut after the default) = chain of ancestors in the forest: {sum(flags)} of {n} classes *)",
          f"Example mro_is_parent_chain : map (fun c => list_eqb (upto dflt (mro_of c)) "
          f"(chain parentf namef dflt {n}%nat (N.to_nat (tc_of c)))) class_table = "
          + coq_list("true" if f else "false" for f in flags) + ".",
          "Proof. vm_compute. reflexivity. Qed."]
    path = os.path.join(vlib.GEN, modname + ".v")
    vlib.write_if_changed(path, "\n".join(L) + "\n")
    return path, {"classes": n, "roots": [by_tc[t]["cls"].__name__ for t in roots],
                  "mro_is_chain": sum(flags),
                  "not_chain": [r["cls"].__name__ for r, f in zip(rows, flags) if not f]}


# ------------------------------------------------------------------------------------------------
# AST shape of the resolution loops (T1, fail closed -> reported, tie then rests on T3 alone)

def _src_func(cls, name):
    src = inspect.getsource(getattr(cls, name))
    import textwrap
    return ast.parse(textwrap.dedent(src)).body[0]


def resolution_shape(cls):
    """Extract from `cls.__init__`: the cache test, the registry iterated, the mro walk with
    first-match `break`.  Returns a dict; key 'ok' False when the loop shape is not the known one."""
    fn = _src_func(cls, "__init__")
    info = {"ok": False, "why": None}
    ifs = [n for n in ast.walk(fn) if isinstance(n, ast.If)]
    cache_if = None
    for n in ifs:
        d = ast.unparse(n.test)
        if "cache_data" in d:
            cache_if = n
            break
    if cache_if is None:
        info["why"] = "no `if <cache_data test>` found"
        return info
    test = ast.unparse(cache_if.test)
    info["cache_test"] = test
    outer = [n for n in cache_if.body if isinstance(n, ast.For)]
    if len(outer) != 1:
        info["why"] = "expected exactly one outer for loop under the cache test"
        return info
    outer = outer[0]
    info["registry_expr"] = ast.unparse(outer.iter)
    inner = [n for n in outer.body if isinstance(n, ast.For)]
    if len(inner) != 1 or ast.unparse(inner[0].iter) != f"{ast.unparse(outer.target)}.mro()":
        info["why"] = "inner loop is not `for c in classobject.mro()`"
        return info
    inner = inner[0]
    body = inner.body
    if not (len(body) >= 2 and isinstance(body[0], ast.Try)):
        info["why"] = "inner loop does not start with try: handler_name = c._ufl_handler_name_"
        return info
    tr = body[0]
    if ast.unparse(tr.body[0]) != f"handler_name = {ast.unparse(inner.target)}._ufl_handler_name_":
        info["why"] = "handler name is not read from c._ufl_handler_name_"
        return info
    hs = ast.unparse(tr.handlers[0])
    if "handler_name = UFLType._ufl_handler_name_" not in hs:
        info["why"] = "default handler name assignment missing"
        return info
    sel = [n for n in body[1:] if isinstance(n, ast.If)]
    if len(sel) != 1:
        info["why"] = "expected one `if <has handler>:` in the mro walk"
        return info
    sel = sel[0]
    cond = ast.unparse(sel.test)
    pre = "\n".join(ast.unparse(x) for x in body[1:] if x is not sel)
    if not (cond == "hasattr(self, handler_name)"
            or (cond == "function" and "function = getattr(self, handler_name, None)" in pre)):
        info["why"] = f"unknown handler test {cond!r}"
        return info
    if not (sel.body and isinstance(sel.body[-1], ast.Break) and not sel.orelse):
        info["why"] = "first match does not `break` the mro walk"
        return info
    assign = ast.unparse(sel.body[0])
    if f"[{ast.unparse(outer.target)}._ufl_typecode_] =" not in assign:
        info["why"] = "table entry is not indexed by classobject._ufl_typecode_"
        return info
    # anything after the if inside the loop (or an else on the for) could change first-match semantics
    if inner.orelse or body[-1] is not sel:
        info["why"] = "statements after the handler test in the mro walk"
        return info
    info["ok"] = True
    return info


LIVE_REGISTRIES = {"Expr._ufl_all_classes_", "UFLType._ufl_all_classes_"}
SNAPSHOTS = {"all_ufl_classes"}


def policy_from_shape(info):
    """(validate_len, live_registry) from the extracted shape, or None if not recognised."""
    if not info.get("ok"):
        return None
    reg = info["registry_expr"]
    if reg in LIVE_REGISTRIES:
        live = True
    elif reg in SNAPSHOTS:
        live = False
    else:
        return None
    t = info["cache_test"].replace(" ", "")
    if t == "notcache_data":
        validate = False
    elif t.startswith("notcache_dataorlen(cache_data") and t.endswith("!=len(" + reg.replace(" ", "") + ")") \
            and reg in LIVE_REGISTRIES:
        validate = True
    else:
        return None
    return (validate, live)


# ------------------------------------------------------------------------------------------------
# algorithm classes of the tree under check

def algorithm_classes():
    from ufl.algorithms.transformer import Transformer
    from ufl.corealg.multifunction import MultiFunction
    subs = set()
    for m in pkgutil.walk_packages(ufl.__path__, "ufl."):
        try:
            mod = importlib.import_module(m.name)
        except Exception:
            continue
        for o in vars(mod).values():
            if inspect.isclass(o) and o not in (MultiFunction, Transformer) and \
                    (issubclass(o, MultiFunction) or issubclass(o, Transformer)):
                subs.add(o)
    return sorted(subs, key=lambda c: (c.__module__, c.__name__))


# ------------------------------------------------------------------------------------------------
# random DAGs with sharing

def tree_size(e, memo):
    k = id(e)
    if k not in memo:
        memo[k] = 1 + sum(tree_size(o, memo) for o in e.ufl_operands)
    return memo[k]


def tree_depth(e, memo):
    k = ("d", id(e))
    if k not in memo:
        memo[k] = 1 + max((tree_depth(o, memo) for o in e.ufl_operands), default=0)
    return memo[k]


def random_dag(rng, n_ops, cap):
    """A real UFL expression built bottom-up from a few terminals; operands are drawn from the pool
    so sub-expressions are shared (same object) and sometimes rebuilt (equal, distinct object)."""
    f, g, h = uflgen.coef(()), uflgen.coef(()), uflgen.coef(())
    v = uflgen.coef((2,))
    A = uflgen.coef((2, 2))
    c = uflgen.const(())
    x = ufl.SpatialCoordinate(uflgen.mesh())
    scal = [f, g, h, c, v[0], v[1], x[0], A[0, 1], ufl.as_ufl(2), ufl.as_ufl(0.5)]
    rng.shuffle(scal)
    pool = scal[: rng.randint(3, len(scal))]
    memo = {}
    keep = []      # memo is keyed by id(): keep every object alive so ids are never reused
    from ufl.algebra import Abs
    # NB abs(abs(x)) corrupts the inner node in the tree under check (Abs.__new__ returns its operand and
    # __init__ then re-initialises it with itself as operand): never apply abs to an Abs
    un = [ufl.sin, ufl.cos, ufl.exp, lambda a: a if isinstance(a, Abs) else abs(a), lambda a: -a, lambda a: a ** 2, ufl.sqrt,
          lambda a: ufl.conditional(ufl.lt(a, 0.25), a, 1 - a), lambda a: ufl.variable(a)]
    bi = [lambda a, b: a + b, lambda a, b: a * b, lambda a, b: a - b, lambda a, b: a / (2 + b * b),
          lambda a, b: ufl.max_value(a, b), lambda a, b: ufl.conditional(ufl.gt(a, b), a, b),
          lambda a, b: ufl.as_vector([a, b])[rng.randint(0, 1)], lambda a, b: ufl.atan2(a, b),
          lambda a, b: ufl.dot(ufl.as_vector([a, b]), v), lambda a, b: ufl.inner(a * A, b * A)]

    def pick():
        # bias to recent entries -> deep DAGs; uniform otherwise -> wide sharing
        if rng.random() < 0.6:
            return pool[-1 - min(int(rng.expovariate(0.5)), len(pool) - 1)]
        return rng.choice(pool)

    for _ in range(n_ops):
        if rng.random() < 0.3:
            a = pick()
            e = rng.choice(un)(a)
        else:
            a, b = pick(), pick()
            e = rng.choice(bi)(a, b)
        if not isinstance(e, Expr):
            continue
        if rng.random() < 0.25 and e.ufl_operands:
            # an equal but distinct object (exercises hashing/equality rather than identity)
            try:
                e2 = e._ufl_expr_reconstruct_(*[o if o._ufl_is_terminal_ or rng.random() < 0.5
                                                 else (o._ufl_expr_reconstruct_(*o.ufl_operands))
                                                 for o in e.ufl_operands])
                if e2 == e:
                    e = e2
            except Exception:
                pass
        keep.append(e)
        if not isinstance(e, Expr) or tree_size(e, memo) > cap or tree_depth(e, memo) > 60:
            continue
        pool.append(e)
    root = pool[-1]
    for extra in rng.sample(pool, min(len(pool), rng.randint(0, 3))):
        cand = root + extra if rng.random() < 0.5 else root * extra
        keep.append(cand)
        if tree_size(cand, memo) <= cap:
            root = cand
    return root


class Numbering:
    """Structural numbering of the nodes of expressions: independent of Expr.__hash__/__eq__
    except for terminals (dict keyed by the terminal object).  id -> (label, child ids)."""

    def __init__(self):
        self.term = {}
        self.labels = {}          # label key -> label id
        self.label_tc = {}        # label id -> typecode
        self.nodes = {}           # (label, kids) -> node id
        self.defs = []            # node id -> (label, kids)
        self.byobj = {}
        self.keep = []

    def label(self, e):
        if e._ufl_is_terminal_:
            if e not in self.term:
                self.term[e] = len(self.term)
            key = ("t", e._ufl_typecode_, self.term[e])
        else:
            key = ("o", e._ufl_typecode_)
        if key not in self.labels:
            self.labels[key] = len(self.labels)
            self.label_tc[self.labels[key]] = e._ufl_typecode_
        return self.labels[key]

    def nid(self, e):
        k = id(e)
        if k in self.byobj:
            return self.byobj[k]
        # iterative post-order (expressions can be deep)
        stack = [(e, False)]
        while stack:
            x, done = stack.pop()
            if id(x) in self.byobj:
                continue
            if not done:
                stack.append((x, True))
                for o in x.ufl_operands:
                    if id(o) not in self.byobj:
                        stack.append((o, False))
            else:
                key = (self.label(x), tuple(self.byobj[id(o)] for o in x.ufl_operands))
                if key not in self.nodes:
                    self.nodes[key] = len(self.defs)
                    self.defs.append(key)
                self.byobj[id(x)] = self.nodes[key]
                self.keep.append(x)   # keep alive so id() stays unique
        return self.byobj[k]

    def subnodes(self, i):
        seen, st = set(), [i]
        while st:
            j = st.pop()
            if j in seen:
                continue
            seen.add(j)
            st.extend(self.defs[j][1])
        return seen

    def tsize(self, i, memo=None):
        memo = {} if memo is None else memo
        for j in sorted(self.subnodes(i)):      # children have smaller ids
            memo[j] = 1 + sum(memo[k] for k in self.defs[j][1])
        return memo[i]

    def coq_defs(self, prefix, upto=None):
        n = len(self.defs) if upto is None else upto
        return [f"Definition {prefix}{i} := Node {self.defs[i][0]} "
                f"[{'; '.join(prefix + str(k) for k in self.defs[i][1])}]." for i in range(n)]


# ------------------------------------------------------------------------------------------------
# hand-written files: compile, or reuse the recorded coqc output when sources and .vo are unchanged

def check_hand_files(files):
    """Returns a list of vlib.CoqResult.  The hand-written development does not depend on /repo; its
    coqc output (Print Assumptions) is cached next to the .vo, keyed by the sha1 of all sources."""
    import hashlib
    import json
    h = hashlib.sha1()
    for f in files:
        h.update(open(os.path.join(vlib.COQ, f), "rb").read())
    key = h.hexdigest()
    cpath = os.path.join(vlib.GEN, "hand_cache_" + hashlib.sha1("|".join(files).encode()).hexdigest()[:10] + ".json")
    fresh = all(vlib.vo_fresh(os.path.join(vlib.COQ, f)) for f in files)
    if fresh:
        try:
            data = json.load(open(cpath))
            if data.get("key") == key:
                return [vlib.CoqResult(os.path.join(vlib.COQ, f), True, data["out"][f], "", 0.0) for f in files]
        except (OSError, ValueError, KeyError):
            pass
    res = []
    for f in files:          # dependency order
        r = vlib.coqc(f, timeout=600)
        res.append(r)
        if not r.ok:
            return res
    with open(cpath, "w") as fh:
        json.dump({"key": key, "out": {f: r.out for f, r in zip(files, res)}}, fh)
    return res


def plain_function_table_policy():
    """T1 for map_expr_dags: how is the typecode-sized table for plain functions obtained?  Recognised
    shape: built afresh on every call from the live counter (`[...] * Expr._ufl_num_typecodes_`), which
    is a (validate_len, live_registry) = (True, True) policy.  Anything else -> None (probes decide)."""
    import textwrap
    from ufl.corealg import map_dag
    try:
        fn = ast.parse(textwrap.dedent(inspect.getsource(map_dag.map_expr_dags))).body[0]
    except Exception:
        return None, "cannot parse map_expr_dags"
    for n in ast.walk(fn):
        if isinstance(n, ast.If) and "isinstance(function, MultiFunction)" in ast.unparse(n.test):
            body = [ast.unparse(x) for x in n.orelse]
            want = ["cutoff_types = [False] * Expr._ufl_num_typecodes_",
                    "handlers = [function] * Expr._ufl_num_typecodes_"]
            if body == want:
                return (True, True), "tables rebuilt per call from Expr._ufl_num_typecodes_"
            return None, "else-branch: " + " ; ".join(body)[:300]
    return None, "no `if isinstance(function, MultiFunction)` found"


# ------------------------------------------------------------------------------------------------
# every place in ufl/ that builds or indexes a typecode-sized table

def typecode_table_sites():
    """ast scan of the tree under check: (relative file, enclosing def/class, line, what) for
      - sequences sized by the number of registered classes (`[...] * X._ufl_num_typecodes_`,
        `[...] * len(<...classes...>)`),
      - subscripts indexed by `._ufl_typecode_`."""
    root = os.path.dirname(ufl.__file__)
    sites = []
    for dp, _dn, fns in os.walk(root):
        for fn in fns:
            if not fn.endswith(".py"):
                continue
            path = os.path.join(dp, fn)
            try:
                tree = ast.parse(open(path).read())
            except SyntaxError:
                continue
            rel = os.path.relpath(path, root)
            scope = {}
            for node in ast.walk(tree):
                if isinstance(node, (ast.FunctionDef, ast.ClassDef)):
                    for ch in ast.walk(node):
                        scope.setdefault(id(ch), node.name) if not isinstance(node, ast.ClassDef) else None
            for node in ast.walk(tree):
                what = None
                if isinstance(node, ast.BinOp) and isinstance(node.op, ast.Mult):
                    txt = ast.unparse(node)
                    if "_ufl_num_typecodes_" in txt or ("len(" in txt and "classes" in txt):
                        what = "sized: " + txt[:80]
                elif isinstance(node, ast.Subscript) and "_ufl_typecode_" in ast.unparse(node.slice):
                    what = "indexed: " + ast.unparse(node)[:80]
                if what:
                    sites.append((rel, scope.get(id(node), "<module>"), node.lineno, what))
    return sorted(set(sites))
