"""C12 history harness, child side.  Run in a FRESH interpreter (vlib.run_repo_python) with a given
PYTHONHASHSEED:  C12_build.py <advance> <nscripts> <seed>

For every build script k < nscripts the process forks; the child (whose global counters are still
untouched) first creates and discards <advance> Index / Label / Mesh / Coefficient / Constant objects,
then builds the form of script k (all random choices derive from (seed, k), never from counters, ids
or hashes) and reports its signatures and the terminals the comparator orders by repr."""

import json
import os
import random
import sys

import ufl
from ufl.algorithms.signature import compute_form_signature
from ufl.classes import Constant, GeometricQuantity, Label, MultiIndex
from ufl.corealg.traversal import traverse_unique_terminals

import C29_lib as L
import elements


def advance(n):
    cell = ufl.triangle
    m = None
    for _ in range(max(n, 1) if n else 0):
        m = ufl.Mesh(elements.LagrangeElement(cell, 1, (2,)))
    if n:
        V = ufl.FunctionSpace(m, elements.LagrangeElement(cell, 1, ()))
        for _ in range(n):
            ufl.Index()
            Label()
            ufl.Coefficient(V)
            ufl.Constant(m)


KINDS = ["coef-only", "one-const", "consts", "two-mesh", "mixed", "indices", "variables", "args", "multi-mesh",
         "intersect", "derivative", "multi-contraction"]


def P(deg=1, sh=()):
    return elements.LagrangeElement(ufl.triangle, deg, tuple(sh))


def special(kind, rng):
    """Forms that do not use the expression generator: multi-domain integrals with intersect measures,
    unexpanded Gateaux derivatives w.r.t. tuples of coefficients whose counts are the first of the process
    (so that they straddle a power of ten in several configurations), subscripts contracting several
    distinct indices."""
    if kind == "derivative":
        m = ufl.Mesh(P(1, (2,)))
        V, Q = ufl.FunctionSpace(m, P(1)), ufl.FunctionSpace(m, P(2))
        cs = [ufl.Coefficient(rng.choice([V, Q])) for _ in range(3)]     # counts adv, adv+1, adv+2
        u, p, r = cs
        v = ufl.TestFunction(V)
        F = (u ** 2 * p * r * v + p * ufl.inner(ufl.grad(u), ufl.grad(v)) + ufl.sin(r) * u * v) * ufl.dx(domain=m)
        order = list(cs)
        rng.shuffle(order)
        sub = tuple(order[:2 + rng.randrange(2)])
        return ufl.derivative(F, sub)
    if kind == "intersect":
        ms = [ufl.Mesh(P(1, (2,))) for _ in range(3)]
        V0, V1, V2 = (ufl.FunctionSpace(mm, P(1 + n % 2)) for n, mm in enumerate(ms))
        u, v = ufl.TrialFunction(V1), ufl.TestFunction(V0)
        f, g = ufl.Coefficient(V0), ufl.Coefficient(V2)
        dx01 = ufl.Measure("dx", ms[0], intersect_measures=(ufl.Measure("dx", ms[1]),))
        form = f * ufl.inner(u, v) * dx01
        if rng.random() < 0.7:
            dx012 = ufl.Measure("dx", ms[0], intersect_measures=(ufl.Measure("dx", ms[1]), ufl.Measure("dx", ms[2])))
            form = form + f * g * u * v * dx012
        return form
    if kind == "multi-contraction":
        m = ufl.Mesh(P(1, (2,)))
        T4 = ufl.Coefficient(ufl.FunctionSpace(m, P(1, (2, 2, 2, 2))))
        T6 = ufl.Coefficient(ufl.FunctionSpace(m, P(1, (2,) * 6)))
        S = ufl.Coefficient(ufl.FunctionSpace(m, P(2, (2, 2))))
        v = ufl.TestFunction(ufl.FunctionSpace(m, P(1)))
        i, j, k = ufl.indices(3)
        i2, j2, k2 = ufl.indices(3)
        terms = [T4[i, i, j, j], S[i, j].dx(i, j), T6[i, i, j, j, k, k], T6[k2, j2, i2, i2, j2, k2], T4[j2, i2, i2, j2]]
        rng.shuffle(terms)
        e = terms[0] + terms[1] * terms[2] + terms[3]
        return e * v * ufl.dx(domain=m)
    raise ValueError(kind)



def build(k, seed):
    """Form number k.  The kind decides which terminal pools the integrands may use."""
    rng = random.Random(seed * 100003 + k)
    kind = KINDS[k % len(KINDS)]
    if kind in ("intersect", "derivative", "multi-contraction"):
        return kind, special(kind, rng)
    w = L.World(nconst=12)
    w.args = {(): w.args[()][:2], (2,): [], (2, 2): []}     # one test and one trial space per form
    # restrict the pools according to the kind (the class of the known finding needs >= 2 constants
    # or quantities on >= 2 meshes in one form)
    extra = []
    if kind == "multi-mesh":
        # coefficients living on several meshes that are NOT integration domains (no repr-ordered terminal
        # on them, so the kind stays outside the class of the known finding)
        for _ in range(4):
            mx = ufl.Mesh(elements.LagrangeElement(ufl.triangle, 1, (2,)))
            extra.append(ufl.Coefficient(ufl.FunctionSpace(mx, elements.LagrangeElement(ufl.triangle, 1, ()))))
    if kind in ("coef-only", "indices", "variables", "args", "multi-mesh"):
        w.consts = {sh: [] for sh in w.consts}
        single_mesh(w)
    elif kind == "one-const":
        w.consts = {(): w.consts[()][:1], (2,): [], (2, 2): []}
        single_mesh(w)
    elif kind == "consts":
        single_mesh(w)
    integrals = []
    nint = 1 + rng.randrange(3)
    v = w.args[()][0]
    u = w.args[()][1]
    for j in range(nint):
        depth = 1 + rng.randrange(3)
        e = L._fresh(w, rng, depth)
        if kind == "consts":
            cs = rng.sample(w.consts[()], 3)
            e = e * cs[0] + cs[1] * cs[2] * rng.choice(w.coefs[()])
            if j == 0:      # all scalar constants of the mesh: their counts straddle a power of ten in some configuration
                prod = w.consts[()][0]
                for cc in w.consts[()][1:]:
                    prod = prod * cc
                e = e + prod
        if kind == "multi-mesh":
            rng.shuffle(extra)
            e = e + extra[0] * extra[1] + extra[2] / (extra[3] + 2)
        if kind == "two-mesh":
            xs = [ufl.SpatialCoordinate(m) for m in w.meshes]
            e = e + xs[0][0] * xs[1][0] * ufl.CellVolume(w.m2) * ufl.CellVolume(w.m1)
        if kind == "variables":
            a = ufl.variable(rng.choice(w.coefs[()]) * rng.choice(w.coefs[()]))
            b = ufl.variable(a + rng.choice(w.coefs[()]))
            e = e + a * b + ufl.diff(b ** 2, a)
        if kind == "indices":
            i, j2 = ufl.indices(2)
            A, B = rng.sample(w.coefs[(2, 2)], 2)
            e = e + A[i, j2] * B[j2, i] + ufl.as_tensor(A[i, j2], (j2, i))[0, 1]
        if kind == "args":
            e = e * v * u + ufl.inner(ufl.grad(u), ufl.grad(v)) * rng.choice(w.coefs[()])
        elif rng.random() < 0.5:
            e = e * v
        mesh = w.m1
        meas = rng.choice([ufl.dx, ufl.ds, ufl.dx(1), ufl.dx(2), ufl.dS if False else ufl.ds(3)])
        md = rng.choice([None, {"quadrature_degree": 2}, {"quadrature_degree": 3, "rule": "default"}])
        meas = meas(domain=mesh) if md is None else meas(domain=mesh, metadata=md)
        integrals.append(e * meas)
    form = integrals[0]
    for itg in integrals[1:]:
        form = form + itg
    return kind, form


def single_mesh(w):
    w.meshes = [w.m1]
    w.coefs = {sh: cs[:3] for sh, cs in w.coefs.items()}
    w.consts = {sh: [c for c in cs if c.ufl_domain() is w.m1] for sh, cs in w.consts.items()}

    def st():
        out = list(w.coefs[()]) + list(w.consts[()]) + list(w.args[()])
        x = ufl.SpatialCoordinate(w.m1)
        return out + [x[0], x[1], ufl.CellVolume(w.m1), ufl.FacetNormal(w.m1)[0], ufl.Circumradius(w.m1)]
    w.scalar_terminals = st


def report(k, seed):
    kind, form = build(k, seed)
    mp = L.Mapper()
    sig1 = form.signature()
    sig2 = compute_form_signature(form, form._compute_renumbering())
    reprterms = []
    seen = set()
    trees = []
    for itg in form.integrals():
        trees.append(mp.tree(itg.integrand()))
        for t in traverse_unique_terminals(itg.integrand()):
            if isinstance(t, MultiIndex):
                continue
            d = mp.terminal_data(t)
            if d[0] == "R" and any(p[0] == "cnt" for p in d[1]):
                key = (t._ufl_typecode_, d[1])
                if key not in seen:
                    seen.add(key)
                    reprterms.append([t._ufl_typecode_, [list(p) for p in d[1]]])
    return {"k": k, "kind": kind, "sig": sig1, "sig2": sig2, "reprterms": reprterms,
            "trees": trees, "str": str(form)[:1500],
            "itg": [[i.integral_type(), str(i.subdomain_id()), str(i.metadata())] for i in form.integrals()]}


def main():
    adv, n, seed = int(sys.argv[1]), int(sys.argv[2]), int(sys.argv[3])
    import gc
    gc.disable()
    gc.freeze()        # keep the forked children from touching (copying) the parent's heap
    out = []
    for k in range(n):
        r, wfd = os.pipe()
        pid = os.fork()
        if pid == 0:
            os.close(r)
            try:
                advance(adv)
                res = report(k, seed)
            except BaseException as ex:      # noqa: BLE001
                import traceback
                res = {"k": k, "error": traceback.format_exc()[-1500:]}
            with os.fdopen(wfd, "w") as f:
                json.dump(res, f)
            os._exit(0)
        os.close(wfd)
        with os.fdopen(r) as f:
            data = f.read()
        os.waitpid(pid, 0)
        out.append(json.loads(data))
    json.dump({"advance": adv, "hashseed": os.environ.get("PYTHONHASHSEED"), "results": out}, sys.stdout)


if __name__ == "__main__":
    main()
