"""C14: seeded typed generator of integrands over form arguments, coefficients and UFL operators
(accepted and rejected shapes, real and complex mode), the argument numbering used by the Coq model,
and the decidable predicates that describe the known-finding classes."""

import random

import ufl
import ufl.classes as C
from ufl.algorithms.analysis import extract_type

import ufl2coq
import uflgen


class C14Ctx(ufl2coq.Ctx):
    """Argument ids encode Argument.number() and part():  id = 100*number + (0 if part is None else part+1),
    so that the model's `num id = id / 100` and ascending ids = sorted by (number, part)."""

    def term(self, t):
        if isinstance(t, C.Argument):
            key = self.term_key(t)
            if key not in self.terms:
                tid = 100 * t.number() + (0 if t.part() is None else t.part() + 1)
                for k2, v in self.terms.items():
                    if v[0] == ufl2coq.KIND_ARGUMENT and v[1] == tid:
                        raise ufl2coq.Unsupported("two arguments with the same (number, part)")
                self.terms[key] = (ufl2coq.KIND_ARGUMENT, tid, tuple(t.ufl_shape), repr(t)[:120])
                self.order.append(key)
            return self.terms[key]
        return super().term(t)


def arg_id(a):
    return 100 * a.number() + (0 if a.part() is None else a.part() + 1)


def arguments_of(e):
    return sorted(extract_type(e, C.Argument), key=arg_id)


# ---------------------------------------------------------------------------------------------
# known-finding classes (decidable predicates on the UFL expression)

def has_args(e):
    return bool(extract_type(e, C.Argument))


def in_class_list_tensor(e):
    """some ListTensor has a component that depends on an Argument and another component that is
    argument-free and not a Zero node (ArityChecker.list_tensor drops the `()` arity of such components)"""
    for lt in extract_type(e, C.ListTensor):
        ops = lt.ufl_operands
        if any(has_args(o) for o in ops) and any((not has_args(o)) and not isinstance(o, C.Zero) for o in ops):
            return True
    return False


def in_class_dot(e, complex_mode):
    """complex mode and some Dot node has an Argument in its second operand (handler `dot = inner`
    books a conjugation that Dot does not perform)"""
    if not complex_mode:
        return False
    return any(has_args(d.ufl_operands[1]) for d in extract_type(e, C.Dot))


# ---------------------------------------------------------------------------------------------

class Pool:
    def __init__(self, kind):
        S = uflgen.space(())
        V = uflgen.space((2,))
        self.S, self.V = S, V
        self.f = ufl.Coefficient(S)
        self.h = ufl.Coefficient(S)
        self.g = ufl.Coefficient(V)
        self.c = ufl.Constant(uflgen.mesh())
        self.kind = kind
        if kind == "ss":
            self.test, self.trial = [ufl.Argument(S, 0)], [ufl.Argument(S, 1)]
        elif kind == "vv":
            self.test, self.trial = [ufl.Argument(V, 0)], [ufl.Argument(V, 1)]
        elif kind == "sv":
            self.test, self.trial = [ufl.Argument(S, 0)], [ufl.Argument(V, 1)]
        elif kind == "vs":
            self.test, self.trial = [ufl.Argument(V, 0)], [ufl.Argument(S, 1)]
        elif kind == "parts":
            self.test = [ufl.Argument(S, 0, part=0), ufl.Argument(V, 0, part=1)]
            self.trial = [ufl.Argument(S, 1, part=0), ufl.Argument(V, 1, part=1)]
        else:
            raise ValueError(kind)
        self.third = [ufl.Argument(S, 2)]
        self.fourth = [ufl.Argument(S, 3)]


class Gen:
    def __init__(self, seed):
        self.rng = random.Random(seed)

    def pick(self, xs):
        return xs[self.rng.randrange(len(xs))]

    # ---- argument-free expressions
    def coef_s(self, d=1):
        r, P = self.rng, self.P
        k = r.randrange(10 if d > 0 else 5)
        if k == 0:
            return P.f
        if k == 1:
            return P.h
        if k == 2:
            return P.c
        if k == 3:
            return P.g[r.randrange(2)]
        if k == 4:
            return ufl.as_ufl(self.pick([2, 0.5, 3, 1.5]))
        if k == 5:
            return self.coef_s(d - 1) * self.coef_s(d - 1)
        if k == 6:
            return self.coef_s(d - 1) + self.coef_s(d - 1)
        if k == 7:
            return self.pick([ufl.sin, ufl.exp, abs, ufl.real, ufl.conj])(self.coef_s(d - 1))
        if k == 8:
            return ufl.grad(P.f)[r.randrange(2)]
        return self.coef_s(d - 1) ** 2

    def coef_v(self, d=1):
        r, P = self.rng, self.P
        k = r.randrange(5 if d > 0 else 2)
        if k == 0:
            return P.g
        if k == 1:
            return ufl.grad(P.f)
        if k == 2:
            return ufl.as_vector([self.coef_s(d - 1), self.coef_s(d - 1)])
        if k == 3:
            return self.coef_s(d - 1) * self.coef_v(d - 1)
        return self.coef_v(d - 1) + self.coef_v(d - 1)

    def cond(self):
        a, b = self.coef_s(0), self.coef_s(0)
        c = self.pick([ufl.lt, ufl.gt, ufl.le, ufl.ge])(a, b)
        if self.rng.random() < 0.2:
            c = ufl.And(c, ufl.lt(self.P.h, 0.5))
        if self.rng.random() < 0.1:
            c = ufl.Not(c)
        return c

    # ---- expressions intended to be linear in the arguments of one number
    def arg_s(self, fam):
        a = self.pick(fam)
        if a.ufl_shape == ():
            return a
        return a[self.rng.randrange(a.ufl_shape[0])]

    def arg_v(self, fam):
        vs = [a for a in fam if a.ufl_shape == (2,)]
        if vs and self.rng.random() < 0.7:
            return self.pick(vs)
        k = self.rng.randrange(4)
        if k == 0:
            return ufl.as_vector([self.arg_s(fam), self.arg_s(fam)])
        if k == 1:
            return ufl.as_vector([self.arg_s(fam), 0])
        if k == 2:
            return ufl.grad(self.arg_s(fam))
        return ufl.as_vector([0, self.lin_s(fam, 0)])

    def lin_s(self, fam, d):
        r = self.rng
        if d <= 0:
            return self.arg_s(fam)
        k = r.randrange(17)
        if k == 0:
            return self.arg_s(fam)
        if k == 1:
            return self.coef_s(1) * self.lin_s(fam, d - 1)
        if k == 2:
            return self.lin_s(fam, d - 1) + self.lin_s(fam, d - 1)
        if k == 3:
            return ufl.grad(self.lin_s(fam, d - 1))[r.randrange(2)]
        if k == 4:
            return ufl.conditional(self.cond(), self.lin_s(fam, d - 1), 0)
        if k == 5:
            return ufl.conditional(self.cond(), 0, self.lin_s(fam, d - 1))
        if k == 6:
            x = self.lin_s(fam, d - 1)
            return ufl.conditional(self.cond(), x, self.coef_s(0) * x)
        if k == 7:
            return ufl.variable(self.lin_s(fam, d - 1))
        if k == 8:
            return self.lin_s(fam, d - 1) / self.coef_s(1)
        if k == 9:
            return ufl.inner(self.lin_v(fam, d - 1), self.coef_v(1))
        if k == 10:
            i = ufl.Index()
            return self.lin_v(fam, d - 1)[i] * self.coef_v(1)[i]
        if k == 11:
            return ufl.dot(self.lin_v(fam, d - 1), self.coef_v(1))
        if k == 12:
            return ufl.dot(self.coef_v(1), self.lin_v(fam, d - 1))
        if k == 13:
            return ufl.conj(ufl.conj(self.lin_s(fam, d - 1)))
        if k == 14:
            return ufl.outer(self.coef_v(0), self.lin_v(fam, d - 1))[r.randrange(2), r.randrange(2)]
        if k == 15:
            return ufl.div(self.lin_v(fam, d - 1)) if r.random() < 0.5 else ufl.tr(ufl.grad(self.lin_v(fam, d - 1)))
        return self.lin_s(fam, d - 1) - self.lin_s(fam, d - 1)

    def lin_v(self, fam, d):
        r = self.rng
        if d <= 0:
            return self.arg_v(fam)
        k = r.randrange(12)
        if k == 0:
            return self.arg_v(fam)
        if k == 1:
            return self.coef_s(1) * self.lin_v(fam, d - 1)
        if k == 2:
            return self.lin_v(fam, d - 1) + self.lin_v(fam, d - 1)
        if k == 3:
            return ufl.grad(self.lin_s(fam, d - 1))
        if k == 4:
            return ufl.as_vector([self.lin_s(fam, d - 1), self.lin_s(fam, d - 1)])
        if k == 5:
            return ufl.as_vector([self.lin_s(fam, d - 1), 0])
        if k == 6:       # the suspected defect class: a non-zero argument-free component
            return ufl.as_vector([self.lin_s(fam, d - 1), self.coef_s(0)])
        if k == 7:
            return ufl.conditional(self.cond(), self.lin_v(fam, d - 1), self.lin_v(fam, d - 1))
        if k == 8:
            return ufl.variable(self.lin_v(fam, d - 1))
        if k == 9:
            i = ufl.Index()
            return ufl.as_vector(self.lin_v(fam, d - 1)[i] * self.coef_s(0), i)
        if k == 10:
            return ufl.dot(ufl.grad(self.coef_v(0)), self.lin_v(fam, d - 1))
        return ufl.conj(self.lin_v(fam, d - 1))

    # ---- whole integrands
    def term(self, arity, cm, d):
        P, r = self.P, self.rng
        fac = [self.coef_s(1)] if r.random() < 0.6 else []
        if arity >= 1:
            t = self.lin_s(P.test, d)
            if cm and r.random() < 0.85:
                t = ufl.conj(t)
            fac.append(t)
        if arity >= 2:
            fac.append(self.lin_s(P.trial, d))
        if arity >= 3:
            t = self.lin_s(P.third, r.randrange(2))
            fac.append(ufl.conj(t) if r.random() < 0.25 else t)   # a conjugated argument number >= 2 is an error
        if arity >= 4:
            t = self.lin_s(P.fourth, 0)
            fac.append(ufl.conj(t) if r.random() < 0.25 else t)
        if not fac:
            fac = [self.coef_s(1)]
        r.shuffle(fac)
        if arity == 2 and r.random() < 0.35:
            # inner/dot/outer of vector-valued linear parts
            A, B = self.lin_v(P.trial, d - 1), self.lin_v(P.test, d - 1)
            k = r.randrange(4)
            if k == 0:
                e = ufl.inner(A, B)
            elif k == 1:
                e = ufl.dot(A, B)
            elif k == 2:
                e = ufl.inner(ufl.grad(A), ufl.grad(B))
            else:
                e = ufl.outer(B, A)[r.randrange(2), r.randrange(2)]
            return e * self.coef_s(0) if r.random() < 0.5 else e
        e = fac[0]
        for x in fac[1:]:
            e = e * x
        return e

    def perturb(self, e, cm):
        """turn a (probably accepted) integrand into a (probably rejected) one"""
        P, r = self.P, self.rng
        k = r.randrange(13)
        if k == 12:
            return e / (self.coef_s(0) + self.lin_s(P.test, 0))   # the same argument in the denominator
        if k == 0:
            return e + self.coef_s(0)                     # affine
        if k == 1:
            return e * self.lin_s(P.test, 0)              # quadratic in the test function
        if k == 2:
            return self.pick([ufl.sin, abs, ufl.real, ufl.imag, ufl.sqrt, ufl.exp])(e)
        if k == 3:
            return self.coef_s(0) / e                     # argument in the denominator
        if k == 4:
            return e + self.lin_s(P.test, 1)              # terms of different arity
        if k == 5:
            return ufl.conj(e)
        if k == 6:
            return ufl.conditional(self.cond(), e, self.coef_s(0))
        if k == 7:
            return ufl.conditional(ufl.lt(self.lin_s(P.test, 0), 0.5), e, e)
        if k == 8:
            return e ** 2
        if k == 9:
            return ufl.max_value(e, self.coef_s(0))
        if k == 10:
            i = ufl.Index()
            return ufl.as_vector([e, self.lin_s(P.trial, 0)])[i] * P.g[i]
        return e * self.lin_s(P.trial, 0)

    def integrand(self):
        r = self.rng
        self.P = Pool(self.pick(["ss", "ss", "vv", "vv", "sv", "vs", "parts"]))
        cm = r.random() < 0.5
        arity = self.pick([0, 1, 1, 2, 2, 2, 2, 3, 3, 4])
        d = self.pick([0, 1, 1, 2, 2, 3])
        nt = self.pick([1, 1, 2, 3])
        e = self.term(arity, cm, d)
        for _ in range(nt - 1):
            e = e + self.term(arity if r.random() < 0.85 else max(0, arity - 1), cm, d)
        if r.random() < 0.3:
            e = self.perturb(e, cm)
        if r.random() < 0.15:
            e = e('+')
        args = arguments_of(e)
        q = r.random()
        if q < 0.06 and args:
            args = args[:-1]                                  # form declares fewer arguments
        elif q < 0.12:
            extra = [a for a in self.P.test + self.P.trial + self.P.third if a not in args]
            if extra:
                args = sorted(args + [extra[0]], key=arg_id)   # form declares more arguments
        return e, args, cm


def probes():
    """Small fixed integrands: one per operator class applied to an argument, and the shapes named in
    the property statement (a + c, a*a, f(a), c/a)."""
    S = uflgen.space(())
    V = uflgen.space((2,))
    v, u = ufl.Argument(S, 0), ufl.Argument(S, 1)
    vv, uu = ufl.Argument(V, 0), ufl.Argument(V, 1)
    f, g, c = ufl.Coefficient(S), ufl.Coefficient(V), ufl.Constant(uflgen.mesh())
    i = ufl.Index()
    cnd = ufl.lt(f, 0.5)
    P = {
        "affine": v + f, "affine_c": u * v + c * v, "square": v * v, "uu": u * u * v, "sin": ufl.sin(v), "c_over_a": f / v,
        "a_over_a": v / (f + v), "a_over_a2": (u * v) / (1 + u), "a_over_a3": (f * v) / v, "a_over_ua": u * v / (u * v + f),
        "plain": f * v, "bilinear": f * u * v, "a_over_c": v / f, "sum_same": u * v + 2 * u * v,
        "Abs": abs(v), "Real": ufl.real(v), "Imag": ufl.imag(v), "Power": v ** 2, "Power1": (f * v) ** 3,
        "Sqrt": ufl.sqrt(v), "Exp": ufl.exp(v), "Ln": ufl.ln(v), "Cos": ufl.cos(v), "Tan": ufl.tan(v),
        "Cosh": ufl.cosh(v), "Sinh": ufl.sinh(v), "Tanh": ufl.tanh(v), "Acos": ufl.acos(v), "Asin": ufl.asin(v),
        "Atan": ufl.atan(v), "Erf": ufl.erf(v), "Atan2": ufl.atan2(v, f), "Atan2b": ufl.atan2(f, v),
        "BesselJ": ufl.bessel_J(1, v), "BesselY": ufl.bessel_Y(1, v), "BesselI": ufl.bessel_I(1, v),
        "BesselK": ufl.bessel_K(1, v),
        "MinValue": ufl.min_value(v, f), "MaxValue": ufl.max_value(f, v),
        "Conj": ufl.conj(v), "ConjConj": ufl.conj(ufl.conj(v)) * u, "Conj_bil": u * ufl.conj(v),
        "Indexed": vv[0], "Indexed_i": vv[i] * g[i], "IndexSum": vv[i] * uu[i], "ComponentTensor": (f * vv)[1],
        "CT2": ufl.inner(f * vv, g), "ListTensor": ufl.inner(ufl.as_vector([v, 2 * v]), g),
        "ListTensor0": ufl.inner(ufl.as_vector([v, 0]), g), "ListTensor_vu": ufl.inner(ufl.as_vector([v, u]), g),
        "ListTensor_mixed": ufl.inner(ufl.as_vector([u * v, v]), g),
        "ListTensor_c": ufl.inner(ufl.as_vector([v, 1.0]), g), "ListTensor_cf": ufl.as_vector([f, u * v])[i] * g[i],
        "Conditional": ufl.conditional(cnd, v, 2 * v), "Conditional0": ufl.conditional(cnd, v, 0),
        "Conditional0b": ufl.conditional(cnd, 0, v), "Conditional_c": ufl.conditional(cnd, v, f),
        "Conditional_vu": ufl.conditional(cnd, v, u), "Conditional_arg": ufl.conditional(ufl.lt(v, 0.5), f, f),
        "Conditional_arg2": ufl.conditional(ufl.And(cnd, ufl.gt(u, f)), v, v),
        "Conditional_c0": ufl.conditional(cnd, f, 0) * v,
        "Variable": ufl.variable(v) * f, "Restricted+": v('+') * f('-'), "Restricted-": v('-') * u('+'),
        "Grad": ufl.grad(v)[0], "Grad2": ufl.inner(ufl.grad(u), ufl.grad(v)), "Grad_prod": ufl.grad(f * v)[1],
        "Div": ufl.div(vv), "NablaGrad": ufl.nabla_grad(v)[0], "NablaDiv": ufl.nabla_div(vv), "Curl": ufl.curl(vv),
        "Transposed": ufl.transpose(ufl.outer(vv, g))[0, 1], "Outer": ufl.outer(vv, uu)[0, 1],
        "Outer_r": ufl.outer(uu, vv)[0, 1], "Inner": ufl.inner(uu, vv), "Inner_r": ufl.inner(vv, uu),
        "Dot": ufl.dot(uu, vv), "Dot_r": ufl.dot(vv, uu), "Dot_c": ufl.dot(g, vv), "Dot_c2": ufl.dot(vv, g),
        "Cross": ufl.cross(ufl.as_vector([v, 0, 0]), ufl.as_vector([f, f, f]))[1], "Perp": ufl.perp(vv)[0],
        "Trace": ufl.tr(ufl.grad(vv)), "Determinant": ufl.det(ufl.grad(vv)), "Inverse": ufl.inv(ufl.grad(vv))[0, 0],
        "Cofactor": ufl.cofac(ufl.grad(vv))[0, 0], "Deviatoric": ufl.dev(ufl.grad(vv))[0, 0],
        "Skew": ufl.skew(ufl.grad(vv))[0, 1], "Sym": ufl.sym(ufl.grad(vv))[0, 1],
        "Zero_branch": ufl.conditional(cnd, u * v, 0) + f * u * v, "functional": f * f,
        "three": u * v * ufl.Argument(S, 2), "division_chain": (u * v / f) / (f + 1),
        "sum_conj": v + ufl.conj(v), "inner_lt": ufl.inner(ufl.as_vector([u, 0]), ufl.as_vector([v, v])),
        "RefGrad": ufl.classes.ReferenceGrad(v)[0], "RefValue": ufl.classes.ReferenceValue(v),
        "nested_lt": ufl.inner(ufl.as_matrix([[v, 0], [0, 2 * v]]), ufl.grad(g)),
        "nested_lt_c": ufl.inner(ufl.as_matrix([[v, 0], [1, v]]), ufl.grad(g)),
    }
    out = []
    for name, e in P.items():
        for cm in (False, True):
            out.append((name, e, arguments_of(e), cm))
    # declared arguments differ from the integrand's
    out.append(("missing_arg", f * v, [v, u], False))
    out.append(("extra_arg", f * u * v, [v], False))
    out.append(("no_arg_declared", f * f, [v], False))
    return out


def small_scope(tier):
    """Exhaustive small-scope stream: every binary node type (and the two-branch conditional, the
    two-component list tensor, inner/dot/outer) applied to every ORDERED pair of operand kinds
    (zero, literal, coefficient, test/trial/third argument, their conjugates, products of them), in real
    and complex mode.  Handler rules that are asymmetric in their operands or that treat Zero / empty /
    conjugated / higher-numbered arguments specially fire only on such specific operand pairs."""
    S = uflgen.space(())
    V = uflgen.space((2,))
    v, u, w = ufl.Argument(S, 0), ufl.Argument(S, 1), ufl.Argument(S, 2)
    vv, uu, ww = ufl.Argument(V, 0), ufl.Argument(V, 1), ufl.Argument(V, 2)
    f, h, g = ufl.Coefficient(S), ufl.Coefficient(S), ufl.Coefficient(V)
    zero = ufl.classes.Zero()
    cnd = ufl.lt(h, 0.5)
    skinds = [("0", zero), ("lit", ufl.as_ufl(2)), ("f", f), ("v", v), ("u", u), ("cv", ufl.conj(v)),
              ("w", w), ("cw", ufl.conj(w)), ("ucv", u * ufl.conj(v)), ("uv", u * v)]
    if tier == "thorough":
        skinds += [("fv", f * v), ("cu", ufl.conj(u)), ("uwcv", u * w * ufl.conj(v)), ("gradv", ufl.grad(v)[0])]
    i = ufl.Index()
    sops = [
        ("sum", lambda a, b: a + b), ("prod", lambda a, b: a * b), ("div", lambda a, b: a / b),
        ("cond", lambda a, b: ufl.conditional(cnd, a, b)),
        ("lt", lambda a, b: ufl.as_vector([a, b])[i] * g[i]),
        ("max", lambda a, b: ufl.max_value(a, b)), ("pow", lambda a, b: a ** b),
        ("condarg", lambda a, b: ufl.conditional(ufl.gt(a, h), b, b)),
        ("prod_u", lambda a, b: u * ufl.conditional(cnd, a, b)),
    ]
    vkinds = [("g", g), ("vv", vv), ("uu", uu), ("cvv", ufl.conj(vv)), ("ww", ww), ("cww", ufl.conj(ww)),
              ("lt_v0", ufl.as_vector([v, 0])), ("lt_vf", ufl.as_vector([v, f])), ("lt_uv", ufl.as_vector([u, v]))]
    vops = [("inner", lambda a, b: ufl.inner(a, b)), ("dot", lambda a, b: ufl.dot(a, b)),
            ("outer", lambda a, b: ufl.outer(a, b)[0, 1]),
            ("vcond", lambda a, b: ufl.inner(ufl.conditional(cnd, a, b), g)),
            ("vsum", lambda a, b: ufl.inner(g, a + b))]
    # linear wrappers: the arity of the operand must pass THROUGH them -- combine a wrapped operand with a
    # second operand so that hidden arguments show up as quadratic / affine integrands
    j = ufl.Index()
    wrappers = [
        ("var", lambda a: ufl.variable(a)), ("pos", lambda a: a("+")), ("neg", lambda a: a("-")),
        ("grad", lambda a: ufl.grad(a)[0]), ("divf", lambda a: a / f), ("cond0", lambda a: ufl.conditional(cnd, a, 0)),
        ("cond0b", lambda a: ufl.conditional(cnd, 0, a)), ("isum", lambda a: ufl.as_vector([a, 2 * a])[i] * g[i]),
        ("ct", lambda a: ufl.as_vector(a * g[j], j)[1]), ("cc", lambda a: ufl.conj(ufl.conj(a))),
        ("refval", lambda a: ufl.classes.ReferenceValue(a)),
    ]
    wnames = {"f", "v", "u", "cv", "uv", "ucv"} | ({"w", "fv"} if tier == "thorough" else set())
    for wn, wf in wrappers:
        sops.append((f"{wn}_prod", lambda a, b, wf=wf: wf(a) * b))
        if tier == "thorough":
            sops.append((f"{wn}_sum", lambda a, b, wf=wf: wf(a) + b))
    # arguments with explicit parts (blocks of a MixedFunctionSpace): the parts of one argument NUMBER belong
    # together -- products of two parts of the same number are quadratic in that argument
    p0, p1 = ufl.Argument(S, 0, part=0), ufl.Argument(S, 0, part=1)
    q0, q1 = ufl.Argument(S, 1, part=0), ufl.Argument(S, 1, part=1)
    pkinds = [("0", zero), ("f", f), ("p0", p0), ("p1", p1), ("cp0", ufl.conj(p0)), ("cp1", ufl.conj(p1)),
              ("q0", q0), ("q1", q1), ("q0cp0", q0 * ufl.conj(p0)), ("q1cp0", q1 * ufl.conj(p0)),
              ("q0cp1", q0 * ufl.conj(p1)), ("p0p1", p0 * p1)]
    pops = [o_ for o_ in sops if o_[0] in ("sum", "prod", "cond", "lt", "var_prod")
            or (tier == "thorough" and o_[0] in ("div", "pos_prod", "grad_prod"))]
    if tier != "thorough":
        pkinds = [k for k in pkinds if k[0] not in ("cp1", "q1cp0", "q0cp1")]
    out, seen = [], set()
    for ops, kinds in ((sops, skinds), (vops, vkinds), (pops, pkinds)):
        for on, op in ops:
            for an, a in kinds:
                for bn, b in kinds:
                    if kinds is skinds and (on.endswith("_prod") or on.endswith("_sum")) and on not in ("prod_u",) \
                            and (an not in wnames or bn not in wnames):
                        continue
                    try:
                        e = op(a, b)
                    except Exception:
                        continue
                    if not isinstance(e, ufl.classes.Expr):
                        continue
                    args = arguments_of(e)
                    for cm in (False, True):
                        key = (str(e), cm)
                        if key in seen:
                            continue
                        seen.add(key)
                        out.append((f"{'P' if kinds is pkinds else ''}{on}_{an}_{bn}", e, args, cm))
    return out
