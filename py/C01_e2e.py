"""C01 part (c): end-to-end traces of the real compute_form_data over a zoo of single-integral forms and
all combinations of the integrand-changing options.

Obligation per (form, option set), proved by Coq for all field values:
    den(preprocessed integrand) = den(scale) * den(integrand after preprocess_form)
where the left side lives in the reference frame and the right side in the physical frame.  The two
frames are connected by hypotheses that are themselves TRACED from the real per-stage code (and are the
conclusions of the per-stage properties):
  * pullback facts: physical value of every form argument = its declared push-forward, written down
    independently here for identity / covariant / contravariant Piola (spec_pullback), traced from
    apply_function_pullbacks for other elements                                                          [C08]
  * lowering facts: every geometric quantity = den(apply_geometry_lowering(quantity))                 [C07]
  * the chain rule through the affine cell map: Dx_j a = sum_k K[k,j] * DX_k a                          [C03]
So what Coq checks here is the COMPOSITION performed by compute_form_data: stage order, scaling factor,
re-expansion of derivatives, Jacobian cancellation, component-tensor removal, real-mode node removal."""

import itertools
import math
import random
import time

import ufl
import ufl.classes as C
from ufl.algorithms import compute_form_data
from ufl.algorithms.apply_function_pullbacks import apply_function_pullbacks
from ufl.algorithms.apply_geometry_lowering import apply_geometry_lowering
from ufl.algorithms.apply_integral_scaling import compute_integrand_scaling_factor
from ufl.algorithms.check_arities import ArityMismatch
from ufl.algorithms.compute_form_data import preprocess_form
from ufl.corealg.traversal import unique_pre_traversal
from ufl.pullback import contravariant_piola, covariant_piola
from ufl.sobolevspace import HCurl, HDiv

import coqgen
import pyden
import uflgen
import ufl2coq
from elements import FiniteElement

OPTS = ["do_apply_function_pullbacks", "do_apply_integral_scaling", "do_apply_geometry_lowering",
        "do_cancel_jacobian_products", "do_remove_component_tensors"]


def zoo(cell, g):
    """(name, form) single-integral forms"""
    m = uflgen.mesh(cell, g)
    td = m.topological_dimension
    f = uflgen.coef((), cell, g)
    h = uflgen.coef((), cell, g, degree=2)
    v = uflgen.arg(0, (), cell, g)
    u = uflgen.arg(1, (), cell, g)
    w = uflgen.coef((g,), cell, g)
    vv = uflgen.arg(0, (g,), cell, g)
    x = ufl.SpatialCoordinate(m)
    dx, ds = ufl.dx(m), ufl.ds(m)
    out = [
        ("mass", f * v * dx),
        ("stiff", ufl.inner(ufl.grad(u), ufl.grad(v)) * dx),
        ("nonlin", (1 + f * f) * ufl.inner(ufl.grad(h), ufl.grad(v)) * dx),
        ("vecmass", ufl.inner(w, vv) * dx),
        ("div", ufl.div(w) * v * dx),
        ("coordw", x[0] * f * v * dx),
        ("cond", ufl.conditional(ufl.gt(f, 0), f, -f) * v * dx),
        ("sinf", ufl.sin(f) * v * dx),
        ("bmass", f * v * ds),
        # explicit Jacobian products: J*K is the identity only when gdim == tdim (tangential projector otherwise)
        ("jk", ufl.inner(ufl.dot(C.Jacobian(m) * C.JacobianInverse(m), w), vv) * dx),
        ("kj", ufl.inner(ufl.dot(C.JacobianInverse(m) * C.Jacobian(m), ufl.as_vector([w[k_] for k_ in range(td)])),
                         ufl.as_vector([vv[k_] for k_ in range(td)])) * dx),
    ]
    if td == g:
        out.append(("volw", C.CellVolume(m) * f * v * dx))
    if td == g and td > 1:
        out.append(("flux", ufl.dot(ufl.grad(f), ufl.FacetNormal(m)) * v * ds))
    if td == g and td >= 2:
        rt = FiniteElement("RT", m.ufl_cell(), 1, (td,), contravariant_piola, HDiv)
        ned = FiniteElement("N1curl", m.ufl_cell(), 1, (td,), covariant_piola, HCurl)
        srt = ufl.FunctionSpace(m, rt)
        sned = ufl.FunctionSpace(m, ned)
        out.append(("rtmass", ufl.inner(ufl.Coefficient(srt), ufl.TestFunction(srt)) * dx))
        out.append(("nedmass", ufl.inner(ufl.Coefficient(sned), ufl.TestFunction(sned)) * dx))
        # "blocked" Piola elements: tensor-valued, the LAST axis is the mapped one
        bcov = FiniteElement("blocked N1curl", m.ufl_cell(), 1, (td, td), covariant_piola, HCurl)
        bcon = FiniteElement("blocked RT", m.ufl_cell(), 1, (td, td), contravariant_piola, HDiv)
        At = uflgen.coef((td, g), cell, g)
        out.append(("blkcov", ufl.inner(ufl.Coefficient(ufl.FunctionSpace(m, bcov)), At) * dx))
        out.append(("blkcon", ufl.inner(ufl.Coefficient(ufl.FunctionSpace(m, bcon)), At) * dx))
    return m, out


def zoo_interior(cell, g):
    """single-integral INTERIOR-FACET forms (gdim == tdim): restrictions are propagated at the very end of the
    pipeline (FormData.__init__), after pullbacks / scaling / lowering have acted under the Restricted nodes"""
    m = uflgen.mesh(cell, g)
    td = m.topological_dimension
    f = uflgen.coef((), cell, g, degree=2)
    fc = uflgen.coef((), cell, g)
    v = uflgen.arg(0, (), cell, g)
    u = uflgen.arg(1, (), cell, g)
    x = ufl.SpatialCoordinate(m)
    n = ufl.FacetNormal(m)
    dS = ufl.dS(m)
    out = [
        ("Smass", f("+") * v("-") * dS),
        ("Sjump", ufl.jump(f) * ufl.jump(v) * dS),
        ("Savg", ufl.avg(f) * ufl.avg(v) * dS),
        ("Sflux", ufl.dot(ufl.grad(f)("+"), n("+")) * v("+") * dS),
        ("Sfluxm", ufl.dot(ufl.grad(f)("-"), n("-")) * v("-") * dS),
        ("Sip", ufl.inner(ufl.avg(ufl.grad(u)), ufl.jump(v, n)) * dS),
        ("Sjumpn", ufl.jump(ufl.grad(f), n) * v("+") * dS),
        ("Scoord", x[0]("-") * f("-") * v("+") * dS),
        ("Sdefault", fc * x[0] * v("+") * dS),          # unrestricted continuous data: default restriction
        ("Sfarea", C.FacetArea(m) * f("+") * v("+") * dS) if td > 1 else None,
        ("Sfarea2", C.FacetArea(m)("+") * f("-") * v("+") * dS) if td > 1 else None,
        ("Svol", C.CellVolume(m)("-") * f("-") * v("+") * dS),
    ]
    out = [o for o in out if o is not None]
    if td >= 2:
        rt = FiniteElement("RT", m.ufl_cell(), 1, (td,), contravariant_piola, HDiv)
        srt = ufl.FunctionSpace(m, rt)
        out.append(("Srt", ufl.dot(ufl.Coefficient(srt)("+"), n("+")) * v("-") * dS))
    return m, out


def zoo_complex(cell, g):
    """sesquilinear forms for complex_mode=True (the test function is conjugated): conj / real / imag nodes
    survive preprocessing and every stage has to work underneath them"""
    m = uflgen.mesh(cell, g)
    td = m.topological_dimension
    f = uflgen.coef((), cell, g)
    h = uflgen.coef((), cell, g, degree=2)
    v = uflgen.arg(0, (), cell, g)
    u = uflgen.arg(1, (), cell, g)
    w = uflgen.coef((g,), cell, g)
    vv = uflgen.arg(0, (g,), cell, g)
    n = ufl.FacetNormal(m)
    dx, ds, dS = ufl.dx(m), ufl.ds(m), ufl.dS(m)
    out = [
        ("Cmass", ufl.inner(f, v) * dx),
        ("Cstiff", ufl.inner(ufl.grad(u), ufl.grad(v)) * dx),
        ("Cnonlin", (1 + f * ufl.conj(f)) * ufl.inner(ufl.grad(h), ufl.grad(v)) * dx),
        ("Cvec", ufl.inner(w, vv) * dx),
        ("Cdiv", ufl.inner(ufl.div(w), v) * dx),
        ("Creim", (ufl.real(f) + ufl.imag(h)) * ufl.conj(v) * dx),
        ("Cbmass", ufl.inner(f, v) * ds),
    ]
    if td == g and td > 1:
        out.append(("Cflux", ufl.inner(ufl.dot(ufl.grad(f), n), v) * ds))
    if td == g:
        out.append(("CSjump", ufl.inner(ufl.jump(f), ufl.jump(v)) * dS))
        out.append(("CSip", ufl.inner(ufl.avg(ufl.grad(u)), ufl.jump(v, n)) * dS))
    if td == g and td >= 2:
        rt = FiniteElement("RT", m.ufl_cell(), 1, (td,), contravariant_piola, HDiv)
        srt = ufl.FunctionSpace(m, rt)
        out.append(("Crt", ufl.inner(ufl.Coefficient(srt), ufl.TestFunction(srt)) * dx))
    return m, out


def walk_sides(e, side=None, acc=None):
    """{terminal: set of restriction contexts (None, '+', '-') it occurs in}"""
    acc = {} if acc is None else acc
    stack = [(e, side)]
    seen = set()
    while stack:
        a, sd = stack.pop()
        if (id(a), sd) in seen:
            continue
        seen.add((id(a), sd))
        if isinstance(a, C.Restricted):
            stack.append((a.ufl_operands[0], a.side()))
        elif a._ufl_is_terminal_:
            acc.setdefault(a, set()).add(sd)
        else:
            stack.extend((o, sd) for o in a.ufl_operands)
    return acc


def single_valued(t):
    """terminals whose value on an interior facet does not depend on the side (continuity laws of C17)"""
    from ufl.sobolevspace import H1
    if isinstance(t, (C.Coefficient, C.Argument)):
        return t.ufl_element() in H1
    return isinstance(t, (C.Constant, C.SpatialCoordinate, C.FacetArea, C.MinFacetEdgeLength, C.MaxFacetEdgeLength,
                          C.FacetJacobian, C.FacetJacobianDeterminant, C.FacetJacobianInverse, C.FacetOrigin,
                          C.ReferenceCellVolume, C.ReferenceFacetVolume))


SIDE_TXT = {None: "None", "+": "(Some true)", "-": "(Some false)"}


def spec_pullback(t):
    """The declared push-forward of a form argument, written down independently of ufl/pullback.py for the
    leaf pullbacks identity / covariant Piola / contravariant Piola (leading axes pass through, the last
    axis is mapped); None for every other element (then the traced apply_function_pullbacks is used)."""
    from ufl.pullback import ContravariantPiola, CovariantPiola, IdentityPullback
    el = t.ufl_element()
    pb = el.pullback
    if el.sub_elements or type(pb) not in (IdentityPullback, CovariantPiola, ContravariantPiola):
        return None
    r = C.ReferenceValue(t)
    if isinstance(pb, IdentityPullback):
        return r
    m = t.ufl_domain()
    lead = ufl.indices(len(r.ufl_shape) - 1)
    i, j = ufl.indices(2)
    if isinstance(pb, CovariantPiola):
        body = C.JacobianInverse(m)[j, i] * r[lead + (j,)]
    else:
        body = (1.0 / C.JacobianDeterminant(m)) * C.Jacobian(m)[i, j] * r[lead + (j,)]
    return ufl.as_tensor(body, lead + (i,))


def terminals(e):
    return [t for t in unique_pre_traversal(e) if t._ufl_is_terminal_]


def kind_id(ctx, t):
    k, i, sh, _ = ctx.term(t)
    return k, i, sh


def comps(sh):
    return list(itertools.product(*[range(d) for d in sh]))


def build_case(name, m, form, opts, out=None, pres=None, complex_mode=False):
    """returns coqgen.Case or None (skip reason string).  `pres`: the preprocess_form integrands whose SUM
    the output integrand must equal (times the scaling factor)"""
    itype = form.integrals()[0].integral_type()
    if out is None:
        try:
            fd = compute_form_data(form, complex_mode=complex_mode, **opts)
        except (Exception, ArityMismatch) as e:  # noqa: BLE001  "preprocessing either does this or raises an error"
            return f"compute_form_data raises {type(e).__name__}: {str(e)[:120]}"
        outs = [itg for idata in fd.integral_data for itg in idata.integrals]
        if len(outs) != 1:
            return f"expected one output integral, got {len(outs)}"
        out = outs[0].integrand()
    if pres is None:
        pres = [preprocess_form(form, complex_mode).integrals()[0].integrand()]
    pre = pres[0]
    scale = ufl.as_ufl(compute_integrand_scaling_factor(form.integrals()[0])[0]) \
        if opts.get("do_apply_integral_scaling") else ufl.as_ufl(1)
    pull = bool(opts.get("do_apply_function_pullbacks"))
    geom = bool(opts.get("do_apply_geometry_lowering"))
    ctx = ufl2coq.Ctx()
    hyps, named = [], {}
    nz = []
    done = set()
    interior = itype == "interior_facet"
    sides = ["(Some true)", "(Some false)"] if interior else ["s"]
    nside = 0
    if interior:
        # single-valued data used without a restriction: its value does not depend on the side (the continuity
        # law of C17); the code picks a default side, the hypothesis points to whichever side the output uses
        occ_in, occ_out = {}, walk_sides(out)
        for p_ in list(pres) + [scale]:
            walk_sides(p_, None, occ_in)
        for t, sds in sorted(occ_in.items(), key=lambda kv: repr(kv[0])):
            if None not in sds or isinstance(t, (C.QuadratureWeight, C.ConstantValue, C.MultiIndex, C.Label)):
                continue
            if not single_valued(t):
                continue        # no law: silently picking a side for it cannot be proved
            used = occ_out.get(t, set())
            if None in used and len(used) == 1:
                continue
            tgt = "+" if "+" in used or "-" not in used else "-"
            named[f"U{nside}"] = t
            for c in comps(t.ufl_shape):
                cl = ufl2coq.natlist(c)
                hyps.append(f"DEN None rho {{U{nside}}} {cl} = DEN {SIDE_TXT[tgt]} rho {{U{nside}}} {cl}")
            nside += 1
        # affine non-manifold mesh: the two facet normals are opposite (C17); only needed while the normal is
        # not lowered to per-side reference data
        if not geom and any(isinstance(t, C.FacetNormal) for t in occ_in):
            nrm = next(t for t in occ_in if isinstance(t, C.FacetNormal))
            named["NRM"] = nrm
            for c in comps(nrm.ufl_shape):
                cl = ufl2coq.natlist(c)
                hyps.append(f"DEN (Some false) rho {{NRM}} {cl} = opp (DEN (Some true) rho {{NRM}} {cl})")
    nlaw = len(hyps)
    todo = [t for p_ in pres for t in terminals(p_)] + list(terminals(scale)) + [C.JacobianInverse(m)]  # K: chain rule
    nh = 0
    while todo:
        t = todo.pop()
        if t in done:
            continue
        done.add(t)
        repl = None
        if pull and isinstance(t, (C.Coefficient, C.Argument)):
            repl = spec_pullback(t)
            if repl is None:
                repl = apply_function_pullbacks(t)
        elif geom and isinstance(t, C.GeometricQuantity) and not isinstance(t, (C.SpatialCoordinate, C.QuadratureWeight)):
            repl = apply_geometry_lowering(t)
            if repl == t:
                repl = None
        if repl is None:
            continue
        key = f"R{nh}"
        nh += 1
        named[key + "t"] = t
        named[key + "r"] = repl
        for c in comps(t.ufl_shape):
            cl = ufl2coq.natlist(c)
            for sd in sides:
                hyps.append(f"DEN {sd} rho {{{key}t}} {cl} = DEN {sd} rho {{{key}r}} {cl}")
        todo.extend(terminals(repl))
    if interior:
        # constants of the reference cell / global constants are the same seen from either side
        k_ = 0
        for t in sorted(done, key=repr):
            if isinstance(t, (C.ReferenceCellVolume, C.ReferenceFacetVolume, C.Constant)):
                named[f"Q{k_}"] = t
                for c in comps(t.ufl_shape):
                    cl = ufl2coq.natlist(c)
                    for sd in sides:
                        hyps.append(f"DEN {sd} rho {{Q{k_}}} {cl} = DEN None rho {{Q{k_}}} {cl}")
                k_ += 1
    # non-degeneracy: the Jacobian determinant (as lowered, or as the terminal) is non-zero
    detJ = C.JacobianDeterminant(m)
    named["DJ"] = apply_geometry_lowering(detJ) if geom else detJ
    for sd in sides:
        hyps.append(f"DEN {sd} rho {{DJ}} [] <> z0")
    # ... and so is the Gram determinant of the Jacobian (what the pseudo-inverse divides by on manifolds)
    jac = C.Jacobian(m)
    named["JAC"] = apply_geometry_lowering(jac) if geom else jac
    gd_, td_ = jac.ufl_shape
    for sd in sides:
        hyps.append(f"DET {td_} (GRAM {gd_} (MAT (DEN {sd} rho {{JAC}}))) <> z0")
    nrew = len(hyps) - 2 * len(sides)
    rew = ", ".join(f"?H{k}" for k in range(nrew))
    tac = ("norm_goal; " + ("repeat rewrite HchainT; " if interior else "repeat rewrite (Hchain s); ")
           + (f"repeat (progress (rewrite {rew})); " if nrew else "")
           + "finish")
    total = None
    for k, p_ in enumerate(pres):
        named[f"PRE{k}"] = p_
        t_ = f"(DEN {'None' if interior else 's'} rho {name}_PRE{k} [])"
        total = t_ if total is None else f"(add {total} {t_})"
    spec = f"mul (DEN {'None' if interior else 's'} rho {name}_SC []) {total}"
    named["SC"] = scale
    case = coqgen.Case(name, out=out, spec=spec, hyps=hyps, named=named, ctx=ctx, comps=[()], tactic=tac,
                       refvalue_terminal=True, side="None" if interior else "s",
                       note={"integral_type": itype, "options": [k for k, v in opts.items() if v],
                             "complex_mode": complex_mode})
    case.pre, case.scale, case.form, case.pres = pre, scale, form, list(pres)
    return case


def multi_zoo(cell, g):
    """forms with several integrals, including IDENTICAL integrands reaching one subdomain more than once"""
    m = uflgen.mesh(cell, g)
    f = uflgen.coef((), cell, g)
    h = uflgen.coef((), cell, g)
    v = uflgen.arg(0, (), cell, g)
    dx = ufl.dx(m)
    return m, [
        ("dup_ev_1", f * v * dx + f * v * dx(1)),
        ("dup_tuple", f * v * dx((1, 2)) + f * v * dx(2) + h * v * dx),
        ("two_ids", f * v * dx(1) + h * v * dx(2) + f * h * v * dx(1)),
        ("ev_only_twice", f * v * dx + f * v * dx),
    ]


def multi_cases(run, cell, g):
    """one case per OUTPUT integral: its integrand = scale * sum of the input integrands that apply there"""
    m, forms = multi_zoo(cell, g)
    cases, skipped = [], []
    osets = [o for o in option_sets(run.tier)
             if (o["do_apply_function_pullbacks"], o["do_apply_geometry_lowering"], o["do_cancel_jacobian_products"],
                 o["do_remove_component_tensors"]) in ((False, False, False, False), (True, True, False, False))]
    for (fname, form), o in itertools.product(forms, osets):
        tag = "".join("1" if o[k] else "0" for k in OPTS)
        fd = compute_form_data(form, **o)
        pre_integrals = preprocess_form(form, False).integrals()
        for idata in fd.integral_data:
            sid = idata.subdomain_id
            sids = sid if isinstance(sid, tuple) else (sid,)
            for n_, itg in enumerate(idata.integrals):
                # an output integral listed under several ids must equal the sum of applying inputs for EACH id
                for one_sid in sids:
                    applies = []
                    for pi in pre_integrals:
                        ids = pi.subdomain_id()
                        ids = ids if isinstance(ids, tuple) else (ids,)
                        for one in ids:      # an id repeated in a tuple counts with multiplicity
                            if one == "everywhere" or (one_sid != "otherwise" and one == one_sid):
                                applies.append(pi.integrand())
                    if not applies:
                        skipped.append((fname, str(sid), "no input integral applies"))
                        continue
                    sidt = "".join(ch if ch.isalnum() else "_" for ch in str(one_sid))
                    name = f"e2em_{cell[:3]}{g}_{fname}_{tag}_s{sidt}_{n_}"
                    c = build_case(name, m, form, o, out=itg.integrand(), pres=applies)
                    if isinstance(c, str):
                        skipped.append((name, c))
                        continue
                    c.note["subdomain_id"] = str(one_sid)
                    c.note["inputs_applying"] = len(applies)
                    cases.append(c)
                    run.count_case(name)
    return cases, skipped


def header(ctx_probe_kinv, td, g):
    terms = " ".join(f"(mul (env s {ctx_probe_kinv} 0 [{k}; j]) (DX {k} x))" for k in range(td))
    body = None
    for k in range(td):
        t = f"(mul (env s {ctx_probe_kinv} 0 [{k}; j]) (DX {k} x))"
        body = t if body is None else f"(add {body} {t})"
    return (f"(* chain rule through the affine cell map: physical derivative = K^T reference derivative *)\n"
            f"Hypothesis Hchain : forall (s : side) (j : nat) (x : KT), Dx j x = {body}.\n"
            "(* the same law for data living on one side of an interior facet (each side has its own cell map) *)\n"
            f"Hypothesis HchainT : forall (s : side) (kd id_ : nat) (c : list nat) (j : nat), Dx j (env s kd id_ c) = "
            + body.replace(" x)", " (env s kd id_ c))") + ".\n"
            "(* name every distinct function application once (equal arguments are identified by ring) so that the\n"
            "   remaining goal is polynomial in these atoms; linear in the number of distinct atoms *)\n"
            "Ltac abs_fn :=\n"
            "  repeat match goal with\n"
            "  | |- context [fn ?f ?X] =>\n"
            "      first [ match goal with\n"
            "              | a := fn f ?Y |- _ => replace (fn f X) with a by (unfold a; f_equal; ring)\n"
            "              end\n"
            "            | let a := fresh \"sq\" in set (a := fn f X) in * ]\n"
            "  end.\n"
            "Ltac abs_un u :=\n"
            "  repeat match goal with\n"
            "  | |- context [u ?X] =>\n"
            "      lazymatch X with context [u _] => fail | _ => idtac end;   (* innermost first *)\n"
            "      first [ match goal with\n"
            "              | a := u ?Y |- _ => replace (u X) with a by (unfold a; f_equal; ring)\n"
            "              end\n"
            "            | let a := fresh \"at\" in set (a := u X) in * ]\n"
            "  end.\n"
            "Ltac abs_all := abs_fn; abs_un abs; abs_un re; abs_un im; abs_un conj.\n"
            "Ltac finish := first [ reflexivity | ring\n"
            "                     | abs_all; first [ reflexivity | ring | field; nz_solve char0 ]\n"
            "                     | field; nz_solve char0\n"
            "                     | repeat unify1; first [ reflexivity | ring | field; nz_solve char0 ] ].\n")


def option_sets(tier):
    sets = []
    for bits in itertools.product([False, True], repeat=len(OPTS)):
        o = dict(zip(OPTS, bits))
        if o["do_cancel_jacobian_products"] and not o["do_apply_geometry_lowering"]:
            continue        # same pipeline as without cancel (extracted pipeline shows it), skip duplicates
        sets.append(o)
    return sets


def run_end_to_end(run):
    kinv = ufl2coq.KIND_OF_GEOMETRY["JacobianInverse"]
    # ("interval", 2): an immersed manifold (gdim > tdim) is part of the quick tier as well
    cells = [("triangle", 2), ("interval", 1), ("interval", 2)] + \
        ([("tetrahedron", 3), ("triangle", 3)] if run.tier == "thorough" else [])
    skipped = []
    for cell, g in cells:
        m, forms = zoo(cell, g)
        td = m.topological_dimension
        cases = []
        for (fname, form), o in itertools.product(forms, option_sets(run.tier)):
            tag = "".join("1" if o[k] else "0" for k in OPTS)
            name = f"e2e_{cell[:3]}{g}_{fname}_{tag}"
            try:
                c = build_case(name, m, form, o)
            except ufl2coq.Unsupported as e:
                skipped.append((name, f"unsupported node: {e}"))
                continue
            if isinstance(c, str):
                skipped.append((name, c))
                continue
            cases.append(c)
            run.count_case(name)
        if (cell, g) == ("triangle", 2):
            mc, msk = multi_cases(run, cell, g)
            cases += mc
            skipped += msk
        if cases:
            run.sample({"case": cases[len(cases) // 2].name, "options": cases[len(cases) // 2].note,
                        "preprocessed_integrand": str(cases[len(cases) // 2].out)[:300]})
        t0_ = time.time()
        failing = coqgen.emit_and_check(run, f"C01e2e_{cell[:3]}{g}", cases, extra_header=header(kinv, td, g),
                                        timeout=900)
        run.extra.setdefault("e2e_group_wall_s", {})[f"{cell}{g}:{len(cases)}:{t0_:.0f}"] = round(time.time() - t0_)
        seen = set()
        for case, lemma, msg in failing:
            if case is None or case.name in seen:
                if case is None:
                    run.violation({"broken": "generated end-to-end obligations do not compile", "message": msg}, False)
                continue
            seen.add(case.name)
            w = numeric_check(case.form, {k: (k in case.note["options"]) for k in OPTS}, trials=6, seed=run.seed,
                              out=case.out, pres=case.pres)
            rep = {"broken_obligation": lemma, "case": case.name, "note": case.note, "coq_message": msg,
                   "form": str(case.form)[:500], "preprocessed_integrand": str(case.out)[:1500],
                   "reproduce": "bin/check C01"}
            if w:
                rep["witness"] = w
            run.violation(rep, bool(w))
    # interior-facet integrals (restrictions are propagated last; two cell maps per facet)
    icells = [("triangle", 2), ("interval", 1)] + ([("tetrahedron", 3)] if run.tier == "thorough" else [])
    for cell, g in icells:
        m, forms = zoo_interior(cell, g)
        td = m.topological_dimension
        cases = []
        for (fname, form), o in itertools.product(forms, option_sets(run.tier)):
            tag = "".join("1" if o[k] else "0" for k in OPTS)
            name = f"e2eS_{cell[:3]}{g}_{fname}_{tag}"
            try:
                c = build_case(name, m, form, o)
            except ufl2coq.Unsupported as e:
                skipped.append((name, f"unsupported node: {e}"))
                continue
            if isinstance(c, str):
                skipped.append((name, c))
                continue
            cases.append(c)
            run.count_case(name)
        t0_ = time.time()
        failing = coqgen.emit_and_check(run, f"C01e2eS_{cell[:3]}{g}", cases, extra_header=header(kinv, td, g),
                                        timeout=900)
        run.extra.setdefault("e2e_group_wall_s", {})[f"{cell}{g}:{len(cases)}:{t0_:.0f}"] = round(time.time() - t0_)
        seen = set()
        for case, lemma, msg in failing:
            if case is None or case.name in seen:
                if case is None:
                    run.violation({"broken": "generated interior-facet obligations do not compile", "message": msg}, False)
                continue
            seen.add(case.name)
            w = numeric_check(case.form, {k: (k in case.note["options"]) for k in OPTS}, trials=6, seed=run.seed,
                              out=case.out, pres=case.pres)
            rep = {"broken_obligation": lemma, "case": case.name, "note": case.note, "coq_message": msg,
                   "form": str(case.form)[:500], "preprocessed_integrand": str(case.out)[:1500],
                   "reproduce": "bin/check C01"}
            if w:
                rep["witness"] = w
            run.violation(rep, bool(w))
    # complex mode: sesquilinear forms, conj/real/imag survive and every stage works underneath them
    ccells = [("triangle", 2)] + ([("interval", 1), ("tetrahedron", 3)] if run.tier == "thorough" else [])
    for cell, g in ccells:
        m, forms = zoo_complex(cell, g)
        td = m.topological_dimension
        cases = []
        for (fname, form), o in itertools.product(forms, option_sets(run.tier)):
            tag = "".join("1" if o[k] else "0" for k in OPTS)
            name = f"e2eC_{cell[:3]}{g}_{fname}_{tag}"
            try:
                c = build_case(name, m, form, o, complex_mode=True)
            except ufl2coq.Unsupported as e:
                skipped.append((name, f"unsupported node: {e}"))
                continue
            if isinstance(c, str):
                skipped.append((name, c))
                continue
            cases.append(c)
            run.count_case(name)
        t0_ = time.time()
        failing = coqgen.emit_and_check(run, f"C01e2eC_{cell[:3]}{g}", cases, extra_header=header(kinv, td, g),
                                        timeout=900)
        run.extra.setdefault("e2e_group_wall_s", {})[f"{cell}{g}:{len(cases)}:{t0_:.0f}"] = round(time.time() - t0_)
        seen = set()
        for case, lemma, msg in failing:
            if case is None or case.name in seen:
                if case is None:
                    run.violation({"broken": "generated complex-mode obligations do not compile", "message": msg}, False)
                continue
            seen.add(case.name)
            w = numeric_check(case.form, {k: (k in case.note["options"]) for k in OPTS}, trials=6, seed=run.seed,
                              out=case.out, pres=case.pres, complex_mode=True)
            rep = {"broken_obligation": lemma, "case": case.name, "note": case.note, "coq_message": msg,
                   "form": str(case.form)[:500], "preprocessed_integrand": str(case.out)[:1500],
                   "reproduce": "bin/check C01"}
            if w:
                rep["witness"] = w
            run.violation(rep, bool(w))
    raised = [x for x in skipped if str(x[-1]).startswith("compute_form_data raises")]
    run.extra["e2e_raised_allowed_by_statement"] = {"count": len(raised), "examples": raised[:6]}
    run.extra["e2e_skipped"] = [x for x in skipped if x not in raised][:40]


# ---------------------------------------------------------------------------------------------------
# numeric oracle (search only): evaluate the preprocessed integrand with reference-frame data and the
# original integrand with physical data on a random affine cell

class FrameEnv(pyden.Env):
    """Random affine map x = x0 + J X (square, invertible) and random polynomial fields in x.
    Physical terminals are evaluated as jets in x; reference derivatives are K^T-transformed."""

    def __init__(self, m, seed, complex_values=False):
        g = m.geometric_dimension
        g = g() if callable(g) else g
        super().__init__(nv=g, order=2, seed=seed, complex_values=complex_values)
        self.g = g
        td = m.topological_dimension
        td = td() if callable(td) else td
        self.td = td
        rng = self.rng

        def cellmap():
            """random affine cell map: J (g x td, full rank), K = (pseudo-)inverse, detJ = (pseudo-)determinant"""
            while True:
                J = [[pyden.Fraction(rng.randint(-3, 3), rng.choice([1, 2])) for _ in range(td)] for _ in range(g)]
                G = [[sum(J[r][a] * J[r][b] for r in range(g)) for b in range(td)] for a in range(td)]
                dG = pyden.det_f(td, lambda i, j: G[i][j])
                if dG != 0:
                    break
            Gi = [[pyden.cof_f(td, lambda i, j: G[i][j], j, i) / dG for j in range(td)] for i in range(td)]
            K = [[sum(Gi[a][b] * J[r][b] for b in range(td)) for r in range(g)] for a in range(td)]
            if td == g:
                d = pyden.det_f(g, lambda i, j: J[i][j])
            else:
                d = math.sqrt(float(dG))
            return J, K, d
        J, K, d = cellmap()
        self.J, self.K, self.detJ = J, K, d
        # interior facets: each side has its own cell map (side None keeps the first one)
        self.Js, self.Ks, self.dets = {None: J, "+": J}, {None: K, "+": K}, {None: d, "+": d}
        self.Js["-"], self.Ks["-"], self.dets["-"] = cellmap()

    def side_dependent(self, t):
        return not single_valued(t)

    reference_value = True      # pyden: ReferenceValue nodes are evaluated by value() below

    def value(self, t, comp, side):
        """reference value of a form argument = the inverse of its declared push-forward applied to the
        physical field (identity / covariant / contravariant Piola leaves; anything else is unsupported)"""
        if isinstance(t, C.ReferenceValue):
            from ufl.pullback import ContravariantPiola, CovariantPiola, IdentityPullback
            f = t.ufl_operands[0]
            el = f.ufl_element()
            pb = el.pullback
            if isinstance(pb, IdentityPullback):
                return super().value(f, comp, side)
            if el.sub_elements or not isinstance(pb, (CovariantPiola, ContravariantPiola)):
                raise pyden.Unsupported("reference value of a non-leaf / other pullback")
            lead, j = tuple(comp[:-1]), comp[-1]
            tot = self.zero()
            for i in range(self.g):
                fi = super().value(f, lead + (i,), side)
                if isinstance(pb, CovariantPiola):      # f_i = K[j,i] r_j   =>  r_j = J[i,j] f_i
                    tot = tot + fi * self.Js[side][i][j]
                else:                                   # f_i = J[i,j] r_j / detJ  =>  r_j = detJ K[j,i] f_i
                    tot = tot + fi * (self.dets[side] * self.Ks[side][j][i])
            return tot
        if isinstance(t, C.GeometricQuantity) and getattr(self, "t_" + type(t).__name__, None) is None \
                and not single_valued(t):
            # a derived geometric quantity has the value of its lowered form (reference-cell data stay free)
            low = apply_geometry_lowering(t)
            if low != t:
                return pyden._ev(low, self, {}, tuple(comp), side, {})
        return super().value(t, comp, side)

    def t_Jacobian(self, t, c, side):
        return self.const(self.Js[side][c[0]][c[1]])

    def t_JacobianInverse(self, t, c, side):
        return self.const(self.Ks[side][c[0]][c[1]])

    def t_JacobianDeterminant(self, t, c, side):
        return self.const(self.dets[side])

    def t_FacetNormal(self, t, c, side):
        # affine non-manifold mesh: the two normals are opposite (only used while the normal is not lowered)
        base = self.field(("facet normal", tuple(c)), constant=True)
        return base * pyden.Fraction(-1) if side == "-" else base

    def t_QuadratureWeight(self, t, c, side):
        return self.const(pyden.Fraction(1, 3))

    def refgrad(self, a, c, k, rho, side, memo):
        # d/dX_k = sum_i J[i][k] d/dx_i
        tot = self.zero()
        sd = a.side() if isinstance(a, C.Restricted) else side     # reference_grad((f)(-)): the cell map of that side
        for i in range(self.g):
            tot = tot + pyden._ev(a, self, rho, tuple(c), side, memo).diff(i) * self.Js[sd][i][k]
        return tot


def numeric_check(form, opts, trials=6, seed=0, out=None, pres=None, complex_mode=False):
    """identity-pullback, cell-integral forms only: compare values numerically; returns a witness or None.
    `out` / `pres`: one output integrand and the preprocessed input integrands whose sum it must equal"""
    try:
        m = form.ufl_domains()[0]
        gd = m.geometric_dimension
        gd = gd() if callable(gd) else gd
        td = m.topological_dimension
        td = td() if callable(td) else td
        manifold = td != gd
        if out is None:
            fd = compute_form_data(form, complex_mode=complex_mode, **opts)
            out = fd.integral_data[0].integrals[0].integrand()
        if pres is None:
            pres = [preprocess_form(form, complex_mode).integrals()[0].integrand()]
        itype = form.integrals()[0].integral_type()
        if itype not in ("cell", "interior_facet"):
            return None
        if itype == "interior_facet" and opts.get("do_apply_geometry_lowering"):
            return None     # would need a geometrically consistent pair of cells; search the unlowered option sets
        from ufl.pullback import ContravariantPiola, CovariantPiola, IdentityPullback
        for a_ in list(form.arguments()) + list(form.coefficients()):
            el_ = a_.ufl_element()
            if not (isinstance(el_.pullback, IdentityPullback) or
                    (not el_.sub_elements and isinstance(el_.pullback, (CovariantPiola, ContravariantPiola)))):
                return None
        rng = random.Random(seed)
        for t in range(trials):
            env = FrameEnv(m, rng.randrange(10**9), complex_values=complex_mode)
            a = pyden.evaluate(out, env)
            b = None
            for p_ in pres:
                v_ = pyden.evaluate(p_, env)
                b = v_ if b is None else b + v_
            if manifold and (itype != "cell" or any(
                    isinstance(n_, (C.Grad, C.ReferenceGrad, C.Div, C.Curl, C.NablaGrad, C.NablaDiv))
                    for e_ in [out] + list(pres) for n_ in unique_pre_traversal(e_))):
                return None     # on an immersed cell the jets know the full, not the tangential, gradient
            if opts.get("do_apply_integral_scaling"):
                if itype == "cell":
                    b = b * abs(env.detJ) * pyden.Fraction(1, 3)
                else:
                    sc = ufl.as_ufl(compute_integrand_scaling_factor(form.integrals()[0])[0])
                    b = b * pyden.evaluate(sc, env)
            va, vb = a.value(), b.value()
            if isinstance(va, pyden.Fraction) and isinstance(vb, pyden.Fraction):
                differ = va != vb
            else:
                differ = abs(complex(va) - complex(vb)) > 1e-7 * (1 + abs(complex(va)) + abs(complex(vb)))
            if differ:
                return {"options": [k for k, v in opts.items() if v], "form": str(form)[:300],
                        "output_integrand": str(out)[:300], "inputs_applying_there": [str(p_)[:120] for p_ in pres],
                        "J": [[str(x) for x in r] for r in env.J],
                        "preprocessed_value": str(a.value()), "expected_scale_times_original": str(b.value())}
    except (Exception, ArityMismatch):  # noqa: BLE001
        return None
    return None


def numeric_search():
    for cell, g in (("triangle", 2),):
        m, forms = zoo(cell, g)
        for (fname, form), o in itertools.product(forms[:6], option_sets("quick")):
            w = numeric_check(form, o, trials=3)
            if w:
                return w
    return None
