"""Shared by C29 / C12: map real UFL expressions to the tree type of coq/Props/C29_model.v, emit Gallina
text, a Python mirror of the model (only used for classification and search, the Coq evaluation is the
correspondence), and a seeded generator of related pairs/triples of expressions."""

import random

import ufl
from ufl.classes import (Argument, Coefficient, Constant, Expr, ExprList, FixedIndex, Index, Label,
                         MultiIndex)
from ufl.domain import Mesh

import elements


class TieBroken(Exception):
    """The mapping model<->code cannot be established (fail closed)."""


# ------------------------------------------------------------------------------------------------
# mapping Expr -> tree  (python form: ('L', tc, data) | ('N', tc, (children...)))
# data: ('M', ((fixed?, n),...)) | ('A', number, part|None, fs) | ('C', count, fs) | ('B', count)
#       | ('R', (('lit', s) | ('cnt', 'CConstant'|'CMesh', n), ...))

def _mesh_pieces(m):
    rm = repr(m)
    head = "Mesh(" + repr(m.ufl_coordinate_element()) + ", "
    if rm != head + str(m.ufl_id()) + ")":
        raise TieBroken(f"Mesh.__repr__ no longer 'Mesh(<element>, <id>)': {rm}")
    return rm, [("lit", head), ("cnt", "CMesh", m.ufl_id()), ("lit", ")")]


def repr_pieces(t):
    """Pieces of repr(t): literal text + the global counters it contains (mesh ids, Constant count)."""
    r = repr(t)
    if not r.isascii():
        raise TieBroken("non-ASCII repr: " + r)
    pieces = [("lit", r)]
    tail = None
    if isinstance(t, Constant):
        suffix = f", {t.count()})"
        if not r.endswith(suffix):
            raise TieBroken("Constant.__repr__ does not end with its count: " + r)
        pieces = [("lit", r[:-len(suffix)] + ", ")]
        tail = [("cnt", "CConstant", t.count()), ("lit", ")")]
    meshes = []
    try:
        for d in t.ufl_domains():
            for m in getattr(d, "meshes", (d,)):
                if isinstance(m, Mesh) and m not in meshes:
                    meshes.append(m)
    except Exception:
        meshes = []
    for m in meshes:
        rm, mp = _mesh_pieces(m)
        new = []
        for p in pieces:
            if p[0] != "lit":
                new.append(p)
                continue
            parts = p[1].split(rm)
            for k, s in enumerate(parts):
                if k:
                    new.extend(mp)
                if s:
                    new.append(("lit", s))
        pieces = new
    if tail:
        pieces = pieces + tail
    # merge adjacent literals
    out = []
    for p in pieces:
        if p[0] == "lit" and out and out[-1][0] == "lit":
            out[-1] = ("lit", out[-1][1] + p[1])
        else:
            out.append(p)
    if render(out) != r:
        raise TieBroken("repr pieces do not reproduce repr: " + r)
    return tuple(out)


def render(pieces):
    return "".join(p[1] if p[0] == "lit" else str(p[2]) for p in pieces)


class Mapper:
    def __init__(self):
        from ufl import sorting
        self.table = dict(sorting._terminal_cmps)
        self.fs_ids = {}
        self.memo = {}
        self.unknown_comparators = set()

    def fs(self, V):
        return self.fs_ids.setdefault(repr(V), len(self.fs_ids))

    def terminal_data(self, t):
        tc = t._ufl_typecode_
        f = self.table.get(tc)
        name = getattr(f, "__name__", None)
        if f is None:
            return ("R", repr_pieces(t))
        if name == "_cmp_multi_index" or isinstance(t, MultiIndex):
            idx = []
            for i in t._indices:
                if isinstance(i, FixedIndex):
                    if i._value < 0:
                        raise TieBroken("negative FixedIndex")
                    idx.append((True, int(i._value)))
                elif isinstance(i, Index):
                    idx.append((False, i.count()))
                else:
                    raise TieBroken("unknown index type")
            return ("M", tuple(idx))
        if name == "_cmp_argument":
            return ("A", t.number(), t.part(), self.fs(t.ufl_function_space()))
        if name == "_cmp_label":
            return ("B", t.count())
        if name == "_cmp_coefficient":
            return ("C", t.count(), self.fs(t.ufl_function_space()))
        if name == "_cmp_geometric_quantity":
            # repaired comparator: coordinate element repr, then the mesh id as an integer, then repr
            d = t.ufl_domains()[0]
            ms = getattr(d, "meshes", None)
            if not isinstance(d, Mesh) or ms is None or len(ms) != 1:
                raise TieBroken("geometric quantity on a domain that is not a single Mesh")
            key = repr(d.ufl_coordinate_element())
            if not key.isascii() or repr(t) != f"{type(t).__name__}(Mesh({key}, {d.ufl_id()}))":
                raise TieBroken("repr of a geometric quantity is not ClassName(Mesh(<element>, <id>)): " + repr(t))
            return ("G", key, d.ufl_id())
        if hasattr(t, "_count"):
            # a terminal class newly registered with a comparator: assume a numeric count comparison
            # (the correspondence check validates the assumption)
            return ("C", t.count(), self.fs(repr(type(t)) + repr(getattr(t, "ufl_shape", None))))
        # a comparator the model does not know: keep the model of the pinned behaviour (order by repr);
        # the correspondence and the property oracles decide whether the new comparator is acceptable
        self.unknown_comparators.add(f"{name} for {type(t).__name__}")
        return ("R", repr_pieces(t))

    def tree(self, e):
        k = id(e)
        hit = self.memo.get(k)
        if hit is not None and hit[0] is e:
            return hit[1]
        tc = e._ufl_typecode_
        if e._ufl_is_terminal_:
            t = ("L", tc, self.terminal_data(e))
        else:
            t = ("N", tc, tuple(self.tree(o) for o in e.ufl_operands))
        self.memo[k] = (e, t)
        return t


# ------------------------------------------------------------------------------------------------
# Gallina emission with sharing

def gstr(s):
    return '"' + s.replace('"', '""') + '"'


class Emitter:
    """Emits `Definition x<k> : tree := ...` once per distinct subtree; returns the name.  Number and
    string literals are emitted once each as named constants (Coq's literal notations are slow)."""

    def __init__(self, prefix="x"):
        self.names = {}
        self.lines = []
        self.prefix = prefix
        self.nums = {}
        self.strs = {}

    def num(self, n):
        n = int(n)
        if n < 0:
            raise TieBroken("negative number")
        if n not in self.nums:
            self.nums[n] = f"n{n}"
            self.lines.append(f"Definition n{n} : N := {n}%N.")
        return self.nums[n]

    def str(self, s):
        if s not in self.strs:
            self.strs[s] = f"s{len(self.strs)}"
            self.lines.append(f"Definition {self.strs[s]} : string := {gstr(s)}%string.")
        return self.strs[s]

    def data(self, d):
        k = d[0]
        if k == "M":
            return "TMulti [" + "; ".join(("Fixed %s" if fx else "Free %s") % self.num(n) for fx, n in d[1]) + "]"
        if k == "A":
            part = "None" if d[2] is None else f"(Some {self.num(d[2])})"
            return f"TArg {self.num(d[1])} {part} {self.num(d[3])}"
        if k == "C":
            return f"TCoef {self.num(d[1])} {self.num(d[2])}"
        if k == "B":
            return f"TLabel {self.num(d[1])}"
        if k == "G":
            return f"TGeo {self.str(d[1])} {self.num(d[2])}"
        if k == "R":
            ps = "; ".join(f"PLit {self.str(p[1])}" if p[0] == "lit" else f"PCnt {p[1]} {self.num(p[2])}"
                           for p in d[1])
            return f"TRepr [{ps}]"
        raise TieBroken("bad data")

    def name(self, t):
        n = self.names.get(t)
        if n is not None:
            return n
        if t[0] == "L":
            body = f"Leaf {self.num(t[1])} ({self.data(t[2])})"
        else:
            body = f"Node {self.num(t[1])} [" + "; ".join(self.name(c) for c in t[2]) + "]"
        n = f"{self.prefix}{len(self.names)}"
        self.names[t] = n
        self.lines.append(f"Definition {n} : tree := {body}.")
        return n


def header(modules=("Props.C29_model",), zarith=False):
    """Preamble of a generated file importing the given hand-written modules (C11 and C12 build on the C29
    model and add their own; they ask for their modules by name rather than patching HEADER's text)."""
    libs = "String Ascii NArith ZArith Bool List" if zarith else "String Ascii NArith Bool List"
    return (f"From Coq Require Import {libs}.\n"
            f"From UFLV Require Import {' '.join(modules)}.\n"
            "Import ListNotations.\nOpen Scope N_scope.\nOpen Scope string_scope.\n")


HEADER = header(("Props.C29_model", "Props.C29_sorted"))

CMPNAME = {-1: "Lt", 0: "Eq", 1: "Gt"}


# ------------------------------------------------------------------------------------------------
# Python mirror of the model (classification / search only)

def _c(x, y):
    return -1 if x < y else (1 if x > y else 0)


def m_zipc(l1, l2, strict=False):
    for (f1, n1), (f2, n2) in zip(l1, l2):
        if f1 and f2:
            c = _c(n1, n2)
            if c:
                return c
        elif f1:
            return -1
        elif f2:
            return 1
    return _c(len(l1), len(l2)) if strict else 0


_KIND = {"M": 0, "A": 1, "C": 2, "B": 3, "R": 4, "G": 5}


def m_cmp_data(d, e, strict=False):
    if d[0] != e[0]:
        return _c(_KIND[d[0]], _KIND[e[0]])
    k = d[0]
    if k == "M":
        return m_zipc(d[1], e[1], strict)
    if k == "A":
        c = _c(d[1], e[1])
        if c:
            return c
        p, q = d[2], e[2]
        if p is None or q is None:
            return _c(p is not None, q is not None)
        return _c(p, q)
    if k == "C":
        return _c(d[1], e[1])
    if k == "B":
        return 0
    if k == "G":
        return _c(d[1], e[1]) or _c(d[2], e[2])
    return _c(render(d[1]), render(e[1]))


def m_cmp(a, b, strict=False):
    c = _c(a[1], b[1])
    if c:
        return c
    if a[0] != b[0]:
        return -1 if a[0] == "L" else 1
    if a[0] == "L":
        return m_cmp_data(a[2], b[2], strict)
    c = _c(len(a[2]), len(b[2]))
    if c:
        return c
    for x, y in reversed(list(zip(a[2], b[2]))):
        c = m_cmp(x, y, strict)
        if c:
            return c
    return 0


def m_aligned(a, b):
    if a[0] != b[0] or a[1] != b[1]:
        return True
    if a[0] == "L":
        if a[2][0] == "M" and b[2][0] == "M":
            return len(a[2][1]) == len(b[2][1]) or m_zipc(a[2][1], b[2][1]) != 0
        return True
    if len(a[2]) != len(b[2]):
        return True
    return all(m_aligned(x, y) for x, y in zip(a[2], b[2]))


def m_erase(a):
    if a[0] == "N":
        return ("N", a[1], tuple(m_erase(c) for c in a[2]))
    d = a[2]
    k = d[0]
    if k == "M":
        d = ("M", tuple((f, n if f else 0) for f, n in d[1]))
    elif k == "A":
        d = ("A", d[1], d[2], 0)
    elif k == "C":
        d = ("C", d[1], 0)
    elif k == "B":
        d = ("B", 0)
    elif k == "G":
        pass
    else:
        d = ("R", render(d[1]))
    return ("L", a[1], d)


def m_t3(x, y, z):
    if x == 0:
        return z == y
    if y == 0:
        return z == x
    if x == y:
        return z == x
    return True


# ------------------------------------------------------------------------------------------------
# generator

class Choices:
    """A replayable stream of random draws; `alter` = position whose draw is changed on replay."""

    def __init__(self, rng, record=None, alter=None):
        self.rng = rng
        self.record = list(record) if record is not None else None
        self.alter = alter
        self.pos = 0
        self.drawn = []

    def draw(self, n):
        if self.record is not None and self.pos < len(self.record):
            v = self.record[self.pos] % n
            if self.pos == self.alter and n > 1:
                v = (v + 1 + self.rng.randrange(n - 1)) % n
        else:
            v = self.rng.randrange(n)
        self.pos += 1
        self.drawn.append(v)
        return v

    def pick(self, seq):
        return seq[self.draw(len(seq))]


class World:
    """Pools of terminals on two meshes; created once per run (counts are whatever the process has)."""

    def __init__(self, nconst=12):
        cell = ufl.triangle
        self.m1 = ufl.Mesh(elements.LagrangeElement(cell, 1, (2,)))
        self.m2 = ufl.Mesh(elements.LagrangeElement(cell, 1, (2,)))
        self.meshes = [self.m1, self.m2]

        def V(m, sh, deg=1):
            return ufl.FunctionSpace(m, elements.LagrangeElement(cell, deg, tuple(sh)))
        self.V = V
        shapes = [(), (2,), (3,), (2, 2), (2, 3), (3, 3), (2, 2, 2)]
        self.shapes = shapes
        self.coefs = {sh: [ufl.Coefficient(V(self.m1, sh)) for _ in range(3)] +
                          [ufl.Coefficient(V(self.m2, sh, 2))] for sh in shapes}
        self.consts = {sh: [ufl.Constant(self.m1 if k % 2 == 0 else self.m2, sh) for k in range(nconst // 2 if sh else nconst)]
                       for sh in [(), (2,), (2, 2)]}
        self.args = {sh: [ufl.Argument(V(self.m1, sh), 0), ufl.Argument(V(self.m1, sh), 1),
                          ufl.Argument(V(self.m2, sh), 0)] for sh in [(), (2,), (2, 2)]}
        self.part_args = [ufl.Argument(V(self.m1, ()), 0, part=0), ufl.Argument(V(self.m1, ()), 0, part=1),
                          ufl.Argument(V(self.m1, ()), 1, part=0)]
        # interleaved ranks (counts increase in this order): needed to realise the comparator's cycles
        self.inter = [ufl.Coefficient(V(self.m1, sh)) for sh in
                      [(2, 2), (2,), (2, 2), (2,), (2, 2, 2), (2,), (2, 2), (2, 2, 2)]]
        self.idx = list(ufl.indices(6))
        self.lits = [ufl.as_ufl(1), ufl.as_ufl(2), ufl.as_ufl(10), ufl.as_ufl(9), ufl.as_ufl(0.5), ufl.as_ufl(2.5),
                     ufl.as_ufl(-3)]

    def scalar_terminals(self):
        out = list(self.coefs[()]) + list(self.consts[()]) + list(self.args[()])
        for m in self.meshes:
            x = ufl.SpatialCoordinate(m)
            out += [x[0], x[1], ufl.CellVolume(m), ufl.FacetNormal(m)[0], ufl.Circumradius(m)]
        return out


class Gen:
    def __init__(self, world, ch):
        self.w = world
        self.ch = ch

    def term(self, sh):
        w, ch = self.w, self.ch
        pool = list(w.coefs.get(sh, []))
        pool += w.consts.get(sh, [])
        pool += w.args.get(sh, [])
        if sh == ():
            pool += w.scalar_terminals()[len(pool):]
            pool += w.lits[:3]
        if sh == (2,):
            pool += [ufl.SpatialCoordinate(m) for m in w.meshes] + [ufl.FacetNormal(w.m1)]
        if sh == (2, 2):
            pool += [ufl.Identity(2)]
        if sh == (3, 3):
            pool += [ufl.Identity(3)]
        return ch.pick(pool)

    def fixed_mi(self, sh):
        return tuple(self.ch.draw(d) for d in sh)

    def scalar(self, depth):
        ch = self.ch
        if depth <= 0:
            k = ch.draw(3)
            if k == 0:
                return self.term(())
            sh = ch.pick(self.w.shapes[1:])
            t = self.tensor(sh, 0)
            return t[self.fixed_mi(sh)]
        k = ch.draw(16)
        d = depth - 1
        if k == 0:
            return self.scalar(d) + self.scalar(d)
        if k == 1:
            return self.scalar(d) * self.scalar(d)
        if k == 2:
            return self.scalar(d) / (ufl.as_ufl(3) + self.scalar(d))
        if k == 3:
            return self.scalar(d) ** 2
        if k == 4:
            x = self.scalar(d)
            # (abs(abs(x)) corrupts the inner Abs node on the pinned tree: Abs.__init__ is re-run on it)
            return x if isinstance(x, ufl.classes.Abs) else ufl.as_ufl(abs(x))
        if k == 5:
            return ufl.as_ufl(ufl.sin(self.scalar(d)))
        if k == 6:
            sh = ch.pick(self.w.shapes[1:])
            return self.tensor(sh, d)[self.fixed_mi(sh)]
        if k == 7:
            n = ch.pick([2, 3])
            i = ch.pick(self.w.idx)
            return self.tensor((n,), d)[i] * self.tensor((n,), d)[i]
        if k == 8:
            sh = ch.pick(self.w.shapes[1:])
            return ufl.inner(self.tensor(sh, d), self.tensor(sh, d))
        if k == 9:
            n = ch.pick([2, 3])
            return ufl.dot(self.tensor((n,), d), self.tensor((n,), d))
        if k == 10:
            return ufl.conditional(ufl.lt(self.scalar(d), self.scalar(d)), self.scalar(d), self.scalar(d))
        if k == 11:
            return ufl.variable(self.scalar(d))
        if k == 12:
            i, j = ch.pick(self.w.idx[:3]), ch.pick(self.w.idx[3:])
            return self.tensor((2, 2), d)[i, j] * self.tensor((2, 2), d)[j, i]
        if k == 13:
            # mixed fixed/free multi-index under an index sum
            i = ch.pick(self.w.idx)
            a = self.tensor((2, 2), d)
            b = self.tensor((2,), d)
            return a[ch.draw(2), i] * b[i] if ch.draw(2) else a[i, ch.draw(2)] * b[i]
        if k == 14:
            return self.term(()) * self.scalar(d)
        return self.term(())

    def tensor(self, sh, depth):
        ch = self.ch
        if depth <= 0 or sh not in ((2,), (3,), (2, 2), (3, 3), (2, 3)):
            return self.term(sh)
        d = depth - 1
        k = ch.draw(9)
        if k == 0:
            return self.tensor(sh, d) + self.tensor(sh, d)
        if k == 1:
            return self.scalar(d) * self.tensor(sh, d)
        if k == 2 and len(sh) == 1:
            return ufl.as_vector([self.scalar(d) for _ in range(sh[0])])
        if k == 3 and len(sh) == 1:
            i = ch.pick(self.w.idx)
            return ufl.as_vector(self.tensor(sh, d)[i] * self.scalar(0), i)
        if k == 4 and len(sh) == 1 and (sh[0], sh[0]) in self.w.shapes:
            return ufl.dot(self.tensor((sh[0], sh[0]), d), self.tensor(sh, d))
        if k == 5 and sh == (2,):
            return ufl.grad(ch.pick(self.w.coefs[()]) * (self.scalar(0) if ch.draw(2) else 1))
        if k == 6 and len(sh) == 2 and sh[0] == sh[1]:
            i, j = ch.pick(self.w.idx[:3]), ch.pick(self.w.idx[3:])
            return ufl.as_tensor(self.tensor(sh, d)[i, j], (j, i))
        if k == 7 and len(sh) == 2:
            return ufl.outer(self.tensor((sh[0],), d), self.tensor((sh[1],), d))
        if k == 8:
            return ufl.variable(self.tensor(sh, d))
        return self.term(sh)


def gen_family(world, rng, depth, size=3):
    """`size` related scalar expressions: one random expression and variants with one altered choice."""
    while True:
        ch = Choices(rng)
        try:
            e0 = Gen(world, ch).scalar(depth)
            break
        except (ValueError, TypeError):
            continue
    rec = ch.drawn
    out = [e0]
    for _ in range(size - 1):
        if rng.random() < 0.15:
            out.append(_fresh(world, rng, depth))
            continue
        pos = rng.randrange(len(rec)) if rng.random() < 0.5 else max(0, len(rec) - 1 - rng.randrange(min(4, len(rec))))
        c2 = Choices(rng, record=rec, alter=pos)
        try:
            out.append(Gen(world, c2).scalar(depth))
        except (ValueError, TypeError):
            out.append(_fresh(world, rng, depth))
    return out


def _fresh(world, rng, depth):
    while True:
        try:
            return Gen(world, Choices(rng)).scalar(depth)
        except (ValueError, TypeError):
            continue


def gen_tensors(world, rng, sh, depth, n):
    out = []
    while len(out) < n:
        try:
            out.append(Gen(world, Choices(rng)).tensor(sh, depth))
        except (ValueError, TypeError):
            continue
    return out


def crossed(w):
    """Pairs a, b whose LAST operands are separately built equal subtrees (p ~ q, p2 ~ q2) and whose FIRST
    operands cross them (g(p) vs g(q2)): a comparator that remembers 'equal' per node instead of per pair of
    nodes returns 0 for them.  All subtrees are fresh objects; nothing here evaluates `==`."""
    f, g, h = w.coefs[()][:3]
    mk = [lambda: f * g, lambda: ufl.sin(f), lambda: f + g, lambda: abs(g), lambda: f / h]
    outer1 = [lambda x: x ** 2, lambda x: ufl.cos(x), lambda x: x * h]
    outer2 = [lambda x, y: x / y, lambda x, y: x ** y, lambda x, y: ufl.conditional(ufl.lt(x, y), x, y)]
    out = []
    for n, (P, Q) in enumerate([(mk[0], mk[1]), (mk[2], mk[3]), (mk[1], mk[4]), (mk[3], mk[0])]):
        g1, h2 = outer1[n % 3], outer2[n % 3]
        p, q, p2, q2 = P(), P(), Q(), Q()
        out.append(g1(p) / h2(p, p2))
        out.append(g1(q2) / h2(q, q2))
    return out


def targeted(world):
    """Hand-listed families around the comparator's branches (multi-index truncation, repr order of
    counts, operand count, labels, argument parts, literals)."""
    w = world
    fam = []
    i, j, k = w.idx[:3]
    T1, T2, T3 = w.coefs[(2,)], w.coefs[(2, 2)], w.coefs[(2, 2, 2)]
    mis1 = [(0,), (1,)]
    mis2 = [(0, 0), (0, 1), (1, 0), (1, 1)]
    mis3 = [(0, 0, 0), (0, 1, 0), (0, 1, 1), (1, 0, 1)]
    indexed = [t[m] for t in T1[:3] for m in mis1] + [t[m] for t in T2[:3] for m in mis2] + \
              [t[m] for t in T3[:2] for m in mis3]
    fam.append(("indexed-fixed", indexed))
    inter = []
    for t in w.inter:
        for m in {1: mis1, 2: mis2[:3], 3: mis3[:3]}[len(t.ufl_shape)]:
            inter.append(t[m])
    fam.append(("indexed-interleaved", inter))
    # free/fixed mixes, kept scalar by summation against a vector
    v = w.coefs[(2,)][0]
    mixed = [T2[0][0, i] * v[i], T2[1][i, 0] * v[i], T2[0][i, 1] * v[i], T3[0][0, i, 1] * v[i],
             T3[0][i, 0, 0] * v[i], T1[1][i] * v[i], T1[2][j] * v[j], T2[2][j, 1] * v[j]]
    fam.append(("indexed-mixed", mixed))
    fam.append(("constants", list(w.consts[()]) + [c[0] for c in w.consts[(2,)]]))
    fam.append(("arguments", list(w.args[()]) + [a[0] for a in w.args[(2,)]]))
    geo = []
    for m in w.meshes:
        x = ufl.SpatialCoordinate(m)
        geo += [x[0], x[1], ufl.CellVolume(m), ufl.FacetNormal(m)[1], ufl.Circumradius(m), ufl.FacetArea(m)]
    fam.append(("geometry", geo))
    f, g, h = w.coefs[()][:3]
    lists = [ufl.as_vector([f, g])[0], ufl.as_vector([f, g, h])[0], ufl.as_vector([f, g, g])[0],
             ufl.as_vector([g, f])[0], ufl.as_vector([f, g, h])[2], ufl.as_vector([f, h])[1]]
    v2, v3, v2b = ufl.as_vector([f, g]), ufl.as_vector([f, g, h]), ufl.as_vector([f, h])
    m2, m3 = ufl.as_matrix([[f, g], [g, h]]), ufl.as_matrix([[f, g, h], [g, h, f], [h, f, g]])
    # variable-arity nodes below shape-erasing operators (so that the operands can be added / multiplied)
    lists += [ufl.inner(v2, v2), ufl.inner(v3, v3), ufl.dot(v2, v2b), ufl.dot(v3, v3), v2[i] * v2[i], v3[i] * v3[i],
              ufl.tr(m2), ufl.tr(m3), ufl.det(m2), ufl.det(m3), v2[i] * v2b[i]]
    fam.append(("listtensor-lengths", lists))
    fam.append(("exprlist-lengths", [ExprList(f, g), ExprList(f, g, h), ExprList(g, f), ExprList(f), ExprList(f, g, g)]))
    vs = [ufl.variable(f), ufl.variable(f), ufl.variable(g), ufl.variable(f * g), ufl.variable(g * f)]
    fam.append(("variables", vs))
    cplx = [ufl.as_ufl(z) for z in (1 + 2j, 1 - 2j, 3 + 4j, 4 + 3j, 5j, -5j, 2 + 0.5j)]
    fam.append(("literals", list(w.lits) + [ufl.as_ufl(1.0), ufl.as_ufl(10.0)] + cplx))
    # literals as factors / exponents of otherwise equal operands
    lits = [ufl.as_ufl(2), ufl.as_ufl(10), ufl.as_ufl(9), ufl.as_ufl(-3), ufl.as_ufl(2.5), ufl.as_ufl(0.5)] + cplx
    fam.append(("literal-factors", [z * f for z in lits] + [f ** z for z in lits[:4] + cplx[:3]]))
    fam.append(("crossed-equal-subtrees", crossed(w)))
    fam.append(("mixed-kinds", [f, w.consts[()][0], w.args[()][0], w.lits[0], f + g, f * g, abs(f), f / g,
                                ufl.sin(f), f ** 2, ufl.variable(f), T1[0][0]]))
    return fam
