"""Search oracle of C07 (used only after an obligation broke): evaluate the lowered expression on
random rational simplices with pyden, reading the remaining terminals from the vertices by the
reference-cell convention table of coq/Props/C07_spec.v, and compare with the geometric quantity
computed directly from the vertices with numpy (an independent implementation of the property)."""

import itertools
import math
import random
from fractions import Fraction

import numpy as np

import pyden

EDGES = {2: [(1, 2), (0, 2), (0, 1)], 3: [(2, 3), (1, 3), (1, 2), (0, 3), (0, 2), (0, 1)], 1: [(0, 1)]}


def xref(t, k):
    return [Fraction(1 if k == i + 1 else 0) for i in range(t)]


def facet_vertices(t, f):
    return [k for k in range(t + 1) if k != f]


class GeoEnv(pyden.Env):
    def __init__(self, t, g, facet, ridge, seed):
        super().__init__(nv=1, order=0, seed=seed)
        rng = random.Random(seed)
        self.t, self.g, self.f, self.r = t, g, facet, ridge
        self.V = [[Fraction(rng.randint(-9, 9), rng.choice([1, 2, 3])) for _ in range(g)] for _ in range(t + 1)]
        self.X = [Fraction(rng.randint(1, 5), 16) for _ in range(t)]
        self.co = rng.choice([1, -1])

    def J(self, i, j):
        return self.V[j + 1][i] - self.V[0][i]

    def c(self, v):
        return pyden.Jet.const(self.nv, self.order, v)

    def refgrad(self, a, comp, j, rho, side, memo):
        if type(a).__name__ != "SpatialCoordinate":
            raise pyden.Unsupported("reference_grad of " + type(a).__name__)
        return self.c(self.J(comp[0], j))

    def t_SpatialCoordinate(self, t, comp, side):
        i = comp[0]
        return self.c(self.V[0][i] + sum(self.J(i, k) * self.X[k] for k in range(self.t)))

    def t_CellOrigin(self, t, comp, side):
        return self.c(self.V[0][comp[0]])

    def t_CellFacetJacobian(self, t, comp, side):
        w = facet_vertices(self.t, self.f)
        i, j = comp
        return self.c(xref(self.t, w[j + 1])[i] - xref(self.t, w[0])[i])

    def t_CellRidgeJacobian(self, t, comp, side):
        a, b = EDGES[3][self.r]
        return self.c(xref(3, b)[comp[0]] - xref(3, a)[comp[0]])

    def t_CellEdgeVectors(self, t, comp, side):
        a, b = EDGES[self.t][comp[0]]
        return self.c(self.V[b][comp[1]] - self.V[a][comp[1]])

    def t_FacetEdgeVectors(self, t, comp, side):
        w = facet_vertices(3, self.f)
        a, b = EDGES[2][comp[0]]
        return self.c(self.V[w[b]][comp[1]] - self.V[w[a]][comp[1]])

    def t_ReferenceNormal(self, t, comp, side):
        if self.t == 1:
            return self.c(Fraction(-1 if self.f == 0 else 1))
        if self.f == 0:
            return self.c(1.0 / math.sqrt(self.t))
        return self.c(Fraction(-1 if comp[0] == self.f - 1 else 0))

    def t_ReferenceCellVolume(self, t, comp, side):
        return self.c(Fraction(1, math.factorial(self.t)))

    def t_ReferenceFacetVolume(self, t, comp, side):
        return self.c(Fraction(1, math.factorial(self.t - 1)))

    def t_CellOrientation(self, t, comp, side):
        return self.c(Fraction(self.co))


def pdet(M):
    M = np.atleast_2d(M)
    if M.shape[0] == M.shape[1]:
        return float(np.linalg.det(M))
    return math.sqrt(max(float(np.linalg.det(M.T @ M)), 0.0))


def circumradius(P):
    """radius of the circumscribed sphere of the simplex with vertex rows P, in its affine hull"""
    E = (P[1:] - P[0])
    G = E @ E.T
    a = np.linalg.solve(2 * G, np.diag(G))
    return float(np.linalg.norm(E.T @ a))


def expected(env, q, comp):
    """the quantity computed directly from the vertices (floats)"""
    t, g, f, r = env.t, env.g, env.f, env.r
    P = np.array([[float(x) for x in v] for v in env.V])
    J = (P[1:] - P[0]).T                      # g x t
    X = np.array([float(x) for x in env.X])
    edges = [P[b] - P[a] for a, b in EDGES[t]]
    el = [float(np.linalg.norm(e)) for e in edges]
    w = facet_vertices(t, f)
    orient = 1.0 if t == g else float(env.co)
    if q == "Jacobian":
        return J[comp]
    if q == "JacobianInverse":
        return np.linalg.pinv(J)[comp]
    if q.endswith("= I"):
        return 1.0 if comp[0] == comp[1] else 0.0
    if q == "JacobianDeterminant":
        return orient * pdet(J)
    if q == "SpatialCoordinate":
        return (P[0] + J @ X)[comp]
    if q == "CellCoordinate":
        return X[comp]
    if q == "CellVolume":
        return abs(pdet(J)) / math.factorial(t)
    if q == "Circumradius":
        return circumradius(P)
    if q in ("CellDiameter", "MaxCellEdgeLength"):
        return max(el)
    if q == "MinCellEdgeLength":
        return min(el)
    if q == "CellNormal":
        n = np.array([-J[1, 0], J[0, 0]]) if g == 2 else np.cross(J[:, 0], J[:, 1])
        return (env.co * n / np.linalg.norm(n))[comp]
    if q == "FacetArea":
        if t == 1:
            return 1.0
        FJ = (P[w[1:]] - P[w[0]]).T
        return abs(pdet(FJ)) / math.factorial(t - 1)
    if q == "FacetNormal":
        if t == 1:
            d = J[:, 0] / np.linalg.norm(J[:, 0])
            return ((-1.0 if f == 0 else 1.0) * d)[comp]
        # outward unit normal in the tangent space: component of (v_w0 - v_f) orthogonal to the facet
        FJ = (P[w[1:]] - P[w[0]]).T
        d = P[w[0]] - P[f]
        d = d - FJ @ np.linalg.lstsq(FJ, d, rcond=None)[0]
        return (d / np.linalg.norm(d))[comp]
    if q == "FacetJacobian":
        return ((P[w[1:]] - P[w[0]]).T)[comp]
    if q == "FacetJacobianInverse":
        return np.linalg.pinv((P[w[1:]] - P[w[0]]).T)[comp]
    if q == "FacetJacobianDeterminant":
        return pdet((P[w[1:]] - P[w[0]]).T)
    if q in ("MinFacetEdgeLength", "MaxFacetEdgeLength"):
        fl = [float(np.linalg.norm(P[a] - P[b])) for a, b in itertools.combinations(w, 2)]
        return min(fl) if q.startswith("Min") else max(fl)
    a, b = EDGES[3][r]
    RJ = (P[b] - P[a]).reshape(-1, 1)
    if q == "RidgeJacobian":
        return RJ[comp]
    if q == "RidgeJacobianInverse":
        return np.linalg.pinv(RJ)[comp]
    if q == "RidgeJacobianDeterminant":
        return pdet(RJ)
    raise KeyError(q)


def search(case, trials=30, seed=0):
    """Random simplices: returns a JSON-able witness where the lowered expression's value differs from
    the quantity computed from the vertices, or None."""
    note = case.note
    rng = random.Random(seed * 7919 + 13)
    comps = case.components()
    for k in range(trials):
        env = GeoEnv(note["tdim"], note["gdim"], note["facet"], note["ridge"], rng.randrange(10**9))
        P = np.array([[float(x) for x in v] for v in env.V])
        if abs(pdet((P[1:] - P[0]).T)) < 1e-3:
            continue
        for c in comps:
            try:
                got = pyden.evaluate(case.out, env, {}, c).value()
                exp = expected(env, note["q"], tuple(c) if len(c) != 1 else c[0])
            except (ZeroDivisionError, ValueError, OverflowError, np.linalg.LinAlgError):
                continue
            except (pyden.Unsupported, KeyError):
                return None
            got = complex(got)
            got = got.real if abs(got.imag) < 1e-12 else got      # sqrt of a negative number: not a real value
            exp = float(exp)
            if isinstance(got, complex) or got != got or abs(got - exp) > 1e-7 * (1 + abs(got) + abs(exp)):
                return {"quantity": note["q"], "tdim": note["tdim"], "gdim": note["gdim"], "facet": note["facet"],
                        "ridge": note["ridge"], "component": list(c),
                        "vertices": [[str(x) for x in v] for v in env.V],
                        "reference_point_X": [str(x) for x in env.X], "cell_orientation": env.co,
                        "value_of_lowered_expression": str(got), "value_from_vertices": exp, "trial": k}
    return None


def expected_combined(env, note, c):
    """value from the vertices of component c of a combined case (vector of atoms / weighted sum in a form)"""
    def one(a):
        qn, comp = a
        comp = tuple(comp)
        return float(expected(env, qn, comp if len(comp) != 1 else comp[0]))
    if note["q"] == "combined-form":
        return sum(w * one(a) for w, a in zip(note["weights"], note["atoms"]))
    return one(note["atoms"][c[0]])


def search_combined(case, lemma, trials=30, seed=0):
    """Failing input for a combined case: a simplex (and facet/ridge) on which the jointly lowered expression
    differs from the quantities computed from the vertices."""
    import re
    note = case.note
    m = re.search(r"_c(\d+)$", lemma or "")
    comps = [(int(m.group(1)),)] if (m and note["q"] == "combined") else case.components()
    rng = random.Random(seed * 7919 + 17)
    t = note["tdim"]
    for k in range(trials):
        env = GeoEnv(t, note["gdim"], rng.randrange(t + 1), rng.randrange(6), rng.randrange(10**9))
        P = np.array([[float(x) for x in v] for v in env.V])
        if abs(pdet((P[1:] - P[0]).T)) < 1e-3:
            continue
        for c in comps:
            try:
                got = complex(pyden.evaluate(case.out, env, {}, c).value())
                exp = expected_combined(env, note, c)
            except (ZeroDivisionError, ValueError, OverflowError, np.linalg.LinAlgError):
                continue
            except (pyden.Unsupported, KeyError):
                return None
            if abs(got.imag) > 1e-12 or got != got or abs(got.real - exp) > 1e-7 * (1 + abs(got) + abs(exp)):
                what = note["atoms"][c[0]] if note["q"] == "combined" else "weighted sum of all quantities"
                return {"quantity": "combined", "atom": what, "order": note.get("order", note.get("measure")),
                        "tdim": t, "gdim": note["gdim"], "facet": env.f, "ridge": env.r, "component": list(c),
                        "vertices": [[str(x) for x in v] for v in env.V],
                        "reference_point_X": [str(x) for x in env.X], "cell_orientation": env.co,
                        "value_of_lowered_expression": str(got.real if abs(got.imag) < 1e-12 else got),
                        "value_from_vertices": exp, "trial": k,
                        "input": "apply_geometry_lowering of ONE expression containing all quantities of the cell "
                                 "(see note.order / the case name); the atom above is the wrong one"}
    return None


def replay_witness(case, w):
    """Re-evaluate the lowered expression of `case` on the witness simplex of a replay file."""
    env = GeoEnv(w["tdim"], w["gdim"], w["facet"], w["ridge"], 0)
    env.V = [[Fraction(x) for x in v] for v in w["vertices"]]
    env.X = [Fraction(x) for x in w["reference_point_X"]]
    env.co = int(w["cell_orientation"])
    c = tuple(w["component"])
    got = complex(pyden.evaluate(case.out, env, {}, c).value())
    if w["quantity"] == "combined":
        exp = expected_combined(env, case.note, c)
    else:
        exp = float(expected(env, w["quantity"], c if len(c) != 1 else c[0]))
    ok = abs(got.imag) < 1e-12 and abs(got.real - exp) <= 1e-7 * (1 + abs(got) + abs(exp))
    return got, exp, ok


def validate(cases, seed=0, trials=3):
    """Self-check of the oracle on the unchanged tree: every case must agree (used by the self-test
    script, not by the proof)."""
    bad = []
    for c in cases:
        w = search(c, trials=trials, seed=seed)
        if w:
            bad.append((c.name, w))
    return bad
