"""Runs ONE history on the real UFL code in a fresh interpreter (registering Expr types mutates global
state).  stdin: JSON {"algs": [{"name", "kind", "handlers": [names]}], "ops": [...]};
stdout: JSON {"outputs": [...], "registered": {clsname: typecode}}.
ops: ["reg", clsname, parentname, abstract] | ["inst", alg index] | ["apply", alg index, class name]"""
import json
import sys

import ufl  # noqa: F401
import ufl.classes
from ufl.algorithms.transformer import Transformer
from ufl.core.expr import Expr
from ufl.core.ufl_type import ufl_type
from ufl.corealg.multifunction import MultiFunction


def make_alg(spec):
    if spec["kind"] == "FN":          # a plain function handed to map_expr_dag / map_expr_dags
        def fn(v, *ops):
            return "fn"
        return fn
    ns = {}
    for n in spec["handlers"]:
        exec(f"def {n}(self, o, *ops):\n    return '{n}'", {}, ns)
    base = MultiFunction if spec["kind"] == "MF" else Transformer
    return type(spec["name"], (base,), ns)


def samples():
    """one instance of a few old concrete classes (targets of plain-function mapping)"""
    import uflgen
    f, g = uflgen.coef(()), uflgen.coef(())
    return {"Coefficient": f, "Sum": f + g, "Product": f * g, "Division": f / g, "Sin": ufl.sin(f),
            "Abs": abs(f), "Power": f ** g, "Cos": ufl.cos(g)}


def run_fn(fn, i, e):
    from ufl.corealg.map_dag import map_expr_dag, map_expr_dags
    return map_expr_dag(fn, e) if i % 2 == 0 else map_expr_dags(fn, [e])[0]


def main():
    job = json.load(sys.stdin)
    algs = [make_alg(a) for a in job["algs"]]
    kinds = [a["kind"] for a in job["algs"]]
    byname = {c.__name__: c for c in Expr._ufl_all_classes_}
    inst_of = samples() if "FN" in kinds else {}
    out = []
    errs = []
    registered = {}
    for op in job["ops"]:
        if op[0] == "reg":
            _, name, parent, abstract = op
            base = byname[parent]
            body = {"__slots__": ()}
            if not abstract:
                body["__init__"] = lambda self, a: base.__init__(self, (a,))
            cls = type(name, (base,), body)
            kw = {"is_abstract": True} if abstract else {"num_ops": 1, "inherit_shape_from_operand": 0,
                                                          "inherit_indices_from_operand": 0}
            cls = ufl_type(**kw)(cls)
            byname[name] = cls
            registered[name] = cls._ufl_typecode_
            if not abstract and inst_of:
                inst_of[name] = cls(inst_of["Coefficient"])
        elif op[0] == "inst":
            try:
                if kinds[op[1]] == "FN":
                    run_fn(algs[op[1]], op[1], inst_of["Sum"])
                else:
                    algs[op[1]]()
            except Exception as ex:      # noqa: BLE001
                errs.append([op[1], type(ex).__name__])
        else:
            _, ai, cname = op
            tc = byname[cname]._ufl_typecode_
            if kinds[ai] == "FN":
                try:
                    r = run_fn(algs[ai], ai, inst_of[cname])
                    out.append("ufl_type" if r == "fn" else "OTHER:" + repr(r)[:40])
                except IndexError:
                    out.append("IndexError")
                except Exception as ex:      # noqa: BLE001
                    out.append("EXC:" + type(ex).__name__)
                continue
            try:
                inst = algs[ai]()
                h = inst._handlers[tc]
                if isinstance(h, tuple):
                    h = h[0]
                # name of the selected handler: the first handler name along the class's mro that is bound
                # to the selected function (base classes alias e.g. terminal = reuse, ufl_type = undefined)
                nm = "OTHER:" + h.__name__
                for c in byname[cname].mro():
                    n = getattr(c, "_ufl_handler_name_", "ufl_type")
                    if getattr(inst, n, None) == h:
                        nm = n
                        break
                out.append(nm)
            except IndexError:
                out.append("IndexError")
            except Exception as ex:      # noqa: BLE001
                out.append("EXC:" + type(ex).__name__)
    json.dump({"outputs": out, "inst_errors": errs, "registered": registered, "n_classes": len(Expr._ufl_all_classes_),
               "n_snapshot": len(ufl.classes.all_ufl_classes)}, sys.stdout)


if __name__ == "__main__":
    main()
