"""Runs ONE history on the real UFL code in a fresh interpreter (registering Expr types mutates global
state).  stdin: JSON {"algs": [{"name", "kind", "handlers": [names]}], "ops": [...]};
stdout: JSON {"outputs": [...], "registered": {clsname: typecode}}.
ops: ["reg", clsname, parentname, abstract] | ["inst", alg index] | ["apply", alg index, class name]"""
import json
import sys

import ufl  # noqa: F401
import ufl.classes
from ufl.algorithms.transformer import Transformer
from ufl.core.expr import Expr
from ufl.core.ufl_type import ufl_type
from ufl.corealg.multifunction import MultiFunction


def make_alg(spec):
    if spec["kind"] == "FN":          # a plain function handed to map_expr_dag / map_expr_dags
        def fn(v, *ops):
            return "fn"
        return fn
    ns = {}
    for n in spec["handlers"]:
        # MultiFunction handlers with a name of even length are cutoff-style (self, o): map_expr_dag then does
        # not visit the operands (the per-class table _is_cutoff_type is part of what registration must refresh)
        sig = "(self, o)" if spec["kind"] == "MF" and len(n) % 2 == 0 else "(self, o, *ops)"
        exec(f"def {n}{sig}:\n    return '{n}'", {}, ns)
    base = MultiFunction if spec["kind"] == "MF" else Transformer
    return type(spec["name"], (base,), ns)


def samples():
    """one instance of a few old concrete classes (targets of plain-function mapping)"""
    import uflgen
    f, g = uflgen.coef(()), uflgen.coef(())
    return {"Coefficient": f, "Sum": f + g, "Product": f * g, "Division": f / g, "Sin": ufl.sin(f),
            "Abs": abs(f), "Power": f ** g, "Cos": ufl.cos(g)}


def run_fn(fn, i, e):
    from ufl.corealg.map_dag import map_expr_dag, map_expr_dags
    return map_expr_dag(fn, e) if i % 2 == 0 else map_expr_dags(fn, [e])[0]


def main():
    job = json.load(sys.stdin)
    algs = [make_alg(a) for a in job["algs"]]
    kinds = [a["kind"] for a in job["algs"]]
    byname = {c.__name__: c for c in Expr._ufl_all_classes_}
    inst_of = samples() if "FN" in kinds else {}
    out = []
    errs = []
    registered = {}
    for op in job["ops"]:
        if op[0] == "reg":
            _, name, parent, abstract = op
            base = byname[parent]
            body = {"__slots__": ()}
            if not abstract:
                body["__init__"] = lambda self, a: base.__init__(self, (a,))
            cls = type(name, (base,), body)
            kw = {"is_abstract": True} if abstract else {"num_ops": 1, "inherit_shape_from_operand": 0,
                                                          "inherit_indices_from_operand": 0}
            cls = ufl_type(**kw)(cls)
            byname[name] = cls
            registered[name] = cls._ufl_typecode_
            if not abstract and inst_of:
                inst_of[name] = cls(inst_of["Coefficient"])
        elif op[0] == "inst":
            try:
                if kinds[op[1]] == "FN":
                    run_fn(algs[op[1]], op[1], inst_of["Sum"])
                else:
                    algs[op[1]]()
            except Exception as ex:      # noqa: BLE001
                errs.append([op[1], type(ex).__name__])
        else:
            _, ai, cname = op
            tc = byname[cname]._ufl_typecode_
            if kinds[ai] == "FN":
                try:
                    r = run_fn(algs[ai], ai, inst_of[cname])
                    out.append("ufl_type" if r == "fn" else "OTHER:" + repr(r)[:40])
                except IndexError:
                    out.append("IndexError")
                except Exception as ex:      # noqa: BLE001
                    out.append("EXC:" + type(ex).__name__)
                continue
            try:
                inst = algs[ai]()
                h = inst._handlers[tc]
                if isinstance(h, tuple):
                    h = h[0]
                # name of the selected handler: the first handler name along the class's mro that is bound
                # to the selected function (base classes alias e.g. terminal = reuse, ufl_type = undefined)
                nm = "OTHER:" + h.__name__
                for c in byname[cname].mro():
                    n = getattr(c, "_ufl_handler_name_", "ufl_type")
                    if getattr(inst, n, None) == h:
                        nm = n
                        break
                if kinds[ai] == "MF":
                    # the cutoff flag of the type must be the one of the selected handler
                    from ufl.corealg.multifunction import get_num_args
                    if bool(inst._is_cutoff_type[tc]) != (get_num_args(h) == 2):
                        nm = "CUTOFF-MISMATCH:" + nm
                out.append(nm)
            except IndexError:
                out.append("IndexError")
            except Exception as ex:      # noqa: BLE001
                out.append("EXC:" + type(ex).__name__)
    json.dump({"outputs": out, "inst_errors": errs, "registered": registered, "n_classes": len(Expr._ufl_all_classes_),
               "n_snapshot": len(ufl.classes.all_ufl_classes)}, sys.stdout)



# ------------------------------------------------------------------------------------------------
# "pub" mode: public algorithms / real algorithm classes applied to an instance of a type registered
# late, with or without having been used before the registration.

def pub_drivers(names):
    import importlib

    from ufl.corealg.map_dag import map_expr_dag
    out = {}
    for nm in names:
        kind, _, ref = nm.partition(":")
        try:
            if kind in ("mapdag", "visit"):
                mod, _, cn = ref.rpartition(".")
                cls = getattr(importlib.import_module(mod), cn)      # instantiated only when the driver runs
                if kind == "mapdag":
                    out[nm] = (lambda e, cls=cls: map_expr_dag(cls(), e))
                else:
                    out[nm] = (lambda e, cls=cls: cls().visit(e))
            elif kind == "fn":
                mod, _, fn = ref.rpartition(".")
                f = getattr(importlib.import_module(mod), fn)
                out[nm] = f
            elif kind == "sort":
                from ufl.sorting import sorted_expr
                out[nm] = (lambda e: sorted_expr([e, 2 * e, e])[0])
            elif kind == "glp":      # apply_geometry_lowering with a preserved type
                from ufl.algorithms.apply_geometry_lowering import apply_geometry_lowering
                P = getattr(ufl.classes, ref)
                out[nm] = (lambda e, P=P: apply_geometry_lowering(e, (P,)))
        except Exception:      # noqa: BLE001
            continue
    return out


def outcome(f, e):
    from ufl.corealg.traversal import unique_post_traversal
    try:
        r = f(e)
    except Exception as ex:      # noqa: BLE001
        return "EXC:" + type(ex).__name__
    if isinstance(r, Expr):
        return "ok:" + ",".join(type(x).__name__ for x in unique_post_traversal(r))[:400]
    return "ok:" + type(r).__name__


def pub_main(job):
    import uflgen
    from ufl.geometry import GeometricQuantity
    mesh = uflgen.mesh()
    f, g = uflgen.coef(()), uflgen.coef(())
    v = uflgen.coef((2,))
    byname = {c.__name__: c for c in Expr._ufl_all_classes_}
    ops = {"Sum": f + g, "Product": f * g, "Division": f / g, "Sin": ufl.sin(f), "Abs": abs(f), "Power": f ** g,
           "Grad": ufl.grad(f), "Div": ufl.div(v), "Sqrt": ufl.sqrt(f), "Conj": ufl.conj(f), "Inner": ufl.inner(v, v)}
    P = byname[job["parent"]]
    if issubclass(P, GeometricQuantity):
        old = P(mesh)
        build = lambda cls: cls(mesh)      # noqa: E731
    else:
        old = ops[job["parent"]]
        build = lambda cls: cls(*old.ufl_operands)      # noqa: E731
    drivers = pub_drivers(job["drivers"])
    res = {"before": {}, "new": {}, "old_after": {}}
    if job["use_before"]:
        for nm, d in drivers.items():
            res["before"][nm] = outcome(d, old)
    base = P
    for i in range(job.get("chain", 1)):
        cls = type(f"Late{i}{P.__name__}", (base,), {"__slots__": ()})
        cls = ufl_type()(cls)
        base = cls
    new = build(base)
    if type(new) is not base:
        json.dump({"skip": f"constructor of {base.__name__} returned {type(new).__name__}"}, sys.stdout)
        return
    for nm, d in drivers.items():
        res["new"][nm] = outcome(d, new)
        res["old_after"][nm] = outcome(d, old)
    res["drivers"] = sorted(drivers)
    json.dump(res, sys.stdout)


_old_main = main


def main():      # noqa: F811
    job = json.load(sys.stdin)
    if job.get("mode") == "pub":
        return pub_main(job)
    sys.stdin = __import__("io").StringIO(json.dumps(job))
    return _old_main()


if __name__ == "__main__":
    main()
