"""C18, tie T1: translate the handler table of SumDegreeEstimator (ufl/algorithms/estimate_degrees.py)
from its source with `ast` into Gallina (coq/Gen/C18_rules.v) and let Coq compare it with the hand
model (coq/Props/C18_model.v):

 * every handler / helper method becomes a Gallina function `gen_<name>` over integer degrees (the
   tuple-degree branches of tensor-product cells are recognised and dropped: out of scope);
 * for every handler h a lemma  forall operand degrees, dval quad ops special (table h) = gen_h ops
   is proved, i.e. the generated function is the interpretation of the model's table entry (and the
   lemmas tbl_* of the model say `estimate` is that interpretation);
 * the loop of `indexed` becomes the Fixpoint gen_walk, proved equal to the model's `walk`;
 * the class -> handler dispatch computed by the real MultiFunction is compared with the handlers the
   model uses for each constructor of the syntax.

Fail-closed: any statement / expression outside the whitelist, any unknown handler name, any missing
handler makes the translation emit a false obligation (reported as a broken tie)."""

import ast
import os

import vlib

SRC = os.path.join(vlib.REPO, "ufl", "algorithms", "estimate_degrees.py")


class Untranslatable(Exception):
    pass


HNAMES = """constant_value constant geometric_quantity spatial_coordinate cell_coordinate argument coefficient
expr multi_index label reference_value variable transposed index_sum indexed component_tensor list_tensor
positive_restricted negative_restricted conj real imag sum grad reference_grad nabla_grad div reference_div
nabla_div curl reference_curl cell_avg facet_avg product inner dot outer cross derivative compound_derivative
compound_tensor_operator variable_derivative trace determinant cofactor inverse deviatoric skew sym abs division
power atan2 math_function bessel_function condition conditional min_value max_value coordinate_derivative
expr_list expr_mapping""".split()

HELPERS = ["_reduce_degree", "_add_degrees", "_max_degrees", "_not_handled"]

# which handler the model's `estimate` uses for each node class of the syntax
MODEL_DISPATCH = [
    ("Zero", "constant_value"), ("IntValue", "constant_value"), ("FloatValue", "constant_value"),
    ("ComplexValue", "constant_value"), ("Identity", "constant_value"), ("PermutationSymbol", "constant_value"),
    ("Coefficient", "coefficient"), ("Argument", "argument"), ("Constant", "constant"),
    ("SpatialCoordinate", "spatial_coordinate"), ("CellCoordinate", "cell_coordinate"),
    ("Jacobian", "geometric_quantity"), ("FacetNormal", "geometric_quantity"), ("CellVolume", "geometric_quantity"),
    ("JacobianInverse", "geometric_quantity"), ("JacobianDeterminant", "geometric_quantity"),
    ("Sum", "sum"), ("Product", "product"), ("Division", "division"), ("Power", "power"), ("Abs", "abs"),
    ("Conj", "conj"), ("Real", "real"), ("Imag", "imag"), ("Indexed", "indexed"), ("IndexSum", "index_sum"),
    ("ComponentTensor", "component_tensor"), ("ListTensor", "list_tensor"), ("Conditional", "conditional"),
    ("MinValue", "min_value"), ("MaxValue", "max_value"), ("Sqrt", "math_function"), ("Sin", "math_function"),
    ("Exp", "math_function"), ("Ln", "math_function"), ("Erf", "math_function"), ("Atan2", "atan2"),
    ("BesselJ", "bessel_function"), ("Variable", "variable"), ("PositiveRestricted", "positive_restricted"),
    ("NegativeRestricted", "negative_restricted"), ("Grad", "grad"), ("ReferenceGrad", "reference_grad"),
    ("Div", "div"), ("NablaGrad", "nabla_grad"), ("NablaDiv", "nabla_div"), ("Curl", "curl"),
    ("ReferenceValue", "reference_value"), ("Transposed", "transposed"), ("Outer", "outer"), ("Inner", "inner"),
    ("Dot", "dot"), ("Cross", "cross"), ("Perp", "compound_tensor_operator"), ("Trace", "trace"),
    ("Determinant", "determinant"), ("Inverse", "inverse"), ("Cofactor", "cofactor"),
    ("Deviatoric", "deviatoric"), ("Skew", "skew"), ("Sym", "sym"),
    ("LT", "condition"), ("EQ", "condition"), ("AndCondition", "condition"), ("NotCondition", "condition"),
    ("MultiIndex", "multi_index"), ("Label", "label"),
]


def strip_doc(body):
    if body and isinstance(body[0], ast.Expr) and isinstance(body[0].value, ast.Constant) \
            and isinstance(body[0].value.value, str):
        return body[1:]
    return body


def dump(n):
    return ast.dump(n, annotate_fields=False)


def src_of(code):
    return dump(ast.parse(code, mode="eval").body)


class Fn:
    """Translation of one method body into a Gallina term of type nat (helpers) / option nat."""

    def __init__(self, fdef, option):
        self.f = fdef
        self.option = option
        a = fdef.args
        names = [x.arg for x in a.args]
        if names[:1] != ["self"] or a.kwonlyargs or a.kwarg or a.defaults:
            raise Untranslatable(f"{fdef.name}: signature")
        self.v = names[1] if len(names) > 1 else None
        self.params = names[2:]
        self.vararg = a.vararg.arg if a.vararg else None
        self.env = {p: p for p in self.params}       # python name -> gallina term (nat)
        self.syms = {}                               # symbolic (non-degree) python names
        self.needs = set()                           # extra gallina binders used

    # -- expressions of type nat
    def exp(self, e):
        if isinstance(e, ast.Constant) and isinstance(e.value, int) and not isinstance(e.value, bool) and e.value >= 0:
            return str(e.value)
        if isinstance(e, ast.Name):
            if e.id in self.env:
                return self.env[e.id]
            raise Untranslatable(f"{self.f.name}: name {e.id}")
        if isinstance(e, ast.BinOp) and isinstance(e.op, (ast.Add, ast.Sub, ast.Mult)):
            l, r = self.exp(e.left), self.exp(e.right)
            op = {ast.Add: "+", ast.Sub: "-", ast.Mult: "*"}[type(e.op)]
            return f"({l} {op} {r})"
        if isinstance(e, ast.Call):
            d = dump(e)
            fn = e.func
            # self._add_degrees(v, ...) / self._max_degrees / self._reduce_degree
            if isinstance(fn, ast.Attribute) and isinstance(fn.value, ast.Name) and fn.value.id == "self" \
                    and fn.attr in ("_add_degrees", "_max_degrees", "_reduce_degree") and not e.keywords:
                args = e.args
                if not args or not (isinstance(args[0], ast.Name) and args[0].id == self.v):
                    raise Untranslatable(f"{self.f.name}: first argument of {fn.attr}")
                rest = args[1:]
                if fn.attr == "_reduce_degree":
                    if len(rest) != 1:
                        raise Untranslatable("reduce arity")
                    return f"(gen__reduce_degree {self.exp(rest[0])})"
                return f"(gen_{fn.attr} {self.lst(rest)})"
            if isinstance(fn, ast.Name) and fn.id == "sum" and len(e.args) == 1 and not e.keywords:
                return f"(fold_right Nat.add 0 {self.lstexp(e.args[0])})"
            if isinstance(fn, ast.Name) and fn.id == "max" and not e.keywords:
                if len(e.args) == 1:
                    return f"(fold_right Nat.max 0 {self.lstexp(e.args[0])})"
                return "(fold_right Nat.max 0 [" + "; ".join(self.exp(x) for x in e.args) + "])" \
                    if len(e.args) > 2 else f"(Nat.max {self.exp(e.args[0])} {self.exp(e.args[1])})"
            # attribute reads of terminals
            if d == src_of(f"extract_unique_domain({self.v}).ufl_coordinate_element().embedded_superdegree"):
                pass
            raise Untranslatable(f"{self.f.name}: call {ast.unparse(e)}")
        if isinstance(e, ast.Attribute):
            d = dump(e)
            if d == src_of(f"extract_unique_domain({self.v}).ufl_coordinate_element().embedded_superdegree"):
                self.needs.add("coord_degree")
                return "coord_degree"
            if d == src_of(f"{self.v}.ufl_element().embedded_superdegree"):
                self.needs.add("elem_super")
                return "elem_super"
            raise Untranslatable(f"{self.f.name}: attribute {ast.unparse(e)}")
        raise Untranslatable(f"{self.f.name}: expression {ast.unparse(e)}")

    def lst(self, args):
        """positional arguments (possibly one starred vararg) as a gallina list"""
        if len(args) == 1 and isinstance(args[0], ast.Starred):
            return self.lstexp(args[0].value)
        if any(isinstance(a, ast.Starred) for a in args):
            raise Untranslatable("mixed starred arguments")
        return "[" + "; ".join(self.exp(a) for a in args) + "]"

    def lstexp(self, e):
        if isinstance(e, ast.Name) and e.id == self.vararg:
            return self.vararg
        if isinstance(e, ast.BinOp) and isinstance(e.op, ast.Add):
            return f"({self.lstexp(e.left)} ++ {self.lstexp(e.right)})"
        if isinstance(e, ast.Tuple):
            return "[" + "; ".join(self.exp(x) for x in e.elts) + "]"
        raise Untranslatable(f"{self.f.name}: list expression {ast.unparse(e)}")

    # -- conditions
    def cond(self, t):
        d = dump(t)
        if isinstance(t, ast.Name) and t.id in self.env:          # truthiness of a degree
            return f"(negb (Nat.eqb {self.env[t.id]} 0))"
        if isinstance(t, ast.BoolOp):
            op = "||" if isinstance(t.op, ast.Or) else "&&"
            return "(" + f" {op} ".join(self.cond(x) for x in t.values) + ")"
        if isinstance(t, ast.Compare) and len(t.ops) == 1:
            l, r = t.left, t.comparators[0]
            if isinstance(t.ops[0], ast.Eq):
                return f"(Nat.eqb {self.exp(l)} {self.exp(r)})"
            if isinstance(t.ops[0], ast.Lt):
                return f"(Nat.ltb {self.exp(l)} {self.exp(r)})"
            if isinstance(t.ops[0], ast.GtE) and isinstance(l, ast.Name) and self.syms.get(l.id) == "Z" \
                    and isinstance(r, ast.Constant) and r.value == 0:
                return f"(0 <=? {l.id})%Z"
        if isinstance(t, ast.Call) and isinstance(t.func, ast.Name):
            # any(isinstance(o, tuple) for o in ops): tuple degrees (tensor-product cells), out of scope
            if self.vararg and d == src_of(f"any(isinstance(o, tuple) for o in {self.vararg})"):
                return "TUPLE_DEGREES"
            if t.func.id == "isinstance" and len(t.args) == 2 and isinstance(t.args[0], ast.Name) \
                    and isinstance(t.args[1], ast.Name):
                x, ty = t.args[0].id, t.args[1].id
                if ty == "int" and x in self.env:
                    return "true"                         # integer degrees
                if ty == "IntValue" and self.syms.get(x) == "exponent":
                    self.needs.add("g_is_int")
                    return "g_is_int"
            if self.v and d == src_of(f"is_cellwise_constant({self.v})"):
                self.needs.add("cellwise_constant")
                return "cellwise_constant"
            if d == src_of('all(cell.cellname not in ["quadrilateral", "hexahedron"] for cell in cells)') \
                    and self.syms.get("cells") == "cells":
                return "(negb quad)"
        raise Untranslatable(f"{self.f.name}: condition {ast.unparse(t)}")

    # -- statements, with the translation of the statements that follow as continuation
    def stmts(self, body, k):
        if not body:
            if k is None:
                raise Untranslatable(f"{self.f.name}: falls off the end")
            return k
        s, rest = body[0], body[1:]
        if isinstance(s, ast.Return):
            if s.value is None or (isinstance(s.value, ast.Constant) and s.value.value is None):
                if not self.option:
                    raise Untranslatable("None in helper")
                return "(Some 0 (* None: no degree *))"
            if isinstance(s.value, ast.Call) and isinstance(s.value.func, ast.Name) and s.value.func.id == "tuple":
                return self.wrap("TUPLE_RESULT")
            if isinstance(s.value, ast.IfExp):
                # `default if d is None else d`
                t = s.value
                if dump(t.test) == src_of("d is None") and self.syms.get("d") == "subdeg" \
                        and dump(t.body) == src_of("self.default_degree") and dump(t.orelse) == src_of("d"):
                    return self.wrap("superdeg")
                raise Untranslatable(f"{self.f.name}: conditional expression")
            return self.wrap(self.exp(s.value))
        if isinstance(s, ast.Raise):
            if not self.option:
                raise Untranslatable("raise in helper")
            return "None"
        if isinstance(s, ast.If):
            kk = self.stmts(rest, k) if rest or k is not None else None
            c = self.cond(s.test)
            if c == "TUPLE_DEGREES":
                return self.stmts(s.orelse, kk)                     # integer degrees only
            a = self.stmts(s.body, kk)
            b = self.stmts(s.orelse, kk)
            if c == "true":
                return a
            return f"(if {c} then {a} else {b})"
        if isinstance(s, ast.Expr) and isinstance(s.value, ast.Call) and dump(s.value.func) == src_of("warnings.warn"):
            return self.stmts(rest, k)
        if isinstance(s, ast.Assign) and len(s.targets) == 1:
            tg, val = s.targets[0], s.value
            d = dump(val)
            if isinstance(tg, ast.Name):
                if d == src_of(f"set(d.ufl_cell() for d in extract_domains({self.v}))"):
                    self.syms[tg.id] = "cells"
                    return self.stmts(rest, k)
                if self.syms.get("g") == "exponent" and d == src_of("g.value()"):
                    self.syms[tg.id] = "Z"
                    self.env[tg.id] = f"(Z.to_nat {tg.id})"
                    self.needs.add(tg.id)
                    if tg.id != "gi":
                        raise Untranslatable("exponent value name")
                    return self.stmts(rest, k)
            if isinstance(tg, ast.Tuple) and d == src_of(f"{self.v}.ufl_operands") and len(tg.elts) == 2 \
                    and all(isinstance(x, ast.Name) for x in tg.elts) and len(self.params) == 2:
                self.syms[tg.elts[1].id] = "exponent"
                if tg.elts[1].id != "g":
                    raise Untranslatable("exponent operand name")
                return self.stmts(rest, k)
        raise Untranslatable(f"{self.f.name}: statement {ast.unparse(s)[:80]}")

    def wrap(self, t):
        return f"(Some {t})" if self.option else t


COEFFICIENT_BODY = """
e = v.ufl_element()
e = self.element_replace_map.get(e, e)
d = e.embedded_superdegree
if d is None:
    d = self.default_degree
return d
"""

INDEXED_PRELUDE = """
op = v.ufl_operands[0]
multiindex = v.ufl_operands[1]
if isinstance(op, (Argument, Coefficient)) and all(isinstance(idx, FixedIndex) for idx in multiindex):
    element = op.ufl_element()
    if isinstance(op, Coefficient):
        element = self.element_replace_map.get(element, element)
    sub_elements = element.sub_elements
    if sub_elements and len(multiindex) == len(op.ufl_shape):
        component = flatten_multiindex([int(idx) for idx in multiindex], shape_to_strides(op.ufl_shape))
        offset = 0
        LOOP
return A
"""


INDEXED_PRELUDE_FIXED = INDEXED_PRELUDE.replace(
    "    if sub_elements and len(multiindex) == len(op.ufl_shape):",
    "    if (sub_elements and len(multiindex) == len(op.ufl_shape)\n"
    "            and not isinstance(element.pullback, SymmetricPullback)\n"
    "            and product(op.ufl_shape) == element.reference_value_size):")

ATTACH_BODY = """
integrals = form.integrals()
new_integrals = []
for integral in integrals:
    md = {}
    md.update(integral.metadata())
    degree = estimate_total_polynomial_degree(integral.integrand())
    md["estimated_polynomial_degree"] = degree
    new_integrals.append(integral.reconstruct(metadata=md))
return Form(new_integrals)
"""

VARIANT = {"fixed": None}      # which variant of `indexed` the source implements (set by detect_variant)


def _class_def():
    tree = ast.parse(open(SRC).read())
    return next((n for n in tree.body if isinstance(n, ast.ClassDef) and n.name == "SumDegreeEstimator"), None)


def detect_variant():
    """True: `indexed` is the fixed variant (fixes/C18-indexed-physical-owner.diff), False: the pinned
    one, None: neither prelude is recognised (the model then uses the pinned variant and T1 fails)."""
    cls = _class_def()
    VARIANT["fixed"] = None
    if cls is not None:
        for s in cls.body:
            if isinstance(s, ast.FunctionDef) and s.name == "indexed":
                import copy
                try:
                    translate_indexed(copy.deepcopy(s))
                except Untranslatable:
                    pass
    return VARIANT["fixed"]


def check_attach():
    """attach_estimated_degrees (compute_form_data.py) is pinned syntactically: it must ASSIGN the fresh
    estimate of the current integrand to metadata['estimated_polynomial_degree'] of every integral."""
    path = os.path.join(vlib.REPO, "ufl", "algorithms", "compute_form_data.py")
    tree = ast.parse(open(path).read())
    f = next((n for n in tree.body if isinstance(n, ast.FunctionDef) and n.name == "attach_estimated_degrees"), None)
    if f is None:
        return "attach_estimated_degrees not found"
    if dump(ast.Module(body=strip_doc(f.body), type_ignores=[])) != dump(ast.parse(ATTACH_BODY.strip("\n"))):
        return "attach_estimated_degrees: body changed"
    return None


def translate_indexed(fdef):
    """The prelude of `indexed` is compared syntactically with the structure the model's
    [indexed_walk] mirrors; the loop is translated into the Fixpoint gen_walk."""
    body = strip_doc(fdef.body)
    names = [a.arg for a in fdef.args.args]
    if names != ["self", "v", "A", "ii"]:
        raise Untranslatable("indexed: signature")
    # locate the for loop
    try:
        if1 = body[2]
        if2 = if1.body[3]
        loop = if2.body[2]
    except (IndexError, AttributeError):
        raise Untranslatable("indexed: structure")
    if not isinstance(loop, ast.For) or loop.orelse or len(if2.body) != 3 or len(if1.body) != 4 or len(body) != 4:
        raise Untranslatable("indexed: structure")
    marker = ast.parse("LOOP").body[0]
    if2.body[2] = marker
    got = dump(ast.Module(body=body, type_ignores=[]))
    if got == dump(ast.parse(INDEXED_PRELUDE.strip("\n"))):
        VARIANT["fixed"] = False
    elif got == dump(ast.parse(INDEXED_PRELUDE_FIXED.strip("\n"))):
        VARIANT["fixed"] = True
    else:
        raise Untranslatable("indexed: the statements around the loop changed")
    if2.body[2] = loop
    # the loop: for sub_element in sub_elements: <body>
    if not (isinstance(loop.target, ast.Name) and loop.target.id == "sub_element") \
            or dump(loop.iter) != src_of("sub_elements"):
        raise Untranslatable("indexed: loop header")
    attr = {"reference_value_size": "ref_size", "embedded_superdegree": "superdeg"}
    env = {"component": "component", "offset": "offset"}
    f = Fn(ast.parse("def walk(self, v): pass").body[0], option=True)
    f.env = env
    new_offset = None
    out = None
    stm = list(loop.body)

    def tr(stm):
        nonlocal new_offset
        if not stm:
            if new_offset is None:
                raise Untranslatable("indexed: loop does not advance the offset")
            return f"gen_walk t component {new_offset}"
        s, rest = stm[0], stm[1:]
        if isinstance(s, ast.Assign) and len(s.targets) == 1 and isinstance(s.targets[0], ast.Name) \
                and isinstance(s.value, ast.Attribute) and dump(s.value.value) == src_of("sub_element") \
                and s.value.attr in attr:
            f.env[s.targets[0].id] = attr[s.value.attr]
            if s.value.attr == "embedded_superdegree":
                f.syms[s.targets[0].id] = "subdeg"
            return tr(rest)
        if isinstance(s, ast.AugAssign) and isinstance(s.op, ast.Add) and isinstance(s.target, ast.Name) \
                and s.target.id == "offset" and not rest:
            new_offset = f"(offset + {f.exp(s.value)})"
            return tr(rest)
        if isinstance(s, ast.If) and not s.orelse:
            c = f.cond(s.test)
            saved = dict(f.env), dict(f.syms)
            a = f.stmts_loop(s.body)
            f.env, f.syms = saved
            return f"(if {c} then {a} else {tr(rest)})"
        raise Untranslatable(f"indexed: loop statement {ast.unparse(s)[:60]}")

    def stmts_loop(b):
        if len(b) == 2 and isinstance(b[0], ast.Assign):
            s = b[0]
            if isinstance(s.value, ast.Attribute) and dump(s.value.value) == src_of("sub_element") and s.value.attr in attr \
                    and isinstance(s.targets[0], ast.Name):
                f.env[s.targets[0].id] = attr[s.value.attr]
                if s.value.attr == "embedded_superdegree":
                    f.syms[s.targets[0].id] = "subdeg"
                return f.stmts(b[1:], None)
        return f.stmts(b, None)

    f.stmts_loop = stmts_loop
    body_t = tr(stm)
    return ("Fixpoint gen_walk (subs : list (nat * nat)) (component offset : nat) : option nat :=\n"
            "  match subs with\n  | [] => None\n  | (ref_size, superdeg) :: t => " + body_t + "\n  end.\n")


HEADER = """(* GENERATED by py/C18_rules.py from ufl/algorithms/estimate_degrees.py -- do not edit *)
Require Import UFLV.Props.C18_model.
Require Import Lia String.
Section Rules.
Variable quad : bool.
Definition TUPLE_RESULT := 0.   (* tuple degrees of tensor-product cells: out of scope, unreachable *)
Lemma fold_max_app0 l : fold_right Nat.max 0 (l ++ [0]) = fold_right Nat.max 0 l.
Proof. induction l as [|x t IH]; cbn; [reflexivity | rewrite IH; reflexivity]. Qed.
Ltac ifs := repeat match goal with
                   | |- context [if ?c then _ else _] => destruct c eqn:?
                   | |- context [match ?c with 0 => _ | S _ => _ end] => destruct c eqn:?
                   end.
Ltac case_nat := repeat match goal with
  | |- context [Nat.eqb ?x 0] => is_var x; destruct x
  | |- context [match ?x with 0 => _ | S _ => _ end] => is_var x; destruct x
  end.
Ltac fin := first [ reflexivity | discriminate | f_equal; lia | lia ].
Ltac t1 := intros; repeat autounfold with c18gen;
           cbv [dval table option_map existsb nth TUPLE_RESULT add_degrees max_degrees reduce_degree power_rule];
           rewrite ?fold_max_app0; cbn [fold_right app andb orb negb];
           first [ reflexivity
                 | solve [ ifs; cbn in *; fin ]
                 | solve [ case_nat; cbn; first [ fin | ifs; cbn in *; fin ] ] ].
"""


def emit(run):
    """Write and check coq/Gen/C18_rules.v.  Returns [(obligation name, ok, message)]."""
    cls = _class_def()
    out = [HEADER]
    problems = []
    pa = check_attach()
    if pa:
        problems.append(pa)
    lemmas = []
    if cls is None:
        problems.append("class SumDegreeEstimator not found")
        cls_body = []
    else:
        cls_body = strip_doc(cls.body)
    defs, aliases, order = {}, {}, []
    for s in cls_body:
        if isinstance(s, ast.FunctionDef):
            defs[s.name] = s
            order.append(s.name)
        elif isinstance(s, ast.Assign) and len(s.targets) == 1 and isinstance(s.targets[0], ast.Name) \
                and isinstance(s.value, ast.Name):
            aliases[s.targets[0].id] = s.value.id
            order.append(s.targets[0].id)
        else:
            problems.append(f"class body statement not understood: {ast.unparse(s)[:80]}")
    known = set(HNAMES) | set(HELPERS) | {"__init__"}
    for n in order:
        if n not in known:
            problems.append(f"unknown handler {n}")
    for n in HNAMES + HELPERS:
        if n not in defs and n not in aliases:
            problems.append(f"missing handler {n}")

    sigs = {}       # name -> (binders text, application args text)

    def gen_function(name):
        f = defs[name]
        option = name not in ("_reduce_degree", "_add_degrees", "_max_degrees")
        if name == "coefficient":
            if dump(ast.Module(body=strip_doc(f.body), type_ignores=[])) != dump(ast.parse(COEFFICIENT_BODY.strip("\n"))):
                raise Untranslatable("coefficient: body changed")
            sigs[name] = (["(elem_super : nat)"], ["elem_super"], [])
            return "Definition gen_coefficient (elem_super : nat) : option nat := Some elem_super.\n"
        if name == "indexed":
            sigs[name] = (["(A ii : nat)", "(special : nat)"], ["A", "ii"], [])
            return translate_indexed(f) + "Definition gen_indexed (A ii special : nat) : option nat := Some special.\n"
        if name == "__init__":
            return ""
        fn = Fn(f, option)
        body = fn.stmts(strip_doc(f.body), None)
        binders = []
        extra = []
        for x in sorted(fn.needs):
            ty = {"g_is_int": "bool", "cellwise_constant": "bool", "gi": "Z"}.get(x, "nat")
            extra.append(f"({x} : {ty})")
        if fn.params:
            binders.append("(" + " ".join(fn.params) + " : nat)")
        if fn.vararg:
            binders.append(f"({fn.vararg} : list nat)")
        sigs[name] = (binders, fn.params + ([fn.vararg] if fn.vararg else []), extra)
        rt = "option nat" if option else "nat"
        return f"Definition gen_{name} {' '.join(extra + binders)} : {rt} := {body}.\n"

    generated = set()
    for name in HELPERS + [n for n in order if n in defs and n not in HELPERS]:
        if name not in defs:
            continue
        try:
            out.append(gen_function(name))
            if name != "__init__":
                out.append(f"Hint Unfold gen_{name} : c18gen.\n")
            generated.add(name)
        except Untranslatable as ex:
            problems.append(str(ex))
    for a, b in aliases.items():
        tgt = b
        hops = 0
        while tgt in aliases and hops < 5:
            tgt = aliases[tgt]
            hops += 1
        if tgt in generated:
            if tgt in ("_reduce_degree", "_add_degrees", "_max_degrees"):
                bs, ar, _ = sigs[tgt]
                out.append(f"Definition gen_{a} {' '.join(bs)} : option nat := Some (gen_{tgt} {' '.join(ar)}).\n")
            else:
                out.append(f"Definition gen_{a} := gen_{tgt}.\n")
            out.append(f"Hint Unfold gen_{a} : c18gen.\n")
            sigs[a] = sigs[tgt]
            generated.add(a)
        else:
            problems.append(f"alias {a} = {b}: target not translated")

    # obligations: the generated function is the interpretation of the model's table entry
    def lemma(name, stmt):
        lemmas.append(name)
        out.append(f"Lemma {name} : {stmt}.\nProof. t1. Qed.\n")

    for h in HNAMES:
        if h not in generated:
            continue
        binders, args, extra = sigs[h]
        if h == "coefficient" or h == "argument":
            lemma(f"rule_{h}", f"forall s : nat, dval quad [] s (table h_{h}) = gen_{h} s")
        elif h == "spatial_coordinate":
            lemma(f"rule_{h}", f"forall s : nat, dval quad [] s (table h_{h}) = gen_{h} s")
        elif h == "geometric_quantity":
            lemma(f"rule_{h}", "forall (cw : bool) (cd : nat), dval quad [] (if cw then 0 else cd) "
                               f"(table h_{h}) = gen_{h} cw cd")
        elif h == "power":
            lemma("rule_power_int", "forall a b gi, dval quad [a; b] (power_rule a (Some gi)) (table h_power) "
                                    "= gen_power true gi a b")
            lemma("rule_power_other", "forall a b gi, dval quad [a; b] (power_rule a None) (table h_power) "
                                      "= gen_power false gi a b")
        elif h == "indexed":
            lemma("rule_indexed", "forall A ii s, dval quad [A; ii] s (table h_indexed) = gen_indexed A ii s")
            lemmas.append("rule_walk")
            out.append("Lemma rule_walk : forall subs component offset, gen_walk subs component offset = walk subs component offset.\n"
                       "Proof. induction subs as [|[sz d] t IH]; intros; cbn [gen_walk walk]; [reflexivity|]. "
                       "rewrite IH. reflexivity. Qed.\n")
        else:
            names = []
            bs = []
            lst = None
            for b in binders:
                bs.append(b)
            pn = [a for a in args]
            if any("list nat" in b for b in binders):
                if len(pn) != 1:
                    problems.append(f"{h}: mixed positional and variable operands")
                    continue
                lst = pn[0]
            else:
                lst = "[" + "; ".join(pn) + "]"
            ex = [x.split()[0].strip("(") for x in extra]
            if ex:
                problems.append(f"{h}: unexpected symbolic inputs {ex}")
                continue
            q = " ".join(bs)
            lemma(f"rule_{h}", (f"forall {q}, " if q else "") + f"dval quad {lst} 0 (table h_{h}) = gen_{h} {' '.join(pn)}")
    # helper arithmetic = the model's
    if "_add_degrees" in generated:
        lemma("helper_add", "forall ops, gen__add_degrees ops = add_degrees ops")
    if "_max_degrees" in generated:
        lemma("helper_max", "forall ops, gen__max_degrees ops = max_degrees ops")
    if "_reduce_degree" in generated:
        lemma("helper_reduce", "forall f, gen__reduce_degree f = reduce_degree quad f")
    out.append("End Rules.\nOpen Scope string_scope.\n")

    # dispatch of the real MultiFunction
    try:
        from ufl.algorithms.estimate_degrees import SumDegreeEstimator
        from ufl.core.expr import Expr
        from ufl.corealg.multifunction import MultiFunction
        SumDegreeEstimator(1, {})
        names = MultiFunction._handlers_cache[SumDegreeEstimator][0]
        real = {c.__name__: names[c._ufl_typecode_] for c in Expr._ufl_all_classes_}
        disp = [(c, real.get(c, "?")) for c, _ in MODEL_DISPATCH]
    except Exception as ex:     # noqa: BLE001
        problems.append(f"dispatch introspection failed: {ex!r}")
        disp = []
    fmt = lambda l: "[" + "; ".join(f'("{a}", "{b}")' for a, b in l) + "]"  # noqa: E731
    out.append(f"Definition gen_dispatch : list (string * string) := {fmt(disp)}.\n")
    out.append(f"Definition model_dispatch : list (string * string) := {fmt(MODEL_DISPATCH)}.\n")
    out.append("Example dispatch_ok : gen_dispatch = model_dispatch.\nProof. reflexivity. Qed.\n")
    lemmas.append("dispatch_ok")
    pl = "[" + "; ".join('"' + p.replace('"', "'")[:150] + '"' for p in problems) + "]"
    out.append(f"Definition translation_problems : list string := {pl}.\n")
    out.append("Example translation_complete : translation_problems = [].\nProof. reflexivity. Qed.\n")
    lemmas.append("translation_complete")

    path = os.path.join(vlib.GEN, "C18_rules.v")
    vlib.write_if_changed(path, "".join(out))
    results = []
    masked = set()
    for _ in range(40):
        r = vlib.coqc(path, timeout=300)
        names = [n for n in lemmas if n not in masked]
        if r.ok:
            run.add_coq_result(r, names)
            break
        fl = r.failing_lemma()
        if fl not in names:
            run.add_coq_result(r, names)
            results.append(("C18_rules.v", False, (r.err or "")[-600:]))
            break
        msg = "; ".join(problems) if fl == "translation_complete" else " ".join((r.err or "").split("\n")[-4:])[:400]
        results.append((fl, False, msg))
        run.obligations.append((fl, "Gen/C18_rules.v"))
        run.failed.append((fl, "Gen/C18_rules.v", msg))
        masked.add(fl)
        src = open(path).read()
        for kw in ("Lemma", "Example"):
            key = f"{kw} {fl} "
            if key in src:
                i = src.index(key)
                j = src.index("Qed.", i)
                k0 = src.index("Proof.", i)
                src = src[:k0] + "Proof. Abort." + src[j + 4:]
                break
        with open(path, "w") as f:
            f.write(src)
    run.extra["t1_handlers_translated"] = len(generated)
    run.extra["t1_problems"] = problems
    return results
