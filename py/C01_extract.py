"""T1 translator for C01: the stage list of compute_form_data / preprocess_form / FormData.__init__
as a Gallina function of the option record, extracted from the Python source with `ast`.

Fail-closed: every statement of the three functions must be one of the recognised shapes; anything
else raises Unrecognised, which the check reports as a broken tie."""

import ast
import os


class Unrecognised(Exception):
    pass


# callee name -> Gallina stage (None = bookkeeping that does not touch integrands)
STAGE_OF_CALL = {
    "do_comparison_check": "ComparisonCheck",
    "apply_algebra_lowering": "AlgebraLowering",
    "remove_complex_nodes": "RemoveComplexNodes",
    "apply_derivatives": "ApplyDerivatives",
    "group_form_integrals": "GroupIntegrals",
    "attach_estimated_degrees": "AttachDegrees",
    "apply_function_pullbacks": "FunctionPullbacks",
    "apply_integral_scaling": "IntegralScaling",
    "remove_component_tensors": "RemoveComponentTensors",
    "cancel_jacobian_products": "CancelJacobianProducts",
    "apply_coordinate_derivatives": "CoordinateDerivatives",
    "build_integral_data": "BuildIntegralData",
    "_check_elements": "CheckElements",
    "_check_facet_geometry": "CheckFacetGeometry",
    "_check_form_arity": "CheckArity",
}
OPTION_FIELD = {
    "do_apply_function_pullbacks": "o_pullbacks", "do_apply_integral_scaling": "o_scaling",
    "do_apply_geometry_lowering": "o_geometry", "do_cancel_jacobian_products": "o_cancel",
    "do_apply_default_restrictions": "o_default_restr", "do_apply_restrictions": "o_restr",
    "do_estimate_degrees": "o_degrees", "do_replace_functions": "o_replace", "complex_mode": "o_complex",
    "do_remove_component_tensors": "o_remove_ct",
}


def cond_to_coq(node):
    """option guards -> Gallina bool over the record o"""
    if isinstance(node, ast.Name) and node.id in OPTION_FIELD:
        return f"{OPTION_FIELD[node.id]} o"
    if isinstance(node, ast.UnaryOp) and isinstance(node.op, ast.Not):
        return f"negb ({cond_to_coq(node.operand)})"
    if isinstance(node, ast.BoolOp):
        op = "||" if isinstance(node.op, ast.Or) else "&&"
        return "(" + f" {op} ".join(cond_to_coq(v) for v in node.values) + ")"
    if isinstance(node, ast.Compare) and len(node.ops) == 1 and isinstance(node.comparators[0], ast.Constant) \
            and node.comparators[0].value is None and isinstance(node.left, ast.Name) \
            and node.left.id == "coefficients_to_split":
        # `coefficients_to_split is None`  -> not o_split
        return "negb (o_split o)" if isinstance(node.ops[0], ast.Is) else "o_split o"
    raise Unrecognised("guard " + ast.unparse(node))


def _call_name(node):
    if isinstance(node, ast.Call):
        f = node.func
        if isinstance(f, ast.Name):
            return f.id
    return None


class Extractor:
    def __init__(self, repo):
        self.repo = repo
        self.preserve_jac_var = None

    def func(self, relpath, name, cls=None):
        tree = ast.parse(open(os.path.join(self.repo, relpath)).read())
        body = tree.body
        if cls:
            body = next(n for n in body if isinstance(n, ast.ClassDef) and n.name == cls).body
        return next(n for n in body if isinstance(n, ast.FunctionDef) and n.name == name)

    # ---- compute_form_data / preprocess_form: straight-line code with option guards
    def block(self, stmts, inline):
        out = []
        for st in stmts:
            out.extend(self.stmt(st, inline))
        return out

    def stmt(self, st, inline):
        if isinstance(st, ast.Expr) and isinstance(st.value, ast.Constant) and isinstance(st.value.value, str):
            return []                                   # docstring
        if isinstance(st, ast.If):
            c = cond_to_coq(st.test)
            # special: the if/else that only chooses lowering_preserve_types
            if all(isinstance(s, ast.Assign) and ast.unparse(s.targets[0]) == "lowering_preserve_types"
                   for s in st.body + st.orelse):
                self.preserve_jac_var = c
                return []
            a = self.block(st.body, inline)
            b = self.block(st.orelse, inline)
            return [("if", c, a, b)]
        if isinstance(st, ast.Assign):
            tgt = ast.unparse(st.targets[0])
            call = _call_name(st.value)
            if tgt == "original_form" and ast.unparse(st.value) == "form":
                return []
            if tgt == "form" and call == "preprocess_form" and inline is not None:
                return inline
            if tgt == "form" and call == "apply_geometry_lowering":
                arg = ast.unparse(st.value.args[1]) if len(st.value.args) > 1 else None
                if arg == "lowering_preserve_types":
                    return [("geom", "preserve")]
                if arg == "preserve_geometry_types":
                    return [("geom", "final")]
                raise Unrecognised("geometry lowering argument " + str(arg))
            if tgt in ("form", "integral_data") and call in STAGE_OF_CALL:
                # the integrands must flow through: first positional argument is form / form.integrals()
                a0 = ast.unparse(st.value.args[0]) if st.value.args else ""
                if a0 not in ("form", "form.integrals()"):
                    raise Unrecognised("stage input " + ast.unparse(st))
                return [("stage", STAGE_OF_CALL[call])]
            raise Unrecognised("assignment " + ast.unparse(st)[:80])
        if isinstance(st, ast.Return):
            if _call_name(st.value) == "FormData":
                kw = {k.arg: ast.unparse(k.value) for k in st.value.keywords}
                for k, v in kw.items():
                    if k != v:
                        raise Unrecognised("FormData keyword " + k + "=" + v)
                if [ast.unparse(a) for a in st.value.args] != ["original_form", "integral_data"]:
                    raise Unrecognised("FormData arguments")
                return [("formdata",)]
            if ast.unparse(st.value) == "form":
                return []
        raise Unrecognised("statement " + ast.unparse(st)[:80])

    # ---- FormData.__init__: loops; only the order and guards of the integrand-touching calls matter
    def formdata_calls(self):
        fn = self.func("ufl/algorithms/formdata.py", "__init__", "FormData")
        found = []

        def walk(stmts, guards):
            for st in stmts:
                if isinstance(st, ast.If):
                    try:
                        c = cond_to_coq(st.test)
                    except Unrecognised:
                        c = None          # data-dependent guard (e.g. no interior facet integral): keep stages
                    walk(st.body, guards + ([c] if c else []))
                    walk(st.orelse, guards + ([f"negb ({c})"] if c else []))
                elif isinstance(st, (ast.For, ast.While)):
                    walk(st.body, guards)
                else:
                    for node in ast.walk(st):
                        nm = _call_name(node)
                        if nm == "replace":
                            found.append(("ReplaceFunctions", list(guards)))
                        elif nm == "CoefficientSplitter":
                            found.append(("SplitCoefficients", list(guards)))
                        elif nm == "apply_restrictions":
                            kws = {k.arg for k in node.keywords}
                            found.append(("ApplyRestrictions" if "default_restrictions" in kws
                                          else "ApplyRestrictionsForSplit", list(guards)))
                        elif nm in ("_check_elements", "_check_facet_geometry", "_check_form_arity"):
                            found.append((STAGE_OF_CALL[nm], list(guards)))
                        elif isinstance(node, ast.Raise):
                            pass
        walk(fn.body, [])
        return found

    def render(self, items):
        parts = []
        for it in items:
            if it[0] == "stage":
                parts.append(f"[{it[1]}]")
            elif it[0] == "geom":
                if it[1] == "preserve":
                    if self.preserve_jac_var is None:
                        raise Unrecognised("lowering_preserve_types not defined before use")
                    parts.append(f"[GeometryLowering ({self.preserve_jac_var})]")
                else:
                    parts.append("[GeometryLowering false]")
            elif it[0] == "if":
                a = self.render(it[2])
                b = self.render(it[3])
                parts.append(f"(if {it[1]} then {a} else {b})")
            elif it[0] == "formdata":
                for nm, guards in self.formdata_calls():
                    g = " && ".join(f"({x})" for x in guards) or "true"
                    if nm == "ApplyRestrictions":
                        st = "[ApplyRestrictions (o_default_restr o)]"
                    elif nm == "ApplyRestrictionsForSplit":
                        st = "[ApplyRestrictions false]"
                    else:
                        st = f"[{nm}]"
                    parts.append(f"(if {g} then {st} else [])")
        return "(" + " ++ ".join(parts) + ")" if parts else "[]"

    def extracted(self):
        pre = self.func("ufl/algorithms/compute_form_data.py", "preprocess_form")
        pre_items = self.block(pre.body, None)
        main = self.func("ufl/algorithms/compute_form_data.py", "compute_form_data")
        items = self.block(main.body, pre_items)
        return self.render(items)
