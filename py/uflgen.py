"""Generic symbolic operands for traced obligations: meshes, function spaces, coefficients."""

import ufl
from elements import FiniteElement, LagrangeElement, MixedElement, SymmetricElement  # noqa: F401
from ufl.pullback import identity_pullback
from ufl.sobolevspace import H1

CELLS = {"interval": ufl.interval, "triangle": ufl.triangle, "tetrahedron": ufl.tetrahedron}

_mesh_cache = {}


def mesh(cell="triangle", gdim=None):
    c = CELLS[cell] if isinstance(cell, str) else cell
    g = gdim or c.topological_dimension
    key = (c.cellname, g)
    if key not in _mesh_cache:
        _mesh_cache[key] = ufl.Mesh(LagrangeElement(c, 1, (g,)))
    return _mesh_cache[key]


def space(shape=(), cell="triangle", gdim=None, degree=1):
    m = mesh(cell, gdim)
    return ufl.FunctionSpace(m, LagrangeElement(m.ufl_cell(), degree, tuple(shape)))


def coef(shape=(), cell="triangle", gdim=None, degree=1):
    return ufl.Coefficient(space(shape, cell, gdim, degree))


def const(shape=(), cell="triangle", gdim=None):
    return ufl.Constant(mesh(cell, gdim), tuple(shape))


def arg(number, shape=(), cell="triangle", gdim=None, degree=1):
    return ufl.Argument(space(shape, cell, gdim, degree), number)
