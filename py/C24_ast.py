"""C24, tie T1: read the `evaluate` methods of /repo with `ast`.

 * straight-line methods (operands evaluated with the incoming arguments, then one Python
   operation) are TRANSLATED into the rule language of coq/Props/C24_inst.v (`RBin op ca cb`,
   `RUn op ca`); the generated table is compared with the model's `model_rules` by the Coq kernel
   (Gen/C24_rules.v, reflexivity);
 * methods with loops / branches / try blocks (Sum, Product, IndexSum, ComponentTensor, ListTensor,
   Indexed, Conditional, MinValue, MaxValue, math functions, Terminal, Grad, literals, MultiIndex,
   SpatialCoordinate, _eval, StackDict) are hand-modelled; their bodies are compared, after
   alpha-renaming of local variables and removal of docstrings / warning texts, with the normal
   form the model was written against (fail closed: any other body is a broken tie).

Fail-closed: a class that has no `evaluate` where one is expected, or syntax outside the small
whitelist, is reported as a broken tie, never as success."""

import ast
import hashlib
import os

import vlib

# (class index in model_rules, file, class)
STRAIGHT = [
    (0, "algebra.py", "Division"), (1, "algebra.py", "Power"), (2, "algebra.py", "Abs"),
    (3, "algebra.py", "Conj"), (4, "algebra.py", "Real"), (5, "algebra.py", "Imag"),
    (6, "conditional.py", "EQ"), (7, "conditional.py", "NE"), (8, "conditional.py", "LE"),
    (9, "conditional.py", "GE"), (10, "conditional.py", "LT"), (11, "conditional.py", "GT"),
    (12, "conditional.py", "AndCondition"), (13, "conditional.py", "OrCondition"),
    (14, "conditional.py", "NotCondition"), (15, "variable.py", "Variable"),
    (16, "restriction.py", "Restricted"), (17, "averaging.py", "CellAvg"),
    (18, "averaging.py", "FacetAvg"),
]

CUSTOM = [
    ("algebra.py", "Sum", "evaluate"), ("algebra.py", "Product", "evaluate"),
    ("indexsum.py", "IndexSum", "evaluate"), ("indexed.py", "Indexed", "evaluate"),
    ("tensors.py", "ListTensor", "evaluate"), ("tensors.py", "ComponentTensor", "evaluate"),
    ("conditional.py", "Conditional", "evaluate"), ("conditional.py", "MinValue", "evaluate"),
    ("conditional.py", "MaxValue", "evaluate"),
    ("mathfunctions.py", "MathFunction", "evaluate"), ("mathfunctions.py", "Ln", "evaluate"),
    ("mathfunctions.py", "Erf", "evaluate"), ("mathfunctions.py", "Atan2", "evaluate"),
    ("mathfunctions.py", "BesselFunction", "evaluate"),
    ("constantvalue.py", "Zero", "evaluate"), ("constantvalue.py", "ScalarValue", "evaluate"),
    ("constantvalue.py", "Identity", "evaluate"), ("constantvalue.py", "PermutationSymbol", "evaluate"),
    ("constantvalue.py", "PermutationSymbol", "_PermutationSymbol__eps"),
    ("core/terminal.py", "Terminal", "evaluate"), ("core/multiindex.py", "MultiIndex", "evaluate"),
    ("geometry.py", "SpatialCoordinate", "evaluate"),
    ("differentiation.py", "Grad", "evaluate"), ("differentiation.py", "ReferenceGrad", "evaluate"),
    ("core/expr.py", "Expr", "evaluate"),
    ("utils/stacks.py", "StackDict", "push"), ("utils/stacks.py", "StackDict", "pop"),
    ("exproperators.py", None, "_eval"), ("exproperators.py", None, "_call"),
]

# classes that must NOT define their own evaluate (they inherit the modelled one)
INHERIT = [("constantvalue.py", "IntValue"), ("constantvalue.py", "FloatValue"),
           ("constantvalue.py", "ComplexValue"), ("constantvalue.py", "RealValue"),
           ("coefficient.py", "Coefficient"), ("constant.py", "Constant"),
           ("restriction.py", "PositiveRestricted"), ("restriction.py", "NegativeRestricted"),
           ("mathfunctions.py", "Sqrt"), ("mathfunctions.py", "Exp"), ("mathfunctions.py", "Cos"),
           ("mathfunctions.py", "Sin"), ("mathfunctions.py", "Tan"), ("mathfunctions.py", "Cosh"),
           ("mathfunctions.py", "Sinh"), ("mathfunctions.py", "Tanh"), ("mathfunctions.py", "Acos"),
           ("mathfunctions.py", "Asin"), ("mathfunctions.py", "Atan")]

BINOPS = {ast.Div: 1, ast.Pow: 2}
CMPOPS = {ast.Eq: 3, ast.NotEq: 4, ast.LtE: 5, ast.GtE: 6, ast.Lt: 7, ast.Gt: 8}
BOOLOPS = {ast.And: 9, ast.Or: 10}


class Broken(Exception):
    pass


_trees = {}


def tree(fname):
    if fname not in _trees:
        path = os.path.join(vlib.REPO, "ufl", fname)
        _trees[fname] = ast.parse(open(path).read())
    return _trees[fname]


def find_method(fname, cls, meth):
    t = tree(fname)
    if cls is None:
        for n in t.body:
            if isinstance(n, ast.FunctionDef) and n.name == meth:
                return n
        return None
    for n in t.body:
        if isinstance(n, ast.ClassDef) and n.name == cls:
            for b in n.body:
                name = getattr(b, "name", None)
                if isinstance(b, ast.FunctionDef) and (name == meth or f"_{cls}{name}" == meth):
                    return b
            return None
    raise Broken(f"class {cls} not found in ufl/{fname}")


def body_without_doc(fn):
    body = list(fn.body)
    if body and isinstance(body[0], ast.Expr) and isinstance(getattr(body[0], "value", None), ast.Constant) \
            and isinstance(body[0].value.value, str):
        body = body[1:]
    return body


# ---- straight-line translator -----------------------------------------------------------------

def _operand_eval(call):
    """operands[k].evaluate(x, mapping, <comp>, index_values) -> (k, comp) or None"""
    if not (isinstance(call, ast.Call) and isinstance(call.func, ast.Attribute) and call.func.attr == "evaluate"):
        return None
    args = [ast.unparse(a) for a in call.args]
    if len(args) != 4 or call.keywords or args[0] != "x" or args[1] != "mapping" or args[3] != "index_values":
        raise Broken("unexpected arguments of evaluate(): " + ast.unparse(call))
    comp = {"component": "CPass", "()": "CEmpty"}.get(args[2])
    if comp is None:
        raise Broken("unexpected component argument: " + ast.unparse(call))
    tgt = call.func.value
    return tgt, comp


def translate_straight(fn):
    """Symbolically execute a straight-line evaluate method.  Values: ('op', k, comp) = the value of
    operand k evaluated at comp; ('operand', k) = the operand expression itself."""
    env = {}

    def operand_ref(node):
        # self.ufl_operands[k]  or a name bound to an operand
        if isinstance(node, ast.Subscript) and ast.unparse(node.value) == "self.ufl_operands" \
                and isinstance(node.slice, ast.Constant):
            return int(node.slice.value)
        if isinstance(node, ast.Name) and env.get(node.id, (None,))[0] == "operand":
            return env[node.id][1]
        return None

    def value(node):
        if isinstance(node, ast.Name):
            if node.id not in env or env[node.id][0] != "val":
                raise Broken("unbound name " + node.id)
            return env[node.id][1:]
        oe = _operand_eval(node) if isinstance(node, ast.Call) else None
        if oe:
            k = operand_ref(oe[0])
            if k is None:
                raise Broken("evaluate() of something that is not an operand: " + ast.unparse(node))
            return (k, oe[1])
        raise Broken("unsupported value: " + ast.unparse(node))

    def result(node):
        # the returned Python expression
        if isinstance(node, ast.Call) and isinstance(node.func, ast.Name) and node.func.id == "bool" \
                and len(node.args) == 1:
            return result(node.args[0])
        if isinstance(node, ast.BinOp) and type(node.op) in BINOPS:
            return ("bin", BINOPS[type(node.op)], value(node.left), value(node.right))
        if isinstance(node, ast.Compare) and len(node.ops) == 1 and type(node.ops[0]) in CMPOPS:
            return ("bin", CMPOPS[type(node.ops[0])], value(node.left), value(node.comparators[0]))
        if isinstance(node, ast.BoolOp) and len(node.values) == 2 and type(node.op) in BOOLOPS:
            return ("bin", BOOLOPS[type(node.op)], value(node.values[0]), value(node.values[1]))
        if isinstance(node, ast.UnaryOp) and isinstance(node.op, ast.Not):
            return ("un", 5, value(node.operand))
        if isinstance(node, ast.Call) and isinstance(node.func, ast.Name) and node.func.id == "abs" \
                and len(node.args) == 1:
            return ("un", 1, value(node.args[0]))
        if isinstance(node, ast.Call) and isinstance(node.func, ast.Attribute) and node.func.attr == "conjugate" \
                and not node.args:
            return ("un", 2, value(node.func.value))
        if isinstance(node, ast.Attribute) and node.attr in ("real", "imag"):
            return ("un", 3 if node.attr == "real" else 4, value(node.value))
        return ("un", 6, value(node))

    for st in body_without_doc(fn):
        if isinstance(st, ast.Assign) and len(st.targets) == 1:
            tg = st.targets[0]
            if isinstance(tg, ast.Tuple) and ast.unparse(st.value) == "self.ufl_operands":
                for k, el in enumerate(tg.elts):
                    env[el.id] = ("operand", k)
                continue
            if isinstance(tg, ast.Name):
                env[tg.id] = ("val",) + tuple(value(st.value))
                continue
            raise Broken("unsupported assignment: " + ast.unparse(st))
        if isinstance(st, ast.Return):
            r = result(st.value)
            if r[0] == "bin":
                _, op, (ka, ca), (kb, cb) = r
                if (ka, kb) == (0, 1):
                    return f"RBin {op} {ca} {cb}"
                if (ka, kb) == (1, 0):
                    return f"RBin {100 + op} {cb} {ca}"       # operands swapped
                raise Broken(f"binary rule uses operands {ka},{kb}")
            _, op, (ka, ca) = r
            if ka != 0:
                return f"RUn {100 + op} {ca}"
            return f"RUn {op} {ca}"
        raise Broken("unsupported statement: " + ast.unparse(st)[:80])
    raise Broken("no return")


# ---- normal form of hand-modelled methods --------------------------------------------------------

class _Norm(ast.NodeTransformer):
    def __init__(self, params):
        self.names = {p: p for p in params}

    def visit_Name(self, node):
        if node.id in self.names or node.id in ("self",):
            nid = self.names.get(node.id, node.id)
        elif isinstance(node.ctx, ast.Store):
            self.names[node.id] = nid = f"v{len(self.names)}"
        else:
            nid = self.names.get(node.id, node.id)       # globals / builtins keep their name
        return ast.copy_location(ast.Name(id=nid, ctx=node.ctx), node)

    def visit_Call(self, node):
        # warning texts are irrelevant
        if ast.unparse(node.func) == "warnings.warn":
            return ast.Call(func=node.func, args=[], keywords=[])
        return self.generic_visit(node)

    def visit_Raise(self, node):
        # the message of an exception is irrelevant, its presence is not
        if node.exc is not None and isinstance(node.exc, ast.Call):
            return ast.Raise(exc=ast.Call(func=node.exc.func, args=[], keywords=[]), cause=None)
        return node


def normal_form(fn):
    params = [a.arg for a in fn.args.args] + [a.arg for a in fn.args.kwonlyargs]
    # pre-scan stores in order so that loads before stores (loops) get consistent names
    nm = _Norm(params)
    body = [nm.visit(ast.parse(ast.unparse(s)).body[0]) for s in body_without_doc(fn)]
    sig = ",".join(params) + "|" + ",".join(ast.unparse(d) for d in fn.args.defaults)
    return sig + "\n" + "\n".join(ast.unparse(ast.fix_missing_locations(b)) for b in body)


def digest(s):
    return hashlib.sha1(s.encode()).hexdigest()[:16]


def extract():
    """Returns (rules_text_for_coq, customs: {name: normal form}, problems: [str])."""
    problems = []
    rules = []
    for idx, fname, cls in STRAIGHT:
        try:
            fn = find_method(fname, cls, "evaluate")
            if fn is None:
                raise Broken("no evaluate method")
            rules.append((idx, cls, translate_straight(fn)))
        except (Broken, OSError, SyntaxError, AttributeError) as ex:
            problems.append(f"{cls}.evaluate: {ex}")
            rules.append((idx, cls, "RCustom 0"))
    customs = {}
    for fname, cls, meth in CUSTOM:
        name = f"{cls or fname}.{meth}"
        try:
            fn = find_method(fname, cls, meth)
            if fn is None:
                raise Broken("method not found")
            customs[name] = normal_form(fn)
        except (Broken, OSError, SyntaxError) as ex:
            problems.append(f"{name}: {ex}")
    for fname, cls in INHERIT:
        try:
            if find_method(fname, cls, "evaluate") is not None:
                problems.append(f"{cls} now defines its own evaluate (the model assumes it inherits)")
        except (Broken, OSError, SyntaxError) as ex:
            problems.append(f"{cls}: {ex}")
    return rules, customs, problems


def coq_rules_file(rules):
    lines = ["Require Import UFLV.Core.Den.", "Require Import UFLV.Props.C24_model UFLV.Props.C24_inst.",
             "(* generated by py/C24_ast.py from the `evaluate` methods of the working tree *)",
             "Definition gen_rules : list (nat * rule) :=", "  ["]
    lines.append("  ; ".join(f"({i}, {r})  (* {c} *)\n" for i, c, r in rules))
    lines.append("  ]%nat.")
    for i, c, r in rules:
        lines.append(f"Example rule_{c} : nth_error gen_rules {i} = nth_error model_rules {i}. "
                     f"Proof. reflexivity. Qed.")
    lines.append("Example rules_all : gen_rules = model_rules. Proof. reflexivity. Qed.")
    return "\n".join(lines) + "\n"
