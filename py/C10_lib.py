"""Shared machinery of the C10 / C09 checks: the property oracle on the real code (used only to
search for failing inputs and to route non-hygienic inputs), and the generated-obligation Case
for expression-to-expression passes with free indices.

Obligation emitted per case (tie T2), for every valuation v of the free indices of the input
(in range of their dimensions) and every component c of its shape:

    forall algebra env D DX s rho,
      den s (upds rho F v) out c = den s (upds rho F' v) inp c

where F lists the free indices (F' = F except for renumber_indices, whose output indices are
renamed).  Plus `shape`/`fidx` Examples tying the model's static semantics to the attributes the
implementation reports, and optional extra lemmas (T3 correspondence with the hand model)."""

import itertools
import random

import coqgen
import pyden
import ufl2coq


def free_of(e):
    return tuple(zip(e.ufl_free_indices, e.ufl_index_dimensions))


def static_mismatch(e):
    """Python mirror of C10_wf.wfdims on real objects: first node whose operands disagree on the
    extent of an index (or None)."""
    import ufl.classes as C
    from ufl.corealg.traversal import unique_pre_traversal

    def fd(x):
        return dict(zip(x.ufl_free_indices, x.ufl_index_dimensions))
    for x in unique_pre_traversal(e):
        if x._ufl_is_terminal_:
            continue
        ops = [o for o in x.ufl_operands if isinstance(o, C.Expr) and not isinstance(o, C.MultiIndex | C.Label)]
        if isinstance(x, C.Conditional):
            ops = ops[1:]
        if isinstance(x, C.Sum | C.Conditional | C.ListTensor):
            for o in ops[1:]:
                if fd(o) != fd(ops[0]):
                    return {"kind": "index-extents", "node": type(x).__name__, "node_str": str(x)[:300],
                            "operand_free_indices": [sorted(fd(o).items()) for o in ops]}
        elif isinstance(x, C.IndexSum):
            (k,) = x.ufl_operands[1]
            if fd(x.ufl_operands[0]).get(k.count()) != x.dimension():
                return {"kind": "index-extents", "node": "IndexSum", "node_str": str(x)[:300]}
        elif isinstance(x, C.Indexed):
            a, mi = x.ufl_operands
            for i, d in zip(mi, a.ufl_shape):
                if isinstance(i, C.Index) and fd(x).get(i.count()) != d:
                    return {"kind": "index-extents", "node": "Indexed", "node_str": str(x)[:300],
                            "index": i.count(), "axis_extent": d, "recorded": fd(x).get(i.count())}
        else:
            m = {}
            for o in ops:
                for i, d in fd(o).items():
                    if m.setdefault(i, d) != d:
                        return {"kind": "index-extents", "node": type(x).__name__, "node_str": str(x)[:300],
                                "index": i, "extents": [m[i], d]}
    return None


def mismatch(out, inp, trials=6, seed=0, env_factory=None, rename=None, nv=2):
    """Property oracle on the real objects: same shape, same free indices (after `rename`:
    in-count -> out-count), equal values for random exact rational fields.  Returns a JSON-able
    witness or None."""
    rename = rename or {}
    if tuple(out.ufl_shape) != tuple(inp.ufl_shape):
        return {"kind": "shape", "implementation": list(out.ufl_shape), "expected": list(inp.ufl_shape)}
    fin = free_of(inp)
    fexp = tuple(sorted((rename.get(i, i), d) for i, d in fin))
    if tuple(sorted(free_of(out))) != fexp:
        return {"kind": "free-indices", "implementation": [list(x) for x in free_of(out)],
                "expected": [list(x) for x in fexp]}
    sm = static_mismatch(out)
    if sm is not None and static_mismatch(inp) is None:
        return sm
    rng = random.Random(seed)
    comps = list(itertools.product(*[range(d) for d in inp.ufl_shape]))
    vals = list(itertools.product(*[range(d) for _, d in fin]))
    for t in range(trials):
        sd = rng.randrange(10**9)
        env = env_factory(sd) if env_factory else pyden.Env(nv=nv, order=0, seed=sd)
        for v in vals:
            rho_in = {i: x for (i, _), x in zip(fin, v)}
            rho_out = {rename.get(i, i): x for i, x in rho_in.items()}
            for c in comps:
                try:
                    a = pyden.evaluate(out, env, rho_out, c)
                    b = pyden.evaluate(inp, env, rho_in, c)
                except ZeroDivisionError:
                    continue
                except (pyden.Unsupported, OverflowError):
                    return None
                if not a.close_to(b):
                    return {"kind": "value", "component": list(c),
                            "free_index_values": {str(k): x for k, x in rho_in.items()},
                            "implementation_value": str(a.value()), "expected_value": str(b.value()),
                            "terminal_values": {str(k): str(x.value()) for k, x in list(env.cache.items())[:40]},
                            "env_seed": sd}
    return None


def preseed(ctx, *exprs):
    """number the indices in the order of their counts, so that the serialised free-index lists
    (which UFL keeps sorted by count) are sorted by the Coq ids as well"""
    import ufl
    from ufl.classes import Index, Label, MultiIndex
    from ufl.corealg.traversal import unique_pre_traversal
    cs = set()
    for e in exprs:
        if e is None:
            continue
        for x in unique_pre_traversal(e):
            if isinstance(x, MultiIndex):
                cs.update(i.count() for i in x if isinstance(i, Index))
            elif isinstance(x, ufl.core.expr.Expr) and not isinstance(x, Label):
                cs.update(x.ufl_free_indices)
    for c in sorted(cs):
        ctx.index(c)


def pairs(ctx, fi):
    return "[" + "; ".join(f"({ctx.index(i)}, {d})" for i, d in fi) + "]"


class PassCase(coqgen.Case):
    """out = pass(inp).  `rename`: dict in-count -> out-count (renumber_indices) or None.
    `extra(case, ser) -> (text, [lemma names])` adds further lemmas (T3).
    `value=False` suppresses the value obligations (known-class inputs on which the implementation
    is known to deviate; only the class membership and the model correspondence are stated)."""

    def __init__(self, name, out, inp, rename=None, extra=None, value=True, static=True, hyps=(),
                 tactic=None, note=None, ctx=None, preamble=None):
        super().__init__(name, out=out, inp=inp, note=note, ctx=ctx, tactic=tactic)
        self.rename = rename
        self.extra = extra
        self.value = value
        self.static = static
        self.hyps = list(hyps)
        self.preamble = preamble

    def emit(self):
        nm = self.name
        preseed(self.ctx, self.inp, self.out)
        ser = ufl2coq.Ser(self.ctx, prefix=f"{nm}_n")
        t_in = ser.expr(self.inp)
        t_out = ser.expr(self.out) if self.out is not None else None
        txt = [f"(* case {nm}: {self.note} *)\n", ser.definitions_text(),
               f"Definition {nm}_in : expr := {t_in}.\n"]
        if t_out is not None:
            txt.append(f"Definition {nm}_out : expr := {t_out}.\n")
        self.lemmas = []
        rename = self.rename or {}
        fin = free_of(self.inp)
        fout = [(rename.get(i, i), d) for i, d in fin]
        if t_out is not None and self.static:
            sh = ufl2coq.natlist(self.inp.ufl_shape)
            txt.append(f"Example {nm}_shape : shape {nm}_out = {sh} /\\ shape {nm}_in = {sh}. "
                       f"Proof. split; reflexivity. Qed.\n")
            self.lemmas.append(f"{nm}_shape")
            fi = sorted((self.ctx.index(i), d) for i, d in fout)
            fit = "[" + "; ".join(f"({i}, {d})" for i, d in fi) + "]"
            txt.append(f"Example {nm}_fidx : fidx {nm}_out = {fit}. Proof. reflexivity. Qed.\n")
            self.lemmas.append(f"{nm}_fidx")
        if self.preamble:
            txt.append(self.preamble(self, ser))
        if t_out is not None and self.value:
            Fin, Fout = pairs(self.ctx, fin), pairs(self.ctx, fout)
            hyps = "".join("(" + h + ") -> " for h in self.hyps)
            intro = ""
            if self.hyps:
                names = " ".join(f"H{k}" for k in range(len(self.hyps)))
                intro = f"intros {names}; "
            tac = self.tactic or "close2"
            for v in itertools.product(*[range(d) for _, d in fin]):
                for c in itertools.product(*[range(d) for d in self.inp.ufl_shape]):
                    ln = f"{nm}_v{'_'.join(map(str, v))}_c{'_'.join(map(str, c))}"
                    vl, cl = ufl2coq.natlist(v), ufl2coq.natlist(c)
                    txt.append(f"Lemma {ln} s rho : {hyps}DEN s (upds rho {Fout} {vl}) {nm}_out {cl} = "
                               f"DEN s (upds rho {Fin} {vl}) {nm}_in {cl}.\nProof. {intro}{tac}. Qed.\n")
                    self.lemmas.append(ln)
        if self.extra:
            t, names = self.extra(self, ser)
            txt.append(t)
            self.lemmas.extend(names)
        return "".join(txt)

    def n_value_lemmas(self):
        n = 1
        for _, d in free_of(self.inp):
            n *= d
        for d in self.inp.ufl_shape:
            n *= d
        return n


def record_hand_files(run, pid, hand_files, main_theorems):
    """The hand-written files were (re)built by vlib.ensure_core before main() ran (stale .vo are
    recompiled there; a failure aborts the check).  Record their statements as obligations and
    re-check, in a small generated file, that the main theorems exist in the compiled library
    and what they assume (Print Assumptions) -- without recompiling the .vo files that the
    generated shards are loading at the same time."""
    import os
    import vlib
    mods = [f[:-2].replace("/", ".") for f in hand_files]
    txt = "".join(f"Require Import UFLV.{m}.\n" for m in mods)
    for t in main_theorems:
        txt += f"Check UFLV.Props.{t}.\nPrint Assumptions UFLV.Props.{t}.\n"
    path = os.path.join(vlib.GEN, f"{pid}_hand.v")
    vlib.write_if_changed(path, txt)
    r = vlib.coqc(path)
    names = []
    for f in hand_files:
        ap = os.path.join(vlib.COQ, f)
        if not vlib.vo_fresh(ap):
            r.ok = False
            r.err = (r.err or "") + f"\nstale or missing .vo for {f}"
        names += [f"{os.path.basename(f)[:-2]}.{n}" for n in vlib.count_obligations(ap)]
    bad = vlib.scan_forbidden([os.path.join(vlib.COQ, f) for f in hand_files])
    if bad:
        r.ok = False
        r.err = (r.err or "") + f"\nforbidden vernacular: {bad}"
    run.add_coq_result(r, names)
    if not r.ok:
        run.violation({"broken": "hand-written theorems do not check", "file": path,
                       "error": (r.err or "")[-1500:]}, False)
    return r
