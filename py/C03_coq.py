"""Coq text shared by the C03 traced obligations: derivation laws as Section hypotheses + tactic."""
import math

import ufl2coq

# kinds (ufl2coq) of geometric quantities that are constant on each cell of an AFFINE simplex mesh;
# this table is the specification side ("geometric quantities are differentiated consistently with
# the cell map") and deliberately does not call ufl's is_cellwise_constant.
AFFINE_CONSTANT_GEOMETRY = [
    "CellOrigin", "Jacobian", "JacobianDeterminant", "JacobianInverse", "FacetJacobian",
    "FacetJacobianDeterminant", "FacetJacobianInverse", "CellFacetJacobian",
    "CellFacetJacobianDeterminant", "CellFacetJacobianInverse", "FacetNormal", "CellNormal",
    "ReferenceNormal", "ReferenceCellVolume", "ReferenceFacetVolume", "CellVolume", "Circumradius",
    "CellDiameter", "FacetArea", "MinCellEdgeLength", "MaxCellEdgeLength", "MinFacetEdgeLength",
    "MaxFacetEdgeLength", "CellOrientation", "FacetOrientation", "QuadratureWeight",
    "CellVertices", "CellEdgeVectors", "FacetEdgeVectors", "ReferenceCellEdgeVectors",
    "ReferenceFacetEdgeVectors",
]
KX = ufl2coq.KIND_OF_GEOMETRY["SpatialCoordinate"]
KXREF = ufl2coq.KIND_OF_GEOMETRY["CellCoordinate"]
KJINV = ufl2coq.KIND_OF_GEOMETRY["JacobianInverse"]
KJ = ufl2coq.KIND_OF_GEOMETRY["Jacobian"]


def erf_literal():
    """2/sqrt(pi) in binary64, from the mathematical formula (independent of the code under test):
    the value m * 2^e (e < 0) as the term the denotation of the literal RealV m e reduces to."""
    m, e = ufl2coq.dyadic(2.0 / math.sqrt(math.pi))
    assert e < 0 and m > 0
    return f"div (@of_Z A {m}%Z) (@of_pos A (2 ^ {-e})%positive)"


def extra_header(affine=True):
    geo = ""
    if affine:
        for n in AFFINE_CONSTANT_GEOMETRY:
            k = ufl2coq.KIND_OF_GEOMETRY[n]
            geo += (f"Hypothesis Dx_geo_{n} : forall s id c j, Dx j (env s {k} id c) = z0.\n")
        geo += "Ltac dx_geo := rewrite " + ", ".join(f"?Dx_geo_{n}" for n in AFFINE_CONSTANT_GEOMETRY) + ".\n"
        geo += (f"Hypothesis Dx_X : forall s id i j, Dx j (env s {KXREF} id [i]) = env s {KJINV} id [i; j].\n")
    else:
        geo += "Ltac dx_geo := idtac.\n"
    return (LAWS.replace("@ERF@", erf_literal()).replace("@KX@", str(KX)).replace("@KCONST@", str(ufl2coq.KIND_CONSTANT))
            + geo + TACTICS + TACTICS_COMMON + TACTICS_CLOSE)


# Laws of the differential ring in which Grad is interpreted.  [Dx j] is a derivation of the algebra
# (Core/Alg.v: additive, Leibniz, quotient rule, commutes with conj/re/im/conditional) with one
# chain-rule law per function symbol; the laws for abs/min/max are the almost-everywhere derivatives.
LAWS = r'''
Hypothesis HDx : forall j, @Derivation A (Dx j).
Notation two := (add z1 z1).
Definition erf_c : KT := @ERF@.
Definition dfn (f : mathfn) (x : KT) : KT :=
  match f with
  | FSqrt => div z1 (mul two (fn FSqrt x))
  | FExp => fn FExp x
  | FLn => div z1 x
  | FCos => opp (fn FSin x)
  | FSin => fn FCos x
  | FTan => div two (add (fn FCos (mul two x)) z1)
  | FCosh => fn FSinh x
  | FSinh => fn FCosh x
  | FTanh => mul (div (mul two (fn FCosh x)) (add (fn FCosh (mul two x)) z1))
                 (div (mul two (fn FCosh x)) (add (fn FCosh (mul two x)) z1))
  | FAcos => opp (div z1 (fn FSqrt (sub z1 (mul x x))))
  | FAsin => div z1 (fn FSqrt (sub z1 (mul x x)))
  | FAtan => div z1 (add z1 (mul x x))
  | FErf => mul erf_c (fn FExp (opp (mul x x)))
  end.
Hypothesis Dx_fn : forall j f x, Dx j (fn f x) = mul (Dx j x) (dfn f x).
Hypothesis Dx_pow : forall j x y,
  Dx j (pow x y) = mul (pow x (sub y z1)) (add (mul y (Dx j x)) (mul (mul x (fn FLn x)) (Dx j y))).
Definition sign_ (x : KT) : KT :=
  cond_ (cmp CEQ (re x) z0) z0 (cond_ (cmp CLT (re x) z0) (opp z1) z1).
Hypothesis Dx_abs : forall j x, Dx j (abs x) = mul (sign_ x) (Dx j x).
Hypothesis Dx_max : forall j x y, Dx j (max_ x y) =
  add (mul (cond_ (cmp CGT x y) z1 z0) (Dx j x)) (mul (sub z1 (cond_ (cmp CGT x y) z1 z0)) (Dx j y)).
Hypothesis Dx_min : forall j x y, Dx j (min_ x y) =
  add (mul (cond_ (cmp CLT x y) z1 z0) (Dx j x)) (mul (sub z1 (cond_ (cmp CLT x y) z1 z0)) (Dx j y)).
Hypothesis Dx_atan2 : forall j x y, Dx j (atan2 x y) =
  div (sub (mul y (Dx j x)) (mul x (Dx j y))) (add (mul x x) (mul y y)).
Hypothesis Dx_ki : forall j, Dx j ki = z0.
(* re/im/conj of zero (they are additive maps) *)
Hypothesis re_z0 : re z0 = z0.
Hypothesis im_z0 : im z0 = z0.
Hypothesis conj_z0 : conj z0 = z0.
(* a conditional with equal branches *)
Hypothesis cond_same : forall b x, cond_ b x x = x.
(* partial derivatives commute (used only as a last resort, to reorder nested derivatives) *)
Hypothesis Dx_comm : forall i j a, Dx i (Dx j a) = Dx j (Dx i a).
(* spatial coordinate: dx_i/dx_j = delta_ij;  Constants do not vary in space *)
Hypothesis Dx_x : forall s id i j, Dx j (env s @KX@ id [i]) = if Nat.eqb i j then z1 else z0.
Hypothesis Dx_const : forall s id c j, Dx j (env s @KCONST@ id c) = z0.

Lemma div_def x y : div x y = mul x (inv y). Proof. apply (Fdiv_def Fth). Qed.
Lemma Dx_comm_10 a : Dx 1 (Dx 0 a) = Dx 0 (Dx 1 a). Proof. apply Dx_comm. Qed.
Lemma Dx_comm_20 a : Dx 2 (Dx 0 a) = Dx 0 (Dx 2 a). Proof. apply Dx_comm. Qed.
Lemma Dx_comm_21 a : Dx 2 (Dx 1 a) = Dx 1 (Dx 2 a). Proof. apply Dx_comm. Qed.
Lemma Dx_add j x y : Dx j (add x y) = add (Dx j x) (Dx j y). Proof. apply (d_add A (Dx j) (HDx j)). Qed.
Lemma Dx_mul j x y : Dx j (mul x y) = add (mul (Dx j x) y) (mul x (Dx j y)).
Proof. apply (d_mul A (Dx j) (HDx j)). Qed.
Lemma Dx_div j x y : Dx j (div x y) = div (sub (Dx j x) (mul (div x y) (Dx j y))) y.
Proof. apply (d_div A (Dx j) (HDx j)). Qed.
Lemma Dx_sub j x y : Dx j (sub x y) = sub (Dx j x) (Dx j y). Proof. apply (d_sub A (Dx j) x y (HDx j)). Qed.
Lemma Dx_opp j x : Dx j (opp x) = opp (Dx j x). Proof. apply (d_opp A (Dx j) x (HDx j)). Qed.
Lemma Dx_z0 j : Dx j z0 = z0. Proof. apply (d_zero A (Dx j) (HDx j)). Qed.
Lemma Dx_z1 j : Dx j z1 = z0. Proof. apply (d_one A (Dx j) (HDx j)). Qed.
Lemma Dx_conj j x : Dx j (conj x) = conj (Dx j x). Proof. apply (d_conj A (Dx j) (HDx j)). Qed.
Lemma Dx_re j x : Dx j (re x) = re (Dx j x). Proof. apply (d_re A (Dx j) (HDx j)). Qed.
Lemma Dx_im j x : Dx j (im x) = im (Dx j x). Proof. apply (d_im A (Dx j) (HDx j)). Qed.
Lemma Dx_numdiv j (a b : KT) : Dx j a = z0 -> Dx j b = z0 -> Dx j (div a b) = z0.
Proof. intros Ha Hb. rewrite Dx_div, Ha, Hb, !div_def. ring. Qed.
Lemma Dx_erf_c j : Dx j erf_c = z0.
Proof.
  unfold erf_c. apply Dx_numdiv; [ apply (d_of_Z A (Dx j) _ (HDx j)) | apply (d_of_pos A (Dx j) _ (HDx j)) ].
Qed.
Lemma Dx_cond j b x y : Dx j (cond_ b x y) = cond_ b (Dx j x) (Dx j y).
Proof. apply (d_cond A (Dx j) (HDx j)). Qed.
'''

TACTICS = r'''
(* per-case hypotheses "this terminal is constant on each cell" *)
Ltac dx_local :=
  repeat match goal with
         | H : (forall s c j, Dx j (env s _ _ c) = z0) |- _ => progress rewrite !H
         end.
Ltac dx_step :=
  progress (rewrite ?Dx_add, ?Dx_mul, ?Dx_div, ?Dx_sub, ?Dx_opp, ?Dx_z0, ?Dx_z1, ?Dx_conj, ?Dx_re, ?Dx_im,
            ?Dx_cond, ?Dx_fn, ?Dx_pow, ?Dx_abs, ?Dx_max, ?Dx_min, ?Dx_atan2, ?Dx_ki, ?Dx_x, ?Dx_const,
            ?Dx_erf_c, ?re_z0, ?im_z0, ?conj_z0;
            dx_geo; dx_local; cbv [dfn sign_]).
Ltac dx_push := repeat dx_step.
'''

TACTICS_COMMON = r'''
Ltac is_num X :=
  lazymatch X with
  | z0 => idtac | z1 => idtac
  | add ?a ?b => is_num a; is_num b
  | mul ?a ?b => is_num a; is_num b
  | sub ?a ?b => is_num a; is_num b
  | opp ?a => is_num a
  | _ => fail
  end.
(* inverses of non-numerals become opaque atoms, so that [field] only has to invert numerals *)
Ltac hide_inv :=
  repeat match goal with
         | |- context [inv ?X] =>
             tryif is_num X then fail
             else (let v := fresh "iv" in set (v := inv X) in *; clearbody v)
         end.
Lemma inv_one : inv z1 = z1. Proof. field. apply (F_1_neq_0 Fth). Qed.
Ltac arg_eq2 := first [ reflexivity | ring | rewrite ?div_def, ?inv_one; ring
                      | rewrite ?div_def; hide_inv; field; nz_solve char0 | field; nz_solve char0 ].
Ltac unify_b :=
  match goal with
  | |- context [inv ?X] =>
      match goal with
      | |- context [inv ?Y] =>
          lazymatch X with Y => fail | _ => idtac end;
          replace (inv X) with (inv Y) by (f_equal; arg_eq2)
      end
  | |- context [pow ?X ?P] =>
      match goal with
      | |- context [pow ?Y ?Q] =>
          lazymatch constr:((X, P)) with (Y, Q) => fail | _ => idtac end;
          replace (pow X P) with (pow Y Q) by (f_equal; arg_eq2)
      end
  | |- context [cmp ?o ?X ?P] =>
      match goal with
      | |- context [cmp o ?Y ?Q] =>
          lazymatch constr:((X, P)) with (Y, Q) => fail | _ => idtac end;
          replace (cmp o X P) with (cmp o Y Q) by (f_equal; arg_eq2)
      end
  | |- context [re ?X] =>
      match goal with
      | |- context [re ?Y] =>
          lazymatch X with Y => fail | _ => idtac end;
          replace (re X) with (re Y) by (f_equal; arg_eq2)
      end
  | |- context [im ?X] =>
      match goal with
      | |- context [im ?Y] =>
          lazymatch X with Y => fail | _ => idtac end;
          replace (im X) with (im Y) by (f_equal; arg_eq2)
      end
  | |- context [atan2 ?X ?P] =>
      match goal with
      | |- context [atan2 ?Y ?Q] =>
          lazymatch constr:((X, P)) with (Y, Q) => fail | _ => idtac end;
          replace (atan2 X P) with (atan2 Y Q) by (f_equal; arg_eq2)
      end
  | |- context [min_ ?X ?P] =>
      match goal with
      | |- context [min_ ?Y ?Q] =>
          lazymatch constr:((X, P)) with (Y, Q) => fail | _ => idtac end;
          replace (min_ X P) with (min_ Y Q) by (f_equal; arg_eq2)
      end
  | |- context [max_ ?X ?P] =>
      match goal with
      | |- context [max_ ?Y ?Q] =>
          lazymatch constr:((X, P)) with (Y, Q) => fail | _ => idtac end;
          replace (max_ X P) with (max_ Y Q) by (f_equal; arg_eq2)
      end
  | |- context [cond_ ?b ?X ?P] =>
      match goal with
      | |- context [cond_ b ?Y ?Q] =>
          lazymatch constr:((X, P)) with (Y, Q) => fail | _ => idtac end;
          replace (cond_ b X P) with (cond_ b Y Q) by (f_equal; arg_eq2)
      end
  end.
(* conditionals both of whose branches are (ring-)equal to zero, e.g. derivatives of literals *)
Ltac cond_zero :=
  repeat match goal with
         | |- context [cond_ ?b ?X ?Y] =>
             lazymatch constr:((X, Y)) with (z0, z0) => fail | _ => idtac end;
             replace (cond_ b X Y) with z0
               by (transitivity (cond_ b z0 z0); [ symmetry; apply cond_same | f_equal; symmetry; arg_eq2 ])
         end.
Ltac fin := first [ reflexivity | ring | rewrite ?div_def; ring
                  | rewrite ?div_def; hide_inv; field; nz_solve char0
                  | field; nz_solve char0 ].
'''

TACTICS_CLOSE = r'''
(* conj / re / im of something (ring-)equal to zero *)
Ltac cplx_zero :=
  repeat match goal with
         | |- context [conj ?X] =>
             lazymatch X with z0 => fail | _ => idtac end;
             replace (conj X) with z0 by (transitivity (conj z0); [ symmetry; apply conj_z0 | f_equal; symmetry; arg_eq2 ])
         | |- context [re ?X] =>
             lazymatch X with z0 => fail | _ => idtac end;
             replace (re X) with z0 by (transitivity (re z0); [ symmetry; apply re_z0 | f_equal; symmetry; arg_eq2 ])
         | |- context [im ?X] =>
             lazymatch X with z0 => fail | _ => idtac end;
             replace (im X) with z0 by (transitivity (im z0); [ symmetry; apply im_z0 | f_equal; symmetry; arg_eq2 ])
         end.
Ltac c03_close :=
  norm_goal; dx_push; cbv [dfn sign_ erf_c]; norm_goal; rewrite ?conj_z0, ?re_z0, ?im_z0; cplx_zero; cond_zero;
  rewrite ?cond_same;
  first [ fin
        | repeat unify1; fin
        | rewrite ?div_def; repeat first [ unify1 | unify_b ]; fin
        | repeat (progress rewrite ?Dx_comm_10, ?Dx_comm_20, ?Dx_comm_21);
          first [ fin | rewrite ?div_def; repeat first [ unify1 | unify_b ]; fin ] ].
'''



def extra_header_ref():
    """Header of the reference-frame family: Dx and DX are derivations; the chain rule through the cell
    map and the constancy of K, J, detJ on affine cells are per-case hypotheses."""
    return (LAWS_REF.replace("@KX@", str(KX)).replace("@KXREF@", str(KXREF))
            .replace("@KCONST@", str(ufl2coq.KIND_CONSTANT)) + TACTICS_COMMON + TACTICS_REF)


LAWS_REF = r'''
Hypothesis HDx : forall j, @Derivation A (Dx j).
Hypothesis HDX : forall j, @Derivation A (DX j).
Hypothesis Dx_x : forall s id i j, Dx j (env s @KX@ id [i]) = if Nat.eqb i j then z1 else z0.
Hypothesis DX_X : forall s id i j, DX j (env s @KXREF@ id [i]) = if Nat.eqb i j then z1 else z0.
Hypothesis Dx_const : forall s id c j, Dx j (env s @KCONST@ id c) = z0.
Hypothesis DX_const : forall s id c j, DX j (env s @KCONST@ id c) = z0.
Hypothesis cond_same : forall b x, cond_ b x x = x.
Lemma div_def x y : div x y = mul x (inv y). Proof. apply (Fdiv_def Fth). Qed.
Lemma Dx_add j x y : Dx j (add x y) = add (Dx j x) (Dx j y). Proof. apply (d_add A (Dx j) (HDx j)). Qed.
Lemma Dx_mul j x y : Dx j (mul x y) = add (mul (Dx j x) y) (mul x (Dx j y)).
Proof. apply (d_mul A (Dx j) (HDx j)). Qed.
Lemma Dx_div j x y : Dx j (div x y) = div (sub (Dx j x) (mul (div x y) (Dx j y))) y.
Proof. apply (d_div A (Dx j) (HDx j)). Qed.
Lemma Dx_sub j x y : Dx j (sub x y) = sub (Dx j x) (Dx j y). Proof. apply (d_sub A (Dx j) x y (HDx j)). Qed.
Lemma Dx_opp j x : Dx j (opp x) = opp (Dx j x). Proof. apply (d_opp A (Dx j) x (HDx j)). Qed.
Lemma Dx_z0 j : Dx j z0 = z0. Proof. apply (d_zero A (Dx j) (HDx j)). Qed.
Lemma Dx_z1 j : Dx j z1 = z0. Proof. apply (d_one A (Dx j) (HDx j)). Qed.
Lemma DX_add j x y : DX j (add x y) = add (DX j x) (DX j y). Proof. apply (d_add A (DX j) (HDX j)). Qed.
Lemma DX_mul j x y : DX j (mul x y) = add (mul (DX j x) y) (mul x (DX j y)).
Proof. apply (d_mul A (DX j) (HDX j)). Qed.
Lemma DX_div j x y : DX j (div x y) = div (sub (DX j x) (mul (div x y) (DX j y))) y.
Proof. apply (d_div A (DX j) (HDX j)). Qed.
Lemma DX_sub j x y : DX j (sub x y) = sub (DX j x) (DX j y). Proof. apply (d_sub A (DX j) x y (HDX j)). Qed.
Lemma DX_opp j x : DX j (opp x) = opp (DX j x). Proof. apply (d_opp A (DX j) x (HDX j)). Qed.
Lemma DX_z0 j : DX j z0 = z0. Proof. apply (d_zero A (DX j) (HDX j)). Qed.
Lemma DX_z1 j : DX j z1 = z0. Proof. apply (d_one A (DX j) (HDX j)). Qed.
'''

TACTICS_REF = r'''
Ltac dX_local :=
  repeat match goal with
         | H : (forall s c k, DX k (env s _ _ c) = z0) |- _ => progress rewrite !H
         end.
Ltac dxr_push :=
  repeat (progress (rewrite ?Dx_add, ?Dx_mul, ?Dx_div, ?Dx_sub, ?Dx_opp, ?Dx_z0, ?Dx_z1, ?Dx_x, ?Dx_const)).
Ltac chain_all :=
  match goal with
  | H : (forall j a, Dx j a = _) |- _ => repeat rewrite H
  end.
Ltac dX_push :=
  repeat (progress (rewrite ?DX_add, ?DX_mul, ?DX_div, ?DX_sub, ?DX_opp, ?DX_z0, ?DX_z1, ?DX_X, ?DX_const;
                    dX_local)).
Ltac c03r_close :=
  norm_goal; dxr_push; try chain_all; dX_push; norm_goal;
  first [ fin | repeat unify1; fin | rewrite ?div_def; repeat first [ unify1 | unify_b ]; fin ].
'''


def emit_and_check(run, pid, cases, shards=None, timeout=900, extra_header="", max_rounds=8):
    """Variant of coqgen.emit_and_check: when a lemma of a case fails, ALL remaining lemmas of that case are
    masked (`Abort`) before the file is re-checked, so that a broken rule costs one extra round per case
    instead of one per component.  Masked lemmas stay in `obligations` but are never counted as discharged.
    Returns the list of (case, first failing lemma, message)."""
    import os

    import coqgen
    import vlib
    shards = shards or min(vlib.NCPU, max(1, len(cases)))
    texts = [(c, c.emit()) for c in cases]
    bins, load = [[] for _ in range(shards)], [0] * shards
    for c, t in sorted(texts, key=lambda x: -len(x[1])):
        k = load.index(min(load))
        bins[k].append((c, t))
        load[k] += len(t) * max(1, len(c.lemmas))
    paths, by_file = [], {}
    for k, b in enumerate(bins):
        if not b:
            continue
        b.sort(key=lambda x: x[0].name)
        path = os.path.join(vlib.GEN, f"{pid}_t2_{k}.v")
        vlib.write_if_changed(path, coqgen.HEADER + extra_header + "".join(t for _, t in b) + coqgen.FOOTER)
        paths.append(path)
        by_file[path] = [c for c, _ in b]
    for f in os.listdir(vlib.GEN):
        if f.startswith(f"{pid}_t2_") and f.endswith(".v") and os.path.join(vlib.GEN, f) not in paths:
            os.remove(os.path.join(vlib.GEN, f))
    failing, pending, rounds = [], list(paths), 0
    masked = {p: set() for p in paths}

    def mask(src, name):
        for kw in ("Lemma", "Example"):
            key = f"{kw} {name} "
            if key in src:
                i = src.index(key)
                k0, j = src.index("Proof.", i), src.index("Qed.", i)
                return src[:k0] + "Proof. Abort. (* MASKED *)" + src[j + 4:]
        return src

    while pending and rounds < max_rounds:
        rounds += 1
        nxt = []
        for r in vlib.coqc_many(pending, timeout=timeout):
            run.extra.setdefault('coqc_wall_s', {})[os.path.basename(r.path)] = round(r.wall, 1)
            names = [l for c in by_file[r.path] for l in c.lemmas if l not in masked[r.path]]
            if r.ok:
                run.add_coq_result(r, names)
                continue
            fl = r.failing_lemma()
            case = next((c for c in by_file[r.path] if fl in c.lemmas), None)
            msg = " ".join((r.err or "").strip().split("\n")[-3:])[:300]
            failing.append((case, fl, msg))
            if case is None or rounds >= max_rounds:
                run.add_coq_result(r, names)
                continue
            rel = os.path.relpath(r.path, vlib.COQ)
            src = open(r.path).read()
            for l in case.lemmas[case.lemmas.index(fl):]:
                if l in masked[r.path]:
                    continue
                run.obligations.append((l, rel))
                masked[r.path].add(l)
                src = mask(src, l)
            run.failed.append((fl, rel, msg))
            with open(r.path, "w") as f:
                f.write(src)
            nxt.append(r.path)
        pending = nxt
    run.checker_cmds.append(f"coqc -Q coq UFLV coq/Gen/{pid}_t2_*.v")
    return failing
