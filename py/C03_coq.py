"""Coq text shared by the C03 traced obligations: derivation laws as Section hypotheses + tactic."""
import math

import ufl2coq

# kinds (ufl2coq) of geometric quantities that are constant on each cell of an AFFINE simplex mesh;
# this table is the specification side ("geometric quantities are differentiated consistently with
# the cell map") and deliberately does not call ufl's is_cellwise_constant.
AFFINE_CONSTANT_GEOMETRY = [
    "CellOrigin", "Jacobian", "JacobianDeterminant", "JacobianInverse", "FacetJacobian",
    "FacetJacobianDeterminant", "FacetJacobianInverse", "CellFacetJacobian",
    "CellFacetJacobianDeterminant", "CellFacetJacobianInverse", "FacetNormal", "CellNormal",
    "ReferenceNormal", "ReferenceCellVolume", "ReferenceFacetVolume", "CellVolume", "Circumradius",
    "CellDiameter", "FacetArea", "MinCellEdgeLength", "MaxCellEdgeLength", "MinFacetEdgeLength",
    "MaxFacetEdgeLength", "CellOrientation", "FacetOrientation", "QuadratureWeight",
    "CellVertices", "CellEdgeVectors", "FacetEdgeVectors", "ReferenceCellEdgeVectors",
    "ReferenceFacetEdgeVectors",
]
KX = ufl2coq.KIND_OF_GEOMETRY["SpatialCoordinate"]
KXREF = ufl2coq.KIND_OF_GEOMETRY["CellCoordinate"]
KJINV = ufl2coq.KIND_OF_GEOMETRY["JacobianInverse"]
KJ = ufl2coq.KIND_OF_GEOMETRY["Jacobian"]


def erf_literal():
    """2/sqrt(pi) in binary64, from the mathematical formula (independent of the code under test)."""
    m, e = ufl2coq.dyadic(2.0 / math.sqrt(math.pi))
    return f"(RealV {ufl2coq.znum(m)} {ufl2coq.znum(e)})"


def extra_header(affine=True):
    geo = ""
    if affine:
        for n in AFFINE_CONSTANT_GEOMETRY:
            k = ufl2coq.KIND_OF_GEOMETRY[n]
            geo += (f"Hypothesis Dx_geo_{n} : forall s id c j, Dx j (env s {k} id c) = z0.\n")
        geo += "Ltac dx_geo := rewrite " + ", ".join(f"?Dx_geo_{n}" for n in AFFINE_CONSTANT_GEOMETRY) + ".\n"
        geo += (f"Hypothesis Dx_X : forall s id i j, Dx j (env s {KXREF} id [i]) = env s {KJINV} id [i; j].\n")
    else:
        geo += "Ltac dx_geo := idtac.\n"
    return (LAWS.replace("@ERF@", erf_literal()).replace("@KX@", str(KX)).replace("@KCONST@", str(ufl2coq.KIND_CONSTANT))
            + geo + TACTICS)


# Laws of the differential ring in which Grad is interpreted.  [Dx j] is a derivation of the algebra
# (Core/Alg.v: additive, Leibniz, quotient rule, commutes with conj/re/im/conditional) with one
# chain-rule law per function symbol; the laws for abs/min/max are the almost-everywhere derivatives.
LAWS = r'''
Hypothesis HDx : forall j, @Derivation A (Dx j).
Notation two := (add z1 z1).
Definition erf_c : KT := DEN None (fun _ => 0) @ERF@ [].
Definition dfn (f : mathfn) (x : KT) : KT :=
  match f with
  | FSqrt => inv (mul two (fn FSqrt x))
  | FExp => fn FExp x
  | FLn => inv x
  | FCos => opp (fn FSin x)
  | FSin => fn FCos x
  | FTan => div two (add (fn FCos (mul two x)) z1)
  | FCosh => fn FSinh x
  | FSinh => fn FCosh x
  | FTanh => mul (div (mul two (fn FCosh x)) (add (fn FCosh (mul two x)) z1))
                 (div (mul two (fn FCosh x)) (add (fn FCosh (mul two x)) z1))
  | FAcos => opp (inv (fn FSqrt (sub z1 (mul x x))))
  | FAsin => inv (fn FSqrt (sub z1 (mul x x)))
  | FAtan => inv (add z1 (mul x x))
  | FErf => mul erf_c (fn FExp (opp (mul x x)))
  end.
Hypothesis Dx_fn : forall j f x, Dx j (fn f x) = mul (Dx j x) (dfn f x).
Hypothesis Dx_pow : forall j x y,
  Dx j (pow x y) = mul (pow x (sub y z1)) (add (mul y (Dx j x)) (mul (mul x (fn FLn x)) (Dx j y))).
Definition sign_ (x : KT) : KT :=
  cond_ (cmp CEQ (re x) z0) z0 (cond_ (cmp CLT (re x) z0) (opp z1) z1).
Hypothesis Dx_abs : forall j x, Dx j (abs x) = mul (sign_ x) (Dx j x).
Hypothesis Dx_max : forall j x y, Dx j (max_ x y) =
  add (mul (cond_ (cmp CGT x y) z1 z0) (Dx j x)) (mul (sub z1 (cond_ (cmp CGT x y) z1 z0)) (Dx j y)).
Hypothesis Dx_min : forall j x y, Dx j (min_ x y) =
  add (mul (cond_ (cmp CLT x y) z1 z0) (Dx j x)) (mul (sub z1 (cond_ (cmp CLT x y) z1 z0)) (Dx j y)).
Hypothesis Dx_atan2 : forall j x y, Dx j (atan2 x y) =
  div (sub (mul y (Dx j x)) (mul x (Dx j y))) (add (mul x x) (mul y y)).
Hypothesis Dx_ki : forall j, Dx j ki = z0.
(* spatial coordinate: dx_i/dx_j = delta_ij;  Constants do not vary in space *)
Hypothesis Dx_x : forall s id i j, Dx j (env s @KX@ id [i]) = if Nat.eqb i j then z1 else z0.
Hypothesis Dx_const : forall s id c j, Dx j (env s @KCONST@ id c) = z0.

Lemma div_def x y : div x y = mul x (inv y). Proof. apply (Fdiv_def Fth). Qed.
Lemma Dx_add j x y : Dx j (add x y) = add (Dx j x) (Dx j y). Proof. apply (d_add A (Dx j) (HDx j)). Qed.
Lemma Dx_mul j x y : Dx j (mul x y) = add (mul (Dx j x) y) (mul x (Dx j y)).
Proof. apply (d_mul A (Dx j) (HDx j)). Qed.
Lemma Dx_div j x y : Dx j (div x y) = div (sub (Dx j x) (mul (div x y) (Dx j y))) y.
Proof. apply (d_div A (Dx j) (HDx j)). Qed.
Lemma Dx_sub j x y : Dx j (sub x y) = sub (Dx j x) (Dx j y). Proof. apply (d_sub A (Dx j) x y (HDx j)). Qed.
Lemma Dx_opp j x : Dx j (opp x) = opp (Dx j x). Proof. apply (d_opp A (Dx j) x (HDx j)). Qed.
Lemma Dx_z0 j : Dx j z0 = z0. Proof. apply (d_zero A (Dx j) (HDx j)). Qed.
Lemma Dx_z1 j : Dx j z1 = z0. Proof. apply (d_one A (Dx j) (HDx j)). Qed.
Lemma Dx_conj j x : Dx j (conj x) = conj (Dx j x). Proof. apply (d_conj A (Dx j) (HDx j)). Qed.
Lemma Dx_re j x : Dx j (re x) = re (Dx j x). Proof. apply (d_re A (Dx j) (HDx j)). Qed.
Lemma Dx_im j x : Dx j (im x) = im (Dx j x). Proof. apply (d_im A (Dx j) (HDx j)). Qed.
Lemma Dx_cond j b x y : Dx j (cond_ b x y) = cond_ b (Dx j x) (Dx j y).
Proof. apply (d_cond A (Dx j) (HDx j)). Qed.
'''

TACTICS = r'''
(* per-case hypotheses "this terminal is constant on each cell" *)
Ltac dx_local :=
  repeat match goal with
         | H : (forall s c j, Dx j (env s _ _ c) = z0) |- _ => progress rewrite !H
         end.
Ltac dx_step :=
  progress (rewrite ?Dx_add, ?Dx_mul, ?Dx_div, ?Dx_sub, ?Dx_opp, ?Dx_z0, ?Dx_z1, ?Dx_conj, ?Dx_re, ?Dx_im,
            ?Dx_cond, ?Dx_fn, ?Dx_pow, ?Dx_abs, ?Dx_max, ?Dx_min, ?Dx_atan2, ?Dx_ki, ?Dx_x, ?Dx_const;
            dx_geo; dx_local).
Ltac dx_push := repeat dx_step.
Ltac arg_eq2 := first [ reflexivity | ring | rewrite ?div_def; ring | field; nz_solve char0 ].
Ltac unify_b :=
  match goal with
  | |- context [inv ?X] =>
      match goal with
      | |- context [inv ?Y] =>
          lazymatch X with Y => fail | _ => idtac end;
          replace (inv X) with (inv Y) by (f_equal; arg_eq2)
      end
  | |- context [pow ?X ?P] =>
      match goal with
      | |- context [pow ?Y ?Q] =>
          lazymatch constr:((X, P)) with (Y, Q) => fail | _ => idtac end;
          replace (pow X P) with (pow Y Q) by (f_equal; arg_eq2)
      end
  | |- context [cmp ?o ?X ?P] =>
      match goal with
      | |- context [cmp o ?Y ?Q] =>
          lazymatch constr:((X, P)) with (Y, Q) => fail | _ => idtac end;
          replace (cmp o X P) with (cmp o Y Q) by (f_equal; arg_eq2)
      end
  | |- context [re ?X] =>
      match goal with
      | |- context [re ?Y] =>
          lazymatch X with Y => fail | _ => idtac end;
          replace (re X) with (re Y) by (f_equal; arg_eq2)
      end
  | |- context [im ?X] =>
      match goal with
      | |- context [im ?Y] =>
          lazymatch X with Y => fail | _ => idtac end;
          replace (im X) with (im Y) by (f_equal; arg_eq2)
      end
  | |- context [cond_ ?b ?X ?P] =>
      match goal with
      | |- context [cond_ b ?Y ?Q] =>
          lazymatch constr:((X, P)) with (Y, Q) => fail | _ => idtac end;
          replace (cond_ b X P) with (cond_ b Y Q) by (f_equal; arg_eq2)
      end
  end.
Ltac is_num X :=
  lazymatch X with
  | z0 => idtac | z1 => idtac
  | add ?a ?b => is_num a; is_num b
  | mul ?a ?b => is_num a; is_num b
  | sub ?a ?b => is_num a; is_num b
  | opp ?a => is_num a
  | _ => fail
  end.
(* inverses of non-numerals become opaque atoms, so that [field] only has to invert numerals *)
Ltac hide_inv :=
  repeat match goal with
         | |- context [inv ?X] =>
             tryif is_num X then fail
             else (let v := fresh "iv" in set (v := inv X) in *; clearbody v)
         end.
Ltac fin := first [ reflexivity | ring | rewrite ?div_def; ring
                  | rewrite ?div_def; hide_inv; field; nz_solve char0
                  | field; nz_solve char0 ].
Ltac c03_close :=
  norm_goal; dx_push; cbv [dfn sign_ erf_c]; norm_goal;
  first [ fin
        | repeat unify1; fin
        | rewrite ?div_def; repeat first [ unify1 | unify_b ]; fin ].
'''
