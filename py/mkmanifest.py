"""Regenerate MANIFEST.json from the table below (kept valid at all times)."""
import json
import os

VERIF = os.path.dirname(os.path.dirname(os.path.abspath(__file__)))

CLAIMED = {
    "C06": dict(
        technique="Coq proof (vm_compute + ring/field) of den(lowered) = den(compound) per traced configuration; model regenerated from /repo by the trace translator",
        text="For every compound operator and every operand shape of the enumerated configuration set "
             "(matrices up to 4x4, rectangular m x n, ranks up to 3) the output of the real apply_algebra_lowering / "
             "compound_expressions code on generic symbolic operands is serialised into the Gallina expr type and Coq "
             "proves, for all operand values in every UFL algebra (commutative field with conj/derivation symbols), "
             "that every component of the lowered expression equals the mathematical definition of the operator; "
             "adj/det is proved to be the inverse for n<=4 (Props/C06_spec.v). Unbounded in operand values, bounded in shapes.",
        note="Trusted: Coq kernel + vm_compute; serializer py/ufl2coq.py; den (Core/Den.v) as the meaning of compound nodes; "
             "operand families T/E (coefficient, sum of coefficients) stand for arbitrary operands; float literals read as small rationals.",
        design="3/C06"),
}

CLAIMED["C26"] = dict(
    technique="Coq proof: vm_compute over the cell table regenerated from ufl.cell (finite, exhaustive) + order theorems for all (tdim, name) keys; exhaustive correspondence of every accessor",
    text="The table of named cells and every accessor result (num_sub_entities, sub_entities, facets/ridges/peaks, vertices/edges/faces, pairwise <) are read from the live module on every run; Coq proves over the regenerated table that every cell has Euler characteristic 1, that each listed sub-entity is a table cell of the right dimension, that facets/ridges/peaks are the entities of dimension tdim-1/2/3, that the implementation's tensor-product counts agree with the product f-vector (all products of <=3 named cells, tdim<=3), and - for ALL (tdim, name) keys, not only the ten - that the cell order is a strict total order. The finite parts are exhaustive.",
    note="Trusted: Coq kernel + vm_compute; the Python extraction of table/accessor values; Python str order modelled as code-point lexicographic order; product f-vector = convolution (definition). Cross-class comparison (Cell vs TensorProductCell by class name) not modelled.",
    design="3/C26")
CLAIMED["C25"] = dict(
    technique="Coq proof: order theorems for all directional order lists + vm_compute over the regenerated space table and an exhaustive grid; faithful model of total_ordering/reflected dispatch validated exhaustively",
    text="Props/C25_model.v models sobolevspace.py faithfully (including functools.total_ordering's derived operators and CPython's reflected-operand priority). Proved for ALL order lists: the specification order on directional spaces is a strict partial order and the implementation's < agrees with it on comparable pairs. Proved by vm_compute over the table regenerated from /repo and over an exhaustive grid (12 predefined + all directional spaces with <=2/3 directions over {0,1,2,3,inf}): irreflexivity, transitivity, <= = (< or ==), membership consistency, declared parents = mathematical proper supersets, and every operator returns the mathematically right answer outside two known-finding classes, which are proved refuted with witnesses (4 known findings). Every operator on every grid pair is compared with the real classes on every run.",
    note="Trusted: Coq kernel + vm_compute; the model of Python dispatch (validated exhaustively on the grid each run); the subspace specification sub_spec and the inclusion table MATH_COVERS; directional orders outside {0,1,2,3,inf} not modelled.",
    design="3/C25")

REASON_PENDING = "model not finished in this revision; not claimed rather than claimed with a non-proof check"


def main():
    props = [json.loads(l) for l in open(os.path.join(VERIF, "properties.jsonl"))]
    checks = []
    na = []
    for p in props:
        pid = p["id"]
        if pid in CLAIMED:
            c = CLAIMED[pid]
            checks.append({
                "property_id": pid,
                "quick_cmd": f"bin/check {pid} --tier quick",
                "thorough_cmd": f"bin/check {pid} --tier thorough",
                "evidence_file": f"/verif/evidence/{pid}.json",
                "replay_cmd_template": f"bin/check {pid} --replay {{path}}",
                "engine": "coq-ufl",
                "level_claimed": {"category": "proof", "text": c["text"], "design_ref": c["design"]},
                "level_note": c["note"],
                "technique": c["technique"],
            })
        else:
            na.append({"property_id": pid, "reason": NA.get(pid, REASON_PENDING)})
    man = {
        "version": 1,
        "setup_cmd": "bin/setup",
        "hooks": {
            "guard": "UFL_VERIF",
            "enable": "no source hooks are needed: checks import /repo with PYTHONPATH=/repo and manipulate counters/caches from the harness process",
            "baseline_off_cmd": "cd /repo && /venv/bin/python -m pytest -ra -q -p no:cacheprovider --timeout=900 --continue-on-collection-errors",
            "source_commits": [],
            "add_only": True,
        },
        "engines": [{
            "name": "coq-ufl", "path": "/verif/coq",
            "serves_properties": sorted(CLAIMED),
            "kind_free_text": "Coq 8.16.1 development: deep embedding of UFL expressions with a denotation into an abstract "
                              "UFL algebra; per-run regenerated obligations (coq/Gen) from tracing /repo; hand models with correspondence",
        }],
        "checks": checks,
        "not_applicable": na,
        "notes": "See DESIGN.md. Every check rebuilds its generated Coq files from /repo's working tree, compiles them with coqc "
                 "(full .vo), and searches for a concrete failing input when an obligation breaks.",
    }
    with open(os.path.join(VERIF, "MANIFEST.json"), "w") as f:
        json.dump(man, f, indent=1)


NA = {}

if __name__ == "__main__":
    main()
