"""Regenerate MANIFEST.json from the table below (kept valid at all times)."""
import json
import os

VERIF = os.path.dirname(os.path.dirname(os.path.abspath(__file__)))

CLAIMED = {
    "C06": dict(
        technique="Coq proof (vm_compute + ring/field) of den(lowered) = den(compound) per traced configuration; model regenerated from /repo by the trace translator",
        text="For every compound operator and every operand shape of the enumerated configuration set "
             "(matrices up to 4x4, rectangular m x n, ranks up to 3) the output of the real apply_algebra_lowering / "
             "compound_expressions code on generic symbolic operands is serialised into the Gallina expr type and Coq "
             "proves, for all operand values in every UFL algebra (commutative field with conj/derivation symbols), "
             "that every component of the lowered expression equals the mathematical definition of the operator; "
             "adj/det is proved to be the inverse for n<=4 (Props/C06_spec.v). Unbounded in operand values, bounded in shapes.",
        note="Trusted: Coq kernel + vm_compute; serializer py/ufl2coq.py; den (Core/Den.v) as the meaning of compound nodes; "
             "operand families T/E (coefficient, sum of coefficients) stand for arbitrary operands; float literals read as small rationals.",
        design="3/C06"),
}

CLAIMED["C26"] = dict(
    technique="Coq proof: vm_compute over the cell table regenerated from ufl.cell (finite, exhaustive) + order theorems for all (tdim, name) keys; exhaustive correspondence of every accessor",
    text="The table of named cells and every accessor result (num_sub_entities, sub_entities, facets/ridges/peaks, vertices/edges/faces, pairwise <) are read from the live module on every run; Coq proves over the regenerated table that every cell has Euler characteristic 1, that each listed sub-entity is a table cell of the right dimension, that facets/ridges/peaks are the entities of dimension tdim-1/2/3, that the implementation's tensor-product counts agree with the product f-vector (all products of <=3 named cells, tdim<=3), and - for ALL (tdim, name) keys, not only the ten - that the cell order is a strict total order. The finite parts are exhaustive.",
    note="Trusted: Coq kernel + vm_compute; the Python extraction of table/accessor values; Python str order modelled as code-point lexicographic order; product f-vector = convolution (definition). Cross-class comparison (Cell vs TensorProductCell by class name) not modelled.",
    design="3/C26")
CLAIMED["C25"] = dict(
    technique="Coq proof: order theorems for all directional order lists + vm_compute over the regenerated space table and an exhaustive grid; faithful model of total_ordering/reflected dispatch validated exhaustively",
    text="Props/C25_model.v models sobolevspace.py faithfully (including functools.total_ordering's derived operators and CPython's reflected-operand priority). Proved for ALL order lists: the specification order on directional spaces is a strict partial order and the implementation's < agrees with it on comparable pairs. Proved by vm_compute over the table regenerated from /repo and over an exhaustive grid (12 predefined + all directional spaces with <=2/3 directions over {0,1,2,3,inf}): irreflexivity, transitivity, <= = (< or ==), membership consistency, declared parents = mathematical proper supersets, and every operator returns the mathematically right answer outside two known-finding classes, which are proved refuted with witnesses (4 known findings). Every operator on every grid pair is compared with the real classes on every run.",
    note="Trusted: Coq kernel + vm_compute; the model of Python dispatch (validated exhaustively on the grid each run); the subspace specification sub_spec and the inclusion table MATH_COVERS; directional orders outside {0,1,2,3,inf} not modelled.",
    design="3/C25")

CLAIMED["C15"] = dict(
    technique="Coq: hand-proved unbounded sum-preservation and no-merge theorems about Gallina models of the grouping functions over an abstract commutative monoid; structural correspondence on tagged generated forms checked by vm_compute Examples",
    text="Props/C15_model.v models group_integrals_by_domain_and_type, rearrange_integrals_by_single_subdomains, accumulate_integrands_with_same_metadata, the final merge and build_integral_data. Proved for ALL lists of integrals, both append options and every key (domain, type, id/otherwise, coordinate-derivative class, metadata class): the sum of output integrands with that key equals the sum of the input integrands that apply there (C15_group_sums, C15_build_integral_data_sums); no-merge holds under injectivity of the canonicalisation key (C15_no_merge) and is refuted otherwise. Tie: tagged generated forms through the real group_form_integrals/compute_form_data are decoded to key->multiset of tags and compared with the model inside Coq on every run.",
    note="Trusted: Coq kernel + vm_compute; decoder of real outputs; canonicalize_metadata treated as an oracle (its non-injectivity is the known finding metadata-str-rendering); subdomain_data/extra domain maps not modelled; coordinate-derivative hash key assumed collision free.",
    design="3/C15")
CLAIMED["C28"] = dict(
    technique="Coq: hand-proved soundness of Gallina models of FormSum/Action/Adjoint/BaseForm-operator simplifications w.r.t. an abstract multilinear-map algebra, by induction on compositions; structural correspondence (object tree, weights, argument numbers) on generated real compositions by vm_compute Examples",
    text="Props/C28_model.v models the simplifying constructors (FormSum flattening/zero elimination/weights, Action zero/identity/distribution incl. Python's re-initialisation when __new__ returns an instance, Adjoint involution/zero/sums, + - neg scalar*) and the reported argument numbers. Proved for all compositions (induction on the syntax) under the listed laws of contraction/transpose/linearity that every simplification preserves the assembled map outside the decidable class `reinit`, with refutations for the two known findings. Tie: typed random compositions of real Forms, Matrix, Cofunction, Coefficient, Coargument, ZeroBaseForm are built with the real classes and compared structurally with the model inside Coq on every run.",
    note="Trusted: Coq kernel + vm_compute; the multilinear-map algebra is axiomatised by Section hypotheses (instantiated at Z for consistency), not a concrete tensor model; coefficients(), derivatives of base forms, map_integrands, complex/non-integer weights not modelled.",
    design="3/C28")
CLAIMED["C19"] = dict(
    technique="Coq: fuelled stack-machine models of corealg/traversal.py, the map_expr_dag fold and mro first-match dispatch; induction for all trees / handler tables; class table regenerated by introspection; exact model-vs-code correspondence on random shared DAGs and all algorithm classes",
    text="Proved for ALL trees (structural equality = UFL's ==): unique post-order has no duplicates, yields exactly the distinct sub-expressions, operands before users, root last, fuel 2*size+1 suffices; pre-order and cut-off variants; map_expr_dag with any sound vcache/rcache, both compress values and cut-off handlers equals the plain recursive map; for every mro list and handler table the dispatched handler is that of the nearest ancestor defining one. Tie: the 167-class table is regenerated from /repo each run (forest, typecodes, mro = parent chain checked by vm_compute); dispatch of all 24 real MultiFunction/Transformer subclasses x all classes and the six traversals / map_expr_dag / DAGTraverser / Transformer.visit on random real DAGs with sharing are compared exactly with the model.",
    note="Trusted: Coq kernel + vm_compute; mapping of real Expr DAGs to the tree type; map_expr_dags with several expressions, DAGTraverser and Transformer.visit are validated against the model only (no hand model).",
    design="3/C19")
CLAIMED["C20"] = dict(
    technique="Coq state-machine model of the handler-table caches with the cache policy extracted from the two __init__ bodies by ast; induction over operation histories; histories replayed on real code in fresh subprocesses and compared with the model",
    text="State = live class registry, import-time snapshot, per-algorithm-class handler cache; operations Register/Instantiate/Apply. The cache policy (validates against the live registry? iterates the live registry?) is extracted from MultiFunction.__init__ and Transformer.__init__ with ast on every run and cross-checked by behavioural probes. Proved for all histories: with a validating live policy every Apply equals C19's dispatch (C20_history); for any policy histories without a Register after first use are correct (_partial); for the current non-validating policy the 3-step history Instantiate->Register->Apply fails (C20_history_refuted, known finding). Random histories with really registered @ufl_type classes run in fresh interpreters and must equal the model's outputs.",
    note="Trusted: Coq kernel; ast policy extraction; instance-level staleness (an instance created before a registration) not modelled.",
    design="3/C20")

CLAIMED["C07"] = dict(
    technique="Coq proof of traced lowering outputs (tie T2) against vertex-level definitions + hand-proved geometry theorems (Crelle, circumcentres, normals, Gram/pinv laws)",
    text="The real apply_geometry_lowering is traced on every geometric quantity for interval (gdim 1-3), triangle (gdim 2-3) and tetrahedron cells, per facet/ridge where relevant (165 configurations quick, 187 thorough, listed in the evidence); the remaining terminals are read through a reference-cell convention table and Coq proves for ALL vertex positions and points that each lowered component equals a Gallina specification written over the vertex coordinates, with abs/sqrt/min/max matched structurally (a lost abs, flipped sign or min<->max breaks an obligation). Hand theorems (closed) prove that the specifications are the geometric quantities: Gram determinants, left/right (pseudo-)inverse laws, volume^2, circumradius via explicit circumcentres and Crelle's identity, facet normals tangent-orthogonal/unit/outward, cell normals.",
    note="Trusted: Coq kernel + vm_compute; serializer; the reference-cell convention table (FFCx/basix numbering) in Props/C07_spec.v; real mode; non-degeneracy premises; abs/sqrt/min/max uninterpreted (sqrt^2, abs^2 laws as premises of the hand theorems). Non-affine, quadrilateral/hexahedral cells not covered.",
    design="0.1/C07")
CLAIMED["C13"] = dict(
    technique="AST translation of the __eq__/__repr__/hash methods into Coq specs with a generic consistency theorem; hand model of expr_equals proved equal to structural equality; Coq-checked model-vs-code correspondence cases",
    text="On every run the effective __eq__/equals, __repr__ and hash methods of 20+ terminal and form-level classes (all geometric quantities as a group) are translated from /repo with inspect+ast (fail-closed) into Gallina specs; C13_class_consistent proves for every well-formed spec that == is an equivalence implying equal repr and hash data, and each class gets a _consistent lemma or, if its spec is not well-formed, _refuted/_partial lemmas (Constant today). A faithful model of expr_equals (hash cut-off, identity shortcuts, stack loop, equal_pairs memo) is proved for all trees and all hash functions to decide structural equality; equal expressions share every bottom-up attribute; comparison histories on a heap leave every denoted tree unchanged. Pairs differing in one attribute / one node, triples, comparison histories, eval(repr) and pickle round trips are checked on the real code and against the model each run (also with all cached hashes forced to 0).",
    note="Trusted: Coq kernel; the translator py/C13_t1.py; user-supplied element/domain == assumed an equivalence consistent with repr; round trips are validated on the real code, not proved; ExternalOperator/Interpolate not modelled. 3 known findings.",
    design="0.1/C13")
CLAIMED["C27"] = dict(
    technique="AST translation of metadata-dict handling into an aliasing IR with a Coq frame theorem; monitored random operation histories",
    text="PARTIAL (modelled mutation channels). The metadata-dict handling of attach_estimated_degrees, apply_integral_scaling, Integral/Measure constructors and reconstruct, group_form_integrals, accumulate_integrands_with_same_metadata, build_integral_data, rearrange_integrals_by_single_subdomains is translated from /repo into an aliasing IR on every run; C27_frame proves for all IR programs passing the must-be-fresh analysis, all heaps and iteration counts, that no dict existing before the call is written, and each translated function is shown safe by vm_compute. The == channel is covered by C13_compare_history_pure. A monitor replays seeded random histories of 28 public operations on generated forms and compares repr, hash, fresh signature, arguments, coefficients, constants and deep metadata of every pooled object after every step (validation and search oracle).",
    note="Trusted: Coq kernel; translator py/C27_t1.py (whitelisted callees assumed read-only); channels outside the heap model (Form caches, Expr._hash, third-party objects, re-initialisation through __new__/__init__) are monitored only. 1 known finding (abs-of-abs-reinit).",
    design="0.1/C27")

CLAIMED["C08"] = dict(
    technique="Coq: hand-proved model theorem (induction on element trees) + traced obligations (ring/field) on the real apply_function_pullbacks output",
    text="Props/C08_spec.v defines the declared push-forward of every pullback kind (identity, covariant, contravariant, L2, double covariant/contravariant, covariant-contravariant; rank-generic) and of mixed/symmetric compositions, and a value-level model of MixedPullback.apply / SymmetricPullback.apply; C08_mixed_symmetric proves by induction on the element tree, for all trees, reference values and J, K, detJ, that the model equals the concatenation / symmetry-mapped push-forwards. On every run the real apply_function_pullbacks is traced for all 7 kinds x cells (interval, triangle, tetrahedron) x gdim (incl. immersed) x leading rank <= 2 x nested mixed/symmetric trees, and Coq proves for every physical component, for all reference values and all J, K, detJ, that it equals the specification; physical shapes are checked four ways.",
    note="Trusted: Coq kernel + vm_compute; serializer; the push-forward formulas pf are the specification (definitions); detJ <> 0; symmetric sub-elements of equal physical shape assumed (wf); configurations bounded (depth <= 3, gdim <= 3), the mixed/symmetric model theorem is unbounded.",
    design="0.1/C08")
CLAIMED["C17"] = dict(
    technique="Coq: inductive theorems about a table-parametric model of RestrictionPropagator; table extracted per run (T1), exhaustive terminal-rule correspondence (T3), traced value/once obligations (T2)",
    text="Props/C17_model.v models the two-level restriction propagation parametrically in the handler table; proved by induction over all expressions of the modelled fragment: the propagated integrand has the same two-sided value under the continuity laws (side-independent terminals, n- = -n+ on affine non-manifold meshes), every side-dependent terminal ends up under exactly one Restricted placed directly on it and side-independent ones under none, and nested / missing restrictions are errors. On every run the handler table is read off the real RestrictionPropagator and Coq checks the table properties the theorems need and instantiates them; every terminal class x current restriction x default mode is compared structurally with the model (~650 cases); ~110 generated interior-facet integrands are traced through the real apply_restrictions and proved value-equal and once-restricted, and the real code must raise on double/missing restrictions.",
    note="Trusted: Coq kernel; dispatch introspection; continuity laws are hypotheses; composite integrands tied by value/once only; single mesh per integrand. 1 known finding (missing restriction accepted when default restrictions are off).",
    design="0.1/C17")
CLAIMED["C05"] = dict(
    technique="Coq: unbounded soundness theorems for Gallina models of the constructor simplifications (case analysis, induction on fuel) + per-run traced obligations den(result)=den(raw node) on an exhaustive small-scope enumeration of requests executed on the real constructors (T2) + structural model/implementation correspondence (T3)",
    text="For the modelled constructors (Sum, Product, Division, Power, Abs, Conj, Real, Imag, Conditional, Indexed/IndexSum/ComponentTensor/ListTensor shortcuts incl. the recursive hooks) Coq proves for all operands, valuations and algebras that the simplified node has the shape, free indices and value of the raw node (integer folding exact), with guarded forms and closed refutations for the defective shortcuts. On every run ~2.7k (quick) / 4.7k (thorough) enumerated requests (all multi-indices over 3 index objects on 28 tensors, zeros with free indices, literals, nested list/component tensors, *, [], slices, /, -, .T, **, inner/outer/dot, conditional, math functions, restrictions) are executed on the real constructors; the raw request is built as Gallina text from the serialised operands and Coq proves shape, free indices and den(result) = den(raw) for every component and that the Gallina models reproduce the implementation's output modulo commutative operand order.",
    note="Trusted: Coq kernel + vm_compute; serializer; raw-node builder; floating-point literal folding validated numerically only; operators *, [], /, unary -, .T and tensor-algebra __new__ are covered per enumerated pattern only (dims <= 3). 5 known findings.",
    design="0.1/C05")
CLAIMED["C29"] = dict(
    technique="Coq hand model of cmp_expr/operand sorting + structural correspondence on generated pairs/triples + direct property oracles",
    text="Props/C29_model.v models cmp_expr faithfully (typecode, operand count, operands last-first, repr-based and numeric terminal comparators, zip-truncating multi-index comparison) and Sum/Product/Inner operand sorting. Proved for all trees: antisymmetry, reflexivity, cmp = 0 iff equal up to index/label numbers (partial), swap invariance of the sorted constructors, consistency (transitivity) on aligned triples, and consistency of the repaired comparator for all triples; the full transitivity statement is refuted with the cycle A[0,1] > B[0] > C[0,2] > A[0,1]. Every run maps ~1.6k real expression pairs, ~500 triples and ~900 constructor outputs to the model and Coq must reproduce the real cmp_expr and the real a+b, a*b, inner results; the property is also evaluated directly on the real objects.",
    note="Trusted: Coq kernel; mapping of real expressions to trees (repr mapping round-trip checked, fail closed); sorted_expr on >= 3 operands not modelled. 1 known finding (intransitivity).",
    design="0.1/C29")
CLAIMED["C12"] = dict(
    technique="Coq invariance theorems (monotone renaming) + fresh-process history harness over counter offsets x hash seeds",
    text="Props/C12_model.v adds renaming of the five global counters, construction scripts (operands sorted at commutative nodes at build time) and canonical renumbering on top of the C29 comparator model. Proved: cmp, build and canonicalisation are invariant under every monotone renaming on trees with no counter inside a repr-ordered terminal (hence the signature, for any hash), and refuted for repr-ordered terminals (Constant counts 1,2 -> 9,10; mesh ids). Every run executes seeded form-building scripts in fresh interpreters with the counters pre-advanced to {0,8,9,98,99,998} and several PYTHONHASHSEED values; signatures must agree across all configurations, and Coq checks that the mapped integrands of two configurations are renamings of each other.",
    note="Trusted: Coq kernel; the history harness (subprocesses); attribution to the known finding checks the class predicate (two repr-ordered terminals change relative repr order). 1 known finding (repr-ordered terminals embed counters).",
    design="0.1/C12")
CLAIMED["C11"] = dict(
    technique="Coq injectivity theorems over rendered hash-data tokens (SHA-512 and str as Section variables with injectivity hypotheses) + single-point-mutation families on the real signature",
    text="Props/C11_model.v models the signature data (terminal data, expression hash data, integral/metadata data). Proved: equal forms have equal signature data; with an injective hash, equal signature implies integral-by-integral equal renumbered integrand, domain data, integral type, subdomain id and canonical metadata; canonical metadata is injective on typed metadata trees and refuted for untyped / ndarray metadata. Every run builds families of a base form, rebuilt copies and 30 single-point mutants (literal, index pattern, operand order, conj, element degree, argument number, subdomain id, integral type, metadata value/key/type/array) and requires real signature equality to coincide with the model's meaning equality on all pairs, with the model's terminal data in bijection with the real _ufl_signature_data_.",
    note="Trusted: Coq kernel; SHA-512/str injectivity are hypotheses; no ast translation (T3 only); base-form-operator data not covered. 2 known findings (untyped metadata, str(ndarray) truncation).",
    design="0.1/C11")
CLAIMED["C10"] = dict(
    technique="Coq: hand models of IndexReplacer/IndexRemover/IndexRelabeller/IndexExpander with substitution, renaming and expansion theorems by induction + traced obligations den(out)=den(in) and model/implementation correspondence on generated expressions",
    text="Props/C10_*.v model remove_component_tensors (IndexReplacer, faithfully not capture-avoiding), renumber_indices and expand_indices (with the label-keyed variable cache). Proved by induction for all algebras, environments, valuations and valid components: the substitution lemma, value preservation of component-tensor removal under a decidable capture-freeness predicate, of every injective relabelling (no hygiene assumption), and of index expansion; closed refutations with witnesses for the capture, the Zero re-indexing error and the variable cache. Every run executes the three real passes on ~210 (quick) / 1400 (thorough) generated expressions (reused indices, shadowing, nested component tensors, zeros with free indices, variables used twice; half hygienic) and Coq proves den(out) = den(in) for all operand values plus shape/free indices, and that the Gallina model reproduces the output.",
    note="Trusted: Coq kernel + vm_compute; serializer; the link from the model theorems to /repo is per generated case; compound-algebra nodes and non-literal exponents outside the fragment. 3 known findings.",
    design="0.1/C10")
CLAIMED["C09"] = dict(
    technique="Coq: algebraic lemmas for delta contraction/elimination, sum interchange and power laws (all algebras) + traced obligations on the real cancel_jacobian_products proved by field for all Jacobians under K = pseudo-inverse(J)",
    text="Props/C09_algebra.v proves for every algebra: K.J contraction = delta under the left-inverse law, delta elimination, sum interchange, pushing factors into sums, natural-power laws, and refutes merging (x^2)^(1/2)*(1/x) into 1. Every run traces the real cancel_jacobian_products on ~165 (quick) / 448 (thorough) expressions (K.J and J.K contractions in all operand orders and nestings, extra factors, traces, chains, reused indices, Identity tensors, transposed contractions that must not cancel, reciprocal products and powers, Piola integrands after pullback and derivative expansion; gdim = tdim and gdim > tdim) and Coq proves den(out) = den(in) for all Jacobians and factor values with K = (pseudo-)inverse(J) and non-degeneracy as hypotheses.",
    note="Trusted: Coq kernel + vm_compute; serializer; no hand model of the traversal itself (the index substitution part is C10's model); non-integer real exponents validated numerically only. 2 known findings.",
    design="0.1/C09")

CLAIMED["C01"] = dict(
    technique="Coq: composition theorem over the stage list translated from compute_form_data by ast (all 2^11 option records by case analysis) + traced scaling factors + end-to-end traced obligations den(preprocessed) = scale * den(original) for a zoo of forms x option combinations",
    text="PARTIAL (composition). (a) The stage list of compute_form_data / preprocess_form / FormData.__init__ is translated from the source with ast into a Gallina function of the option record on every run; Coq proves for ALL option records that the scaling stage occurs exactly once iff requested and the order constraints the stages rely on, and that any run of the extracted pipeline whose stages are individually meaning-preserving (the other properties) returns meaning' = scale * meaning or raises. (b) The scaling factor built by the real compute_integrand_scaling_factor for every integral type x cell is proved to be |detJ|w / detFJ w / detRJ w / w / 1. (c) The real compute_form_data is run on a zoo of single-integral forms (mass, stiffness, nonlinear, vector, div, coordinate, conditional, sin, boundary, cell volume, facet-normal flux, contravariant and covariant Piola) for every combination of pullbacks, scaling, geometry lowering, Jacobian cancellation and component-tensor removal, and Coq proves for all field values den(preprocessed integrand) = den(scale) * den(integrand after preprocess_form), where the reference and physical frames are connected by hypotheses traced from the real per-stage code (push-forward of every form argument, lowered form of every geometric quantity, chain rule through the affine cell map).",
    note="Trusted: Coq kernel + vm_compute; py/C01_extract.py; stage soundness is the content of C02-C10, C15, C17, C23 (hypotheses of C01_pipeline_sound); assumed stages: apply_coordinate_derivatives, CoefficientSplitter, do_replace_functions; end-to-end forms are single-integral cell/exterior-facet forms on affine simplices (interval, triangle; tetrahedron and immersed triangle in the thorough tier).",
    design="0.1/C01")

CLAIMED["C14"] = dict(
    technique="Coq proof by induction over all expressions: a Gallina model of ArityChecker (dispatch table + one function per handler) accepts only integrands whose denotation is (conjugate-)linear in each argument number and contains exactly the declared arguments; dispatch table regenerated from the source with ast on every run; arity tuple and verdict of the real checker compared with the model on generated integrands by vm_compute; numeric multilinearity oracle on every accepted integrand",
    text="Props/C14_{model,sound}.v: for every expression, algebra and environment, if the model of check_integrand_arity accepts (and the decidable guard holds) the denotation is additive and (conjugate-)homogeneous in each argument number and contains exactly the declared arguments (C14_sound_partial, C14_args_exact), with rejection corollaries for a + c, a*a, f(a), c/a and closed refutations for the two known findings. The ArityChecker class body is parsed with ast on every run and its dispatch table compared class by class with the model's; ~400 (quick) / 3200 (thorough) probes and generated integrands (real/complex mode, parts, wrong declared argument lists) must get the same arity tuple and verdict from the real checker and the model, and every accepted integrand is tested numerically for multilinearity.",
    note="Trusted: Coq kernel + vm_compute; serializer; conj involutive morphism, constant scalars, pointwise conditionals are theorem hypotheses; handler bodies tied by sampled structural agreement, dispatch by T1; CellAvg/FacetAvg only in the dispatch table. 2 known findings.",
    design="0.1/C14")
CLAIMED["C16"] = dict(
    technique="Coq proof: inclusion-exclusion parts of an affine-bilinear integrand are its bilinear/linear/constant parts, uniqueness, action/energy/adjoint algebra (any algebra); traces of the real lhs/rhs/system/functional/action/adjoint/energy_norm on a form zoo, each result integrand proved equal to the semantic part of the input for all terminal values",
    text="Props/C16_algebra.v proves the part algebra (F = lhs - rhs + functional, uniqueness of the decomposition, bilinearity/linearity, action/energy/adjoint identities) for every algebra. On every run the real system/lhs/rhs/functional/action/adjoint/energy_norm and compute_form_* run on a zoo of 26 (quick) / 46 (thorough) forms (0-2 arguments, scalar/vector/mixed spaces, quotients, conditionals, list tensors, variables, restrictions, several measures and metadata); integrals are matched by (domain, type, subdomain id, metadata) and Coq proves for all terminal values that each result integrand equals the inclusion-exclusion part / substituted / conjugate-swapped original, the substitutions being applied while serialising the input.",
    note="Trusted: Coq kernel + vm_compute; serializer-level substitution; no Gallina model of PartExtracter (traces only); assumes D 0 = 0, conj an involutive morphism, non-zero argument-free denominators. 1 known finding (adjoint with MixedFunctionSpace parts).",
    design="0.1/C16")
CLAIMED["C22"] = dict(
    technique="Coq proof: partition/independence theorems for any number of sub-spaces over an arbitrary UFL algebra; traces of the real extract_blocks on generated mixed forms (each block = original integrand under the zero-padded embedding of one test and one trial sub-function, and these sum to the form); structural correspondence of FormSplitter.argument with the Gallina model",
    text="Props/C22_blocks.v proves for any number of sub-spaces and any additive integrand that the blocks under the zero-padded embeddings partition the form and that each block depends only on its own sub-functions, and that the ListTensor built by FormSplitter.argument denotes the embedding. On every run the real extract_blocks (all blocks, row, single block; both replace_argument modes) runs on generated linear/bilinear forms over MixedElement spaces with 2-4 (nested, vector, tensor) sub-elements and MixedFunctionSpace with grad/div/jump/avg/restrictions on dx/ds/dS; Coq proves for all values that each block equals the original under the embedding, absent blocks are provably zero, and the blocks sum to the form; each block is checked to mention only its own sub-function.",
    note="Trusted: Coq kernel + vm_compute; serializer-level substitution; additivity of the integrand is a hypothesis of the hand theorems (C14); indexed/restricted handlers covered by traces only. 3 known findings on the MixedElement all-blocks/row API.",
    design="0.1/C22")
CLAIMED["C18"] = dict(
    technique="Coq: Gallina model of SumDegreeEstimator with an inductive soundness theorem over den in any UFL algebra with a degree filtration; ast->Gallina translation of the handler table; vm_compute correspondence; exact-jet true-degree oracle",
    text="Props/C18_{model,sound,poly}.v: a faithful model of SumDegreeEstimator; C18_sound_partial proves by induction, for every polynomial-fragment expression satisfying the decidable guard, every algebra with a degree predicate obeying the degree laws, and every environment whose terminal components are bounded by the degree of the sub-element owning that physical component, that the estimate bounds the degree of every component; the unguarded statement is refuted (symmetric element). All 63 handlers are translated from the source with ast on every run and proved equal to the model's table; ~270 (quick) / 2600 (thorough) generated integrands over mixed/nested/symmetric/Piola/enriched elements must get the model's estimate from the real estimate_total_polynomial_degree and attach_estimated_degrees, and the true degree from exact polynomial jets is compared on every polynomial case.",
    note="Trusted: Coq kernel + vm_compute; the ast translator; degree laws and the per-component environment bound are Section hypotheses (proved for univariate Z-polynomials only); tensor-product-cell tuple degrees not covered. 1 known finding (indexed walks reference sizes with the physical index).",
    design="0.1/C18")
CLAIMED["C23"] = dict(
    technique="Coq hand model of CheckComparisons/ComplexNodeRemoval with unbounded induction theorems; ast + live dispatch tables; vm_compute correspondence of verdict, output tree and nodetype; value lemmas on traces; complex numeric oracle",
    text="Props/C23_*.v: for all expressions, accepted comparisons/min/max are rebuilt with Real(.) operands, rejection happens exactly when an ordering site has a complex-typed operand, real-mode removal rejects exactly Imag and complex literals and leaves no Conj/Real/Imag; on the fragment without compound tensor nodes the checked expression keeps its value, non-complex type implies zero imaginary part, and real-mode removal preserves the value for real data. Both classes' handler tables are matched against the source with ast each run; 600 (quick) / 10000 (thorough) generated integrands go through the real do_comparison_check and remove_complex_nodes and verdict, output tree (modulo commutative operand order) and node type must equal the model's; value obligations are proved on traced cases.",
    note="Trusted: Coq kernel + vm_compute; reals closed under the stated algebra laws; the comparator modulo operand order; termination not modelled. 2 known findings.",
    design="0.1/C23")
CLAIMED["C24"] = dict(
    technique="Coq: hand model py_eval of the evaluate methods with an inductive soundness theorem against den; ast rule table + normal forms; exact Fraction differential runs checked as vm_compute Examples",
    text="Props/C24_{model,inst}.v: py_eval models the evaluate methods (component passing, index_values StackDict push/pop, derivatives tuples); C24_eval_sound proves by mutual induction that whenever py_eval returns a value it is den of the expression at that component (derivatives iterated), for every algebra, mapping, component and index stack; totality is refuted for vector-valued conditionals. 19 straight-line evaluate methods are translated with ast into a rule table compared by reflexivity and 29 loop/branch methods are pinned to their normalised body on every run; 600 (quick) / 6000 (thorough) exact Fraction evaluations of the real e(x, mapping) (including callables taking derivatives and reused indices) must equal the model's result.",
    note="Trusted: Coq kernel + vm_compute; Python arithmetic / math functions return the algebra's value when they return (hypotheses); float coercions compared to 1e-9; complex values and compound operators before lowering not covered. 2 known findings.",
    design="0.1/C24")

CLAIMED["C02"] = dict(
    technique="Coq: traced obligations den(expand_derivatives(derivative(F,w,v,cd))) = G(den F) for a derivation G (ring/field after rewriting with the derivation laws), plus an unbounded induction on expr for a Gallina model of the rule table",
    text="The directional derivative d/dtau F(w + tau v) is specified algebraically as a derivation G of the UFL algebra (additive, Leibniz, chain rule for every function symbol, commuting with the spatial derivations) with G(w_c) = v_c, G(f) = df.v for user relations and G = 0 on all other terminals. Props/C02_gateaux.v proves by induction, for every expression of the modelled fragment, every algebra and every such derivation, den(gat e) = G(den e) (C02_gateaux_partial), and refutes the raise-or-correct half for Grad of a coefficient with a user relation. On every run the real expand_derivatives(derivative(...)) is traced for every rule x operand-dependence pattern (incl. the gp = Zero branch, Bessel orders), w scalar/vector/tensor given as whole coefficient, component, tuple, list tensor or mixed split, v an Argument or Coefficient, second derivatives, coefficient_derivatives relations and seeded nested expressions, and Coq proves every component of the result equal to G(den F) for all field values; cases that cannot be represented must raise.",
    note="Trusted: Coq kernel + vm_compute; serializer; chain-rule laws, tan/tanh/conditional/Bessel identities are Section hypotheses (they define 'derivative' in a differential ring; the link to analysis over R was not built); ReferenceValue/ReferenceGrad, Bessel d/dnu, base-form operators, CoordinateDerivative not covered. 1 known finding.",
    design="0.1/C02")
CLAIMED["C04"] = dict(
    technique="Coq: traced obligations den(expand_derivatives(diff(f,v))[v:=T]) (c++cv) = D_cv(den f[v:=T] c) plus per-case shape Examples; hand theorem C04_value instantiates the C02 induction",
    text="The partial derivative with respect to a variable is specified as the derivation D_cv that perturbs the fresh terminal standing for the Variable node labelled v in component cv and vanishes on every other terminal. Props/C04_diff.v proves C04_value (den of the modelled rule table applied to e equals D_cv(den e) for all expressions of the fragment, algebras and such derivations) and C04_nested (other variables are differentiated through). On every run the real expand_derivatives(diff(f, v)) is traced for every scalar rule, variables of expressions, bare coefficients, scalar/vector/tensor variables, nested variables, repeated and mixed second derivatives and seeded nested expressions; Coq proves every component (c ++ cv) for every unit direction cv for all field values, and shape(diff f v) = shape f ++ shape v per case.",
    note="Trusted: Coq kernel + vm_compute; serializer and the Python substitution of the Variable by a fresh terminal; chain-rule laws as for C02; the shape law is proved per traced case only; diff(...)[i] indexed before expansion, ReferenceValue, forms not covered.",
    design="0.1/C04")

CLAIMED["C03"] = dict(
    technique="Coq: Gallina model of the Grad rules with soundness by induction in an arbitrary differential UFL algebra + per-run traced obligations on the real apply_derivatives after apply_algebra_lowering",
    text="Grad denotes an arbitrary family D_j; the property is proved for every family of derivations obeying the chain rules and the affine-geometry laws (dx_i/dx_j = delta_ij, cellwise constants differentiate to 0). Props/C03_model.v models the GradRuleset rules and the dispatcher for nested (.).dx(j); C03_dj_sound, C03_grad_sound and C03_AD_value prove by induction for all expressions that the model's output has the value of the derivative and C03_AD_normal_form that derivatives end up on Grad^k(terminal) only. On every run the real apply_derivatives(apply_algebra_lowering(e)) is traced on ~118 rule/operand patterns per cell, a constructor family (folding in Grad/Div.__new__ visible), seeded random typed expressions with nested grad/div/curl/nabla_grad/nabla_div/.dx up to order 3 over x, J, K, detJ, n, constants, and a reference-frame family (grad_to_reference_grad, gdim > tdim, non-affine P2); Coq proves den(out) = den(in) for all field values and that every output is in normal form.",
    note="Trusted: Coq kernel + vm_compute; serializer; derivation and chain-rule laws, constant geometry on affine simplices, characteristic 0 are hypotheses; tensor-valued intermediates, curl/div lowering and reference-frame rules are proved per traced configuration only; erf/Bessel by traces only. 2 known findings (both raise on valid input).",
    design="0.1/C03")
CLAIMED["C21"] = dict(
    technique="Coq: substitution lemma by full structural induction for a Gallina model of replace + traced obligations on the real ufl.replace + model correspondence by vm_compute",
    text="Props/C21_model.v: for all expressions and all mappings of terminals to closed expressions, C21_subst proves den(rep m e) in env equals den e in the environment that maps each mapped terminal to the value of its image - including under Grad (the derivation acts on the image), restrictions and variables; C21_shape_reject: the checked replace fails exactly when a shape is incompatible; C21_identity: without mapped terminals the expression is returned unchanged. On every run the real ufl.replace runs on 29 fixed key-parent patterns and seeded random expression x mapping pairs; the expected expression is produced by an independent substitution inside the serializer and Coq proves den(out) = den(expected) for all values and that the Gallina model returns the same tree; shape-changing mappings must raise and unmapped expressions must come back unchanged.",
    note="Trusted: Coq kernel + vm_compute; serializer-level substitution; images without free indices; kpow agrees with kpown on literal naturals; BaseForm / ExternalOperator / Interpolate handlers and form-level replace not covered.",
    design="0.1/C21")

REASON_PENDING = "model not finished in this revision; not claimed rather than claimed with a non-proof check"


def main():
    props = [json.loads(l) for l in open(os.path.join(VERIF, "properties.jsonl"))]
    checks = []
    na = []
    for p in props:
        pid = p["id"]
        if pid in CLAIMED:
            c = CLAIMED[pid]
            checks.append({
                "property_id": pid,
                "quick_cmd": f"bin/check {pid} --tier quick",
                "thorough_cmd": f"bin/check {pid} --tier thorough",
                "evidence_file": f"/verif/evidence/{pid}.json",
                "replay_cmd_template": f"bin/check {pid} --replay {{path}}",
                "engine": "coq-ufl",
                "level_claimed": {"category": "proof", "text": c["text"], "design_ref": c["design"]},
                "level_note": c["note"],
                "technique": c["technique"],
            })
        else:
            na.append({"property_id": pid, "reason": NA.get(pid, REASON_PENDING)})
    man = {
        "version": 1,
        "setup_cmd": "bin/setup",
        "hooks": {
            "guard": "UFL_VERIF",
            "enable": "no source hooks are needed: checks import /repo with PYTHONPATH=/repo and manipulate counters/caches from the harness process",
            "baseline_off_cmd": "cd /repo && /venv/bin/python -m pytest -ra -q -p no:cacheprovider --timeout=900 --continue-on-collection-errors",
            "source_commits": [],
            "add_only": True,
        },
        "engines": [{
            "name": "coq-ufl", "path": "/verif/coq",
            "serves_properties": sorted(CLAIMED),
            "kind_free_text": "Coq 8.16.1 development: deep embedding of UFL expressions with a denotation into an abstract "
                              "UFL algebra; per-run regenerated obligations (coq/Gen) from tracing /repo; hand models with correspondence",
        }],
        "checks": checks,
        "not_applicable": na,
        "notes": "See DESIGN.md. Every check rebuilds its generated Coq files from /repo's working tree, compiles them with coqc "
                 "(full .vo), and searches for a concrete failing input when an obligation breaks.",
    }
    with open(os.path.join(VERIF, "MANIFEST.json"), "w") as f:
        json.dump(man, f, indent=1)


NA = {}

if __name__ == "__main__":
    main()
