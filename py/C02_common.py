"""Shared machinery of the C02 (Gateaux derivative) and C04 (variable derivative) checks.

Specification side, in Coq (LAWS): a *derivation* G of the UFL algebra -- additive, Leibniz, quotient
rule, commuting with conj/re/im/conditionals and with the spatial derivations Dx j / DX j, with one
chain-rule law per function symbol -- whose action on terminals is given per case
(G(env s k id c) = varG s k id c and the case hypotheses say what varG is: the direction v for the
differentiation coefficient, 0 for every other terminal, df.v for user relations, a Kronecker delta
for variable derivatives).  Obligation of a case, for every component c:

    den(expand_derivatives(derivative(F, w, v))) c  =  G (den F c)          for all field values,

proved by rewriting G through den F with the laws (Ltac gpush), then ring / field.  A second
derivation H (for derivatives of derivatives) is available.
"""

import itertools
import math

import ufl
import ufl.classes as C

import coqgen
import ufl2coq

LAWS = r'''
(* ------------------------------------------------------------------------------------------ *)
(* C02 / C04: what "derivative" means.  A Gateaux / partial derivative is a derivation of the
   algebra obeying the chain rule for every function symbol and commuting with d/dx_j.        *)
Definition lit2 : KT := @of_Z A 2.                        (* the literal 2   *)
Definition lit2f : KT := div (@of_Z A 2) (@of_pos A 1).    (* the literal 2.0 *)
Definition lit1f : KT := div (@of_Z A 1) (@of_pos A 1).    (* the literal 1.0 *)
Definition lithalf : KT := div (@of_Z A 1) (@of_pos A 2).  (* the literal 0.5 *)
Definition lit2rpi : KT := @kdyad A (@@M@@) (@@E@@).   (* the binary64 literal 2.0 / sqrt(pi) *)
Definition sgn (x : KT) : KT := cond_ (cmp CEQ x z0) z0 (cond_ (cmp CLT x z0) (opp z1) z1).
Definition sq (x : KT) : KT := mul x x.

Record deriv_laws (G : KT -> KT) : Prop := {
  g_der  : @Derivation A G;
  g_Dx   : forall j x, G (Dx j x) = Dx j (G x);
  g_DX   : forall j x, G (DX j x) = DX j (G x);
  g_abs  : forall x, G (abs x) = mul (sgn (re x)) (G x);
  g_pow  : forall x y, G (pow x y) =
             mul (pow x (sub y z1)) (add (mul y (G x)) (mul (mul x (fn FLn x)) (G y)));
  g_sqrt : forall x, G (fn FSqrt x) = div (G x) (mul lit2 (fn FSqrt x));
  g_exp  : forall x, G (fn FExp x) = mul (G x) (fn FExp x);
  g_ln   : forall x, G (fn FLn x) = div (G x) x;
  g_cos  : forall x, G (fn FCos x) = mul (G x) (opp (fn FSin x));
  g_sin  : forall x, G (fn FSin x) = mul (G x) (fn FCos x);
  g_tan  : forall x, G (fn FTan x) = mul (G x) (add z1 (sq (fn FTan x)));
  g_cosh : forall x, G (fn FCosh x) = mul (G x) (fn FSinh x);
  g_sinh : forall x, G (fn FSinh x) = mul (G x) (fn FCosh x);
  g_tanh : forall x, G (fn FTanh x) = mul (G x) (sub z1 (sq (fn FTanh x)));
  g_acos : forall x, G (fn FAcos x) = div (opp (G x)) (fn FSqrt (sub lit1f (sq x)));
  g_asin : forall x, G (fn FAsin x) = div (G x) (fn FSqrt (sub lit1f (sq x)));
  g_atan : forall x, G (fn FAtan x) = div (G x) (add lit1f (sq x));
  g_erf  : forall x, G (fn FErf x) =
             mul (G x) (mul lit2rpi (fn FExp (opp (sq x))));
  g_atan2 : forall x y, G (atan2 x y) = div (sub (mul y (G x)) (mul x (G y))) (add (sq x) (sq y));
  g_max  : forall x y, G (max_ x y) = cond_ (cmp CGT x y) (G x) (G y);
  g_min  : forall x y, G (min_ x y) = cond_ (cmp CLT x y) (G x) (G y);
  g_bj   : forall n x, G (bessel BJ n x) =
             mul (mul lithalf (sub (bessel BJ (sub n z1) x) (bessel BJ (add n z1) x))) (G x);
  g_by   : forall n x, G (bessel BY n x) =
             mul (mul lithalf (sub (bessel BY (sub n z1) x) (bessel BY (add n z1) x))) (G x);
  g_bi   : forall n x, G (bessel BI n x) =
             mul (mul lithalf (add (bessel BI (sub n z1) x) (bessel BI (add n z1) x))) (G x);
  g_bk   : forall n x, G (bessel BK n x) =
             mul (mul (opp lithalf) (add (bessel BK (sub n z1) x) (bessel BK (add n z1) x))) (G x);
}.

(* identities of the function symbols used by UFL's way of writing tan', tanh', max', min' and the
   order-0 Bessel rules (true for the real/complex functions; hypotheses on the algebra) *)
Hypothesis tan_id : forall x, div lit2f (add (fn FCos (mul lit2f x)) lit1f) = add z1 (sq (fn FTan x)).
Hypothesis tanh_id : forall x,
  sq (div (mul lit2f (fn FCosh x)) (add (fn FCosh (mul lit2f x)) lit1f)) = sub z1 (sq (fn FTanh x)).
Hypothesis cond_sel : forall b x y,
  cond_ b x y = add (mul (cond_ b z1 z0) x) (mul (sub lit1f (cond_ b z1 z0)) y).
Hypothesis bj_refl : forall x, bessel BJ (sub z0 z1) x = opp (bessel BJ (add z0 z1) x).
Hypothesis by_refl : forall x, bessel BY (sub z0 z1) x = opp (bessel BY (add z0 z1) x).
Hypothesis bi_refl : forall x, bessel BI (sub z0 z1) x = bessel BI (add z0 z1) x.
Hypothesis bk_refl : forall x, bessel BK (sub z0 z1) x = bessel BK (add z0 z1) x.

Variables G H : KT -> KT.
Hypothesis GL : deriv_laws G.
Hypothesis HL : deriv_laws H.
(* action on terminals: named so that each case can say what it is *)
Variables varG varH : side -> nat -> nat -> list nat -> KT.
Hypothesis G_env : forall s k i c, G (env s k i c) = varG s k i c.
Hypothesis H_env : forall s k i c, H (env s k i c) = varH s k i c.
Hypothesis DxD : forall j, @Derivation A (Dx j).

Section Lemmas.
Variable d : KT -> KT.
Hypothesis L : deriv_laws d.
Lemma l_add x y : d (add x y) = add (d x) (d y). Proof. exact (@d_add A d (g_der d L) x y). Qed.
Lemma l_mul x y : d (mul x y) = add (mul (d x) y) (mul x (d y)). Proof. exact (@d_mul A d (g_der d L) x y). Qed.
Lemma l_div x y : d (div x y) = div (sub (d x) (mul (div x y) (d y))) y. Proof. exact (@d_div A d (g_der d L) x y). Qed.
Lemma l_conj x : d (conj x) = conj (d x). Proof. exact (@d_conj A d (g_der d L) x). Qed.
Lemma l_re x : d (re x) = re (d x). Proof. exact (@d_re A d (g_der d L) x). Qed.
Lemma l_im x : d (im x) = im (d x). Proof. exact (@d_im A d (g_der d L) x). Qed.
Lemma l_cond b x y : d (cond_ b x y) = cond_ b (d x) (d y). Proof. exact (@d_cond A d (g_der d L) b x y). Qed.
Lemma l_zero : d z0 = z0. Proof. exact (@d_zero A d (g_der d L)). Qed.
Lemma l_one : d z1 = z0. Proof. exact (@d_one A d (g_der d L)). Qed.
Lemma l_opp x : d (opp x) = opp (d x). Proof. exact (@d_opp A d x (g_der d L)). Qed.
Lemma l_sub x y : d (sub x y) = sub (d x) (d y). Proof. exact (@d_sub A d x y (g_der d L)). Qed.
End Lemmas.
Lemma Dx_zero j : Dx j z0 = z0. Proof. exact (@d_zero A (Dx j) (DxD j)). Qed.
Lemma Dx_one j : Dx j z1 = z0. Proof. exact (@d_one A (Dx j) (DxD j)). Qed.
Lemma Dx_add j x y : Dx j (add x y) = add (Dx j x) (Dx j y). Proof. exact (@d_add A (Dx j) (DxD j) x y). Qed.
Lemma Dx_mul j x y : Dx j (mul x y) = add (mul (Dx j x) y) (mul x (Dx j y)). Proof. exact (@d_mul A (Dx j) (DxD j) x y). Qed.
Lemma Dx_opp j x : Dx j (opp x) = opp (Dx j x). Proof. exact (@d_opp A (Dx j) x (DxD j)). Qed.
Lemma Dx_sub j x y : Dx j (sub x y) = sub (Dx j x) (Dx j y). Proof. exact (@d_sub A (Dx j) x y (DxD j)). Qed.

Ltac gpush d L :=
  repeat progress rewrite
    ?(l_add d L), ?(l_mul d L), ?(l_div d L), ?(l_sub d L), ?(l_opp d L), ?(l_zero d L), ?(l_one d L),
    ?(l_conj d L), ?(l_re d L), ?(l_im d L), ?(l_cond d L), ?(g_Dx d L), ?(g_DX d L),
    ?(g_abs d L), ?(g_pow d L), ?(g_sqrt d L), ?(g_exp d L), ?(g_ln d L), ?(g_cos d L), ?(g_sin d L),
    ?(g_tan d L), ?(g_cosh d L), ?(g_sinh d L), ?(g_tanh d L), ?(g_acos d L), ?(g_asin d L),
    ?(g_atan d L), ?(g_erf d L), ?(g_atan2 d L), ?(g_max d L), ?(g_min d L),
    ?(g_bj d L), ?(g_by d L), ?(g_bi d L), ?(g_bk d L), ?G_env, ?H_env.
Ltac dxpush := repeat progress rewrite ?Dx_zero, ?Dx_one, ?Dx_add, ?Dx_mul, ?Dx_opp, ?Dx_sub.
Ltac nz_hyp_field :=
  match goal with
  | Hn : ?Y <> ?z |- ?X <> ?z =>
      let E := fresh "E" in
      intro E; apply Hn;
      (transitivity X; [ first [ ring | field; repeat match goal with |- _ /\ _ => split end; nz_char0 char0 ]
                       | exact E ])
  end.
Ltac nzs :=
  repeat match goal with |- _ /\ _ => split end;
  first [ assumption | nz_from_hyps | nz_char0 char0 | nz_hyp_field ].
Ltac pow_unify :=
  match goal with
  | |- context [pow ?X ?Y] =>
      match goal with
      | |- context [pow ?X' ?Y'] =>
          lazymatch constr:((X, Y)) with (X', Y') => fail | _ => idtac end;
          replace (pow X Y) with (pow X' Y') by (f_equal; first [ ring | field; nzs ])
      end
  | |- context [bessel ?k ?X ?Y] =>
      match goal with
      | |- context [bessel k ?X' ?Y'] =>
          lazymatch constr:((X, Y)) with (X', Y') => fail | _ => idtac end;
          replace (bessel k X Y) with (bessel k X' Y') by (f_equal; first [ ring | field; nzs ])
      end
  | |- context [atan2 ?X ?Y] =>
      match goal with
      | |- context [atan2 ?X' ?Y'] =>
          lazymatch constr:((X, Y)) with (X', Y') => fail | _ => idtac end;
          replace (atan2 X Y) with (atan2 X' Y') by (f_equal; first [ ring | field; nzs ])
      end
  | |- context [cmp ?o ?X ?Y] =>
      match goal with
      | |- context [cmp o ?X' ?Y'] =>
          lazymatch constr:((X, Y)) with (X', Y') => fail | _ => idtac end;
          replace (cmp o X Y) with (cmp o X' Y') by (f_equal; first [ ring | field; nzs ])
      end
  end.
Ltac fin0 := first [ reflexivity | ring | field; nzs ].
Ltac fin := first [ fin0 | repeat unify1; fin0 | repeat first [ unify1 | pow_unify ]; fin0 ].
(* identities are used right-to-left on the specification side, one at a time, only if needed *)
Ltac ids :=
  repeat first [ rewrite <- tan_id | rewrite <- tanh_id ];
  rewrite ?bj_refl, ?by_refl, ?bi_refl, ?bk_refl.
Ltac condsel :=
  repeat match goal with
  | |- context [cond_ ?b ?x ?y] =>
      lazymatch x with z1 => fail | _ => idtac end;
      rewrite (cond_sel b x y)
  end.
'''


_M, _E = ufl2coq.dyadic(2.0 / math.sqrt(math.pi))
LAWS = LAWS.replace('@@M@@', str(_M)).replace('@@E@@', str(_E))


def tactic(nhyps, second=False, spatial=False):
    """Proof script of one obligation: normalise, push G (then H) through the specification side,
    use the case's hypotheses on terminals, normalise again, close."""
    hy = ", ".join(f"?H{k}" for k in range(nhyps))
    rw = f"repeat progress rewrite {hy}; " if nhyps else ""
    s = "norm_goal; gpush G GL; " + rw
    if second:
        s += "gpush H HL; " + rw
    if spatial:
        s += "dxpush; "
    s += ("first [ norm_goal; fin | ids; norm_goal; fin | dxpush; norm_goal; fin "
          "| ids; condsel; norm_goal; fin | ids; dxpush; norm_goal; fin ]")
    return s


def comps_of(shape):
    return list(itertools.product(*[range(d) for d in shape]))


def terminals_of(*exprs):
    out, seen = [], set()
    for e in exprs:
        for t in ufl.algorithms.analysis.extract_type(e, C.Terminal):
            if isinstance(t, (C.FormArgument, C.Constant, C.GeometricQuantity)) and t not in seen:
                seen.add(t)
                out.append(t)
    return out


def sorted_terminals(*exprs):
    ts = terminals_of(*exprs)
    return sorted(ts, key=lambda t: (type(t).__name__, getattr(t, "count", lambda: 0)()
                                     if not isinstance(t, C.Argument) else t.number(), repr(t)))


def variation_component(vexpr, c):
    """Scalar UFL expression (or None for zero) of component c of a variation expression built from
    Zero / form arguments / fixed-index components / list tensors."""
    e = vexpr
    c = tuple(c)
    while True:
        if isinstance(e, C.Zero):
            return None
        if isinstance(e, C.ListTensor):
            e, c = e.ufl_operands[c[0]], c[1:]
            continue
        break
    if c:
        return e[c]
    return e


class DCase(coqgen.Case):
    """A traced differentiation: `out` is what the implementation returned, `F` the differentiated
    expression, `variation` maps each terminal with a non-zero derivative to the UFL expression of
    its derivative (same shape as the terminal); every other terminal of F/out has derivative 0.
    `variation2` (optional) the same for the second derivation H (outer derivative).
    `prefix_rank` (C04): the obligation at component c uses component c[:prefix_rank] of F."""

    def __init__(self, name, F, out, variation, variation2=None, nonzero=(), note=None, comps=None,
                 prefix_rank=None, spatial=False, extra_terms=()):
        ctx = ufl2coq.Ctx()
        named = {"F": F}
        hyps = []
        terms = sorted_terminals(F, out, *variation.values(), *(variation2 or {}).values(), *extra_terms)
        for t in terms:
            ctx.term(t)
        self._n_named = 0

        def add_var(var, variation):
            for t in terms:
                kind, tid, _, _ = ctx.term(t)
                v = variation.get(t)
                if v is None:
                    hyps.append(f"forall s' c', {var} s' {kind} {tid} c' = z0")
                    continue
                assert v.ufl_shape == t.ufl_shape, (v.ufl_shape, t.ufl_shape)
                for c in comps_of(t.ufl_shape):
                    vc = variation_component(v, c) if isinstance(
                        v, (C.Zero, C.ListTensor, C.FormArgument, C.Indexed)) else v[c] if c else v
                    if vc is None:
                        rhs = "z0"
                    else:
                        nm = f"V{self._n_named}"
                        self._n_named += 1
                        named[nm] = vc
                        rhs = f"DEN s' rho {{{nm}}} []"
                    hyps.append(f"forall s', {var} s' {kind} {tid} {ufl2coq.natlist(c)} = {rhs}")

        add_var("varG", variation)
        if variation2 is not None:
            add_var("varH", variation2)
        nrw = len(hyps)
        for k, e in enumerate(nonzero):
            named[f"N{k}"] = e
            hyps.append(f"DEN s rho {{N{k}}} [] <> z0")
        inner = f"DEN s rho {name}_F " + ("{c}" if prefix_rank is None else f"(firstn {prefix_rank} {{c}})")
        spec = f"G ({inner})" if variation2 is None else f"H (G ({inner}))"
        super().__init__(name, out=out, spec=spec, hyps=hyps, comps=comps, note=note, ctx=ctx,
                         tactic=tactic(nrw, second=variation2 is not None, spatial=spatial), named=named)
        self.F = F
        self.variation = variation
        self.variation2 = variation2
        self.nonzero = list(nonzero)
        self.prefix_rank = prefix_rank


def definedness(F):
    """Closed scalar subexpressions that the differentiation laws divide by (the derivative of F
    exists only where these are non-zero); handed to `field` as hypotheses."""
    from ufl.algorithms import apply_algebra_lowering
    from ufl.corealg.traversal import unique_pre_traversal
    nz, seen = [], set()

    def add(e):
        if e.ufl_free_indices or e.ufl_shape != ():
            return
        if e not in seen:
            seen.add(e)
            nz.append(e)

    for o in unique_pre_traversal(apply_algebra_lowering.apply_algebra_lowering(F)):
        n = type(o).__name__
        ops = o.ufl_operands
        if n == "Division":
            add(ops[1])
        elif n == "Sqrt":
            add(o)
        elif n == "Ln":
            add(ops[0])
        elif n == "Tan":
            add(ufl.cos(2.0 * ops[0]) + 1.0)
        elif n == "Tanh":
            add(ufl.cosh(2.0 * ops[0]) + 1.0)
        elif n in ("Acos", "Asin"):
            add(ufl.sqrt(1.0 - ops[0] ** 2))
        elif n == "Atan":
            add(1.0 + ops[0] ** 2)
        elif n == "Atan2":
            add(ops[0] ** 2 + ops[1] ** 2)
    return nz


# ----------------------------------------------------------------------------------------------
# search oracle: jets with one extra variable tau

def gateaux_oracle(F, out, variation, trials=20, seed=0, nv=2, prefix_rank=None, deltas=None):
    """Independent definition of the derivative: evaluate F with every terminal T replaced by
    T + tau * variation(T) on jets with an extra variable tau (index nv), take d/dtau at tau = 0,
    compare with the evaluated `out`.  Returns a JSON-able witness of a mismatch or None."""
    import random

    import pyden

    rng = random.Random(seed)

    class PEnv(pyden.Env):
        def __init__(self, seed, perturb):
            super().__init__(nv=nv + 1, order=2, seed=seed)
            self.perturb = perturb
            self.tau = pyden.Jet.var(nv + 1, 2, nv, 0)

        def field(self, key, constant=False):
            if key in self.cache:
                return self.cache[key]
            j = super().field(key, constant)
            # fields do not depend on tau
            j = pyden.Jet(j.nv, j.order, {a: v for a, v in j.c.items() if a[nv] == 0})
            if not j.c.get((0,) * (nv + 1)):
                j.c[(0,) * (nv + 1)] = 1
            self.cache[key] = j
            return j

        def value(self, t, comp, side):
            base = super().value(t, comp, side)
            if not self.perturb:
                return base
            if deltas is not None and t in deltas:
                return base + self.tau * deltas[t](tuple(comp)) if deltas[t](tuple(comp)) else base
            v = variation.get(t)
            if v is None:
                return base
            vc = variation_component(v, comp) if isinstance(
                v, (C.Zero, C.ListTensor, C.FormArgument, C.Indexed)) else (v[tuple(comp)] if comp else v)
            if vc is None:
                return base
            return base + self.tau * pyden.evaluate(vc, self.plain, {}, (), side)

    comps = comps_of(out.ufl_shape)
    for t in range(trials):
        sd = rng.randrange(10 ** 9)
        e0, e1 = PEnv(sd, False), PEnv(sd, True)
        e1.plain = e0
        e1.cache = {}
        for rho in pyden.free_index_valuations(out, rng, 2):
            for c in comps:
                cf = c if prefix_rank is None else c[:prefix_rank]
                try:
                    # the perturbed environment must see the same base fields
                    e1.cache = e0.cache
                    a = pyden.evaluate(out, e0, rho, c)
                    b = pyden.evaluate(F, e1, rho, cf).diff(nv)
                except ZeroDivisionError:
                    continue
                except (pyden.Unsupported, ValueError, OverflowError, KeyError):
                    return None
                a0 = pyden.Jet(a.nv, 1, {k: v for k, v in a.c.items() if sum(k) <= 1 and k[nv] == 0})
                b0 = pyden.Jet(b.nv, 1, {k: v for k, v in b.c.items() if sum(k) <= 1 and k[nv] == 0})
                if not a0.close_to(b0, tol=1e-6):
                    return {"component": list(c), "free_index_values": {str(k): v for k, v in rho.items()},
                            "implementation_value": str(a0.value()), "true_derivative": str(b0.value()),
                            "terminal_values": {str(k): str(v.value()) for k, v in list(e0.cache.items())[:30]},
                            "trial": t}
    return None
