"""Shared machinery of the C02 (Gateaux derivative) and C04 (variable derivative) checks.

Specification side, in Coq (LAWS): a *derivation* G of the UFL algebra -- additive, Leibniz, quotient
rule, commuting with conj/re/im/conditionals and with the spatial derivations Dx j / DX j, with one
chain-rule law per function symbol -- whose action on terminals is given per case
(G(env s k id c) = varG s k id c and the case hypotheses say what varG is: the direction v for the
differentiation coefficient, 0 for every other terminal, df.v for user relations, a Kronecker delta
for variable derivatives).  Obligation of a case, for every component c:

    den(expand_derivatives(derivative(F, w, v))) c  =  G (den F c)          for all field values,

proved by rewriting G through den F with the laws (Ltac gpush), then ring / field.  A second
derivation H (for derivatives of derivatives) is available.
"""

import itertools
import math
from fractions import Fraction

import ufl
import ufl.classes as C

import coqgen
import ufl2coq

LAWS = r'''
(* ------------------------------------------------------------------------------------------ *)
(* C02 / C04: what "derivative" means.  A Gateaux / partial derivative is a derivation of the
   algebra obeying the chain rule for every function symbol and commuting with d/dx_j.        *)
Definition lit2 : KT := @of_Z A 2.                        (* the literal 2   *)
Definition lit2f : KT := div (@of_Z A 2) (@of_pos A 1).    (* the literal 2.0 *)
Definition lit1f : KT := div (@of_Z A 1) (@of_pos A 1).    (* the literal 1.0 *)
Definition lithalf : KT := div (@of_Z A 1) (@of_pos A 2).  (* the literal 0.5 *)
Definition lit2rpi : KT := @kdyad A (@@M@@) (@@E@@).   (* the binary64 literal 2.0 / sqrt(pi) *)
Definition sgn (x : KT) : KT := cond_ (cmp CEQ x z0) z0 (cond_ (cmp CLT x z0) (opp z1) z1).
Definition sq (x : KT) : KT := mul x x.

Record deriv_laws (G : KT -> KT) : Prop := {
  g_der  : @Derivation A G;
  g_Dx   : forall j x, G (Dx j x) = Dx j (G x);
  g_DX   : forall j x, G (DX j x) = DX j (G x);
  g_abs  : forall x, G (abs x) = mul (sgn (re x)) (G x);
  g_pow  : forall x y, G (pow x y) =
             mul (pow x (sub y z1)) (add (mul y (G x)) (mul (mul x (fn FLn x)) (G y)));
  g_sqrt : forall x, G (fn FSqrt x) = div (G x) (mul lit2 (fn FSqrt x));
  g_exp  : forall x, G (fn FExp x) = mul (G x) (fn FExp x);
  g_ln   : forall x, G (fn FLn x) = div (G x) x;
  g_cos  : forall x, G (fn FCos x) = mul (G x) (opp (fn FSin x));
  g_sin  : forall x, G (fn FSin x) = mul (G x) (fn FCos x);
  g_tan  : forall x, G (fn FTan x) = mul (G x) (add z1 (sq (fn FTan x)));
  g_cosh : forall x, G (fn FCosh x) = mul (G x) (fn FSinh x);
  g_sinh : forall x, G (fn FSinh x) = mul (G x) (fn FCosh x);
  g_tanh : forall x, G (fn FTanh x) = mul (G x) (sub z1 (sq (fn FTanh x)));
  g_acos : forall x, G (fn FAcos x) = div (opp (G x)) (fn FSqrt (sub lit1f (sq x)));
  g_asin : forall x, G (fn FAsin x) = div (G x) (fn FSqrt (sub lit1f (sq x)));
  g_atan : forall x, G (fn FAtan x) = div (G x) (add lit1f (sq x));
  g_erf  : forall x, G (fn FErf x) =
             mul (G x) (mul lit2rpi (fn FExp (opp (sq x))));
  g_atan2 : forall x y, G (atan2 x y) = div (sub (mul y (G x)) (mul x (G y))) (add (sq x) (sq y));
  g_max  : forall x y, G (max_ x y) = cond_ (cmp CGT x y) (G x) (G y);
  g_min  : forall x y, G (min_ x y) = cond_ (cmp CLT x y) (G x) (G y);
  g_bj   : forall n x, G (bessel BJ n x) =
             mul (mul lithalf (sub (bessel BJ (sub n z1) x) (bessel BJ (add n z1) x))) (G x);
  g_by   : forall n x, G (bessel BY n x) =
             mul (mul lithalf (sub (bessel BY (sub n z1) x) (bessel BY (add n z1) x))) (G x);
  g_bi   : forall n x, G (bessel BI n x) =
             mul (mul lithalf (add (bessel BI (sub n z1) x) (bessel BI (add n z1) x))) (G x);
  g_bk   : forall n x, G (bessel BK n x) =
             mul (mul (opp lithalf) (add (bessel BK (sub n z1) x) (bessel BK (add n z1) x))) (G x);
}.

(* identities of the function symbols used by UFL's way of writing tan', tanh', max', min' and the
   order-0 Bessel rules (true for the real/complex functions; hypotheses on the algebra) *)
Hypothesis tan_id : forall x, div lit2f (add (fn FCos (mul lit2f x)) lit1f) = add z1 (sq (fn FTan x)).
Hypothesis tanh_id : forall x,
  sq (div (mul lit2f (fn FCosh x)) (add (fn FCosh (mul lit2f x)) lit1f)) = sub z1 (sq (fn FTanh x)).
Hypothesis cond_sel : forall b x y,
  cond_ b x y = add (mul (cond_ b z1 z0) x) (mul (sub lit1f (cond_ b z1 z0)) y).
Hypothesis conj_zero : conj z0 = z0.
Hypothesis conj_one : conj z1 = z1.
Hypothesis conj_add : forall x y, conj (add x y) = add (conj x) (conj y).
Hypothesis conj_mul : forall x y, conj (mul x y) = mul (conj x) (conj y).
Hypothesis conj_opp : forall x, conj (opp x) = opp (conj x).
Hypothesis conj_sub : forall x y, conj (sub x y) = sub (conj x) (conj y).
Hypothesis re_zero : re z0 = z0.
Hypothesis im_zero : im z0 = z0.
Hypothesis bj_refl : forall x, bessel BJ (sub z0 z1) x = opp (bessel BJ (add z0 z1) x).
Hypothesis by_refl : forall x, bessel BY (sub z0 z1) x = opp (bessel BY (add z0 z1) x).
Hypothesis bi_refl : forall x, bessel BI (sub z0 z1) x = bessel BI (add z0 z1) x.
Hypothesis bk_refl : forall x, bessel BK (sub z0 z1) x = bessel BK (add z0 z1) x.

Variables G H : KT -> KT.
Hypothesis GL : deriv_laws G.
Hypothesis HL : deriv_laws H.
(* action on terminals: named so that each case can say what it is *)
Variables varG varH : side -> nat -> nat -> list nat -> KT.
Hypothesis G_env : forall s k i c, G (env s k i c) = varG s k i c.
Hypothesis H_env : forall s k i c, H (env s k i c) = varH s k i c.
Hypothesis DxD : forall j, @Derivation A (Dx j).

Section Lemmas.
Variable d : KT -> KT.
Hypothesis L : deriv_laws d.
Lemma l_add x y : d (add x y) = add (d x) (d y). Proof. exact (@d_add A d (g_der d L) x y). Qed.
Lemma l_mul x y : d (mul x y) = add (mul (d x) y) (mul x (d y)). Proof. exact (@d_mul A d (g_der d L) x y). Qed.
Lemma l_div x y : d (div x y) = div (sub (d x) (mul (div x y) (d y))) y. Proof. exact (@d_div A d (g_der d L) x y). Qed.
Lemma l_conj x : d (conj x) = conj (d x). Proof. exact (@d_conj A d (g_der d L) x). Qed.
Lemma l_re x : d (re x) = re (d x). Proof. exact (@d_re A d (g_der d L) x). Qed.
Lemma l_im x : d (im x) = im (d x). Proof. exact (@d_im A d (g_der d L) x). Qed.
Lemma l_cond b x y : d (cond_ b x y) = cond_ b (d x) (d y). Proof. exact (@d_cond A d (g_der d L) b x y). Qed.
Lemma l_zero : d z0 = z0. Proof. exact (@d_zero A d (g_der d L)). Qed.
Lemma l_one : d z1 = z0. Proof. exact (@d_one A d (g_der d L)). Qed.
Lemma l_opp x : d (opp x) = opp (d x). Proof. exact (@d_opp A d x (g_der d L)). Qed.
Lemma l_sub x y : d (sub x y) = sub (d x) (d y). Proof. exact (@d_sub A d x y (g_der d L)). Qed.
End Lemmas.
Lemma Dx_zero j : Dx j z0 = z0. Proof. exact (@d_zero A (Dx j) (DxD j)). Qed.
Lemma Dx_one j : Dx j z1 = z0. Proof. exact (@d_one A (Dx j) (DxD j)). Qed.
Lemma Dx_add j x y : Dx j (add x y) = add (Dx j x) (Dx j y). Proof. exact (@d_add A (Dx j) (DxD j) x y). Qed.
Lemma Dx_mul j x y : Dx j (mul x y) = add (mul (Dx j x) y) (mul x (Dx j y)). Proof. exact (@d_mul A (Dx j) (DxD j) x y). Qed.
Lemma Dx_opp j x : Dx j (opp x) = opp (Dx j x). Proof. exact (@d_opp A (Dx j) x (DxD j)). Qed.
Lemma Dx_sub j x y : Dx j (sub x y) = sub (Dx j x) (Dx j y). Proof. exact (@d_sub A (Dx j) x y (DxD j)). Qed.

Ltac gpush d L :=
  repeat progress rewrite
    ?(l_add d L), ?(l_mul d L), ?(l_div d L), ?(l_sub d L), ?(l_opp d L), ?(l_zero d L), ?(l_one d L),
    ?(l_conj d L), ?(l_re d L), ?(l_im d L), ?(l_cond d L), ?(g_Dx d L), ?(g_DX d L),
    ?(g_abs d L), ?(g_pow d L), ?(g_sqrt d L), ?(g_exp d L), ?(g_ln d L), ?(g_cos d L), ?(g_sin d L),
    ?(g_tan d L), ?(g_cosh d L), ?(g_sinh d L), ?(g_tanh d L), ?(g_acos d L), ?(g_asin d L),
    ?(g_atan d L), ?(g_erf d L), ?(g_atan2 d L), ?(g_max d L), ?(g_min d L),
    ?(g_bj d L), ?(g_by d L), ?(g_bi d L), ?(g_bk d L), ?G_env, ?H_env.
Ltac cpush := repeat progress rewrite ?conj_zero, ?conj_one, ?conj_add, ?conj_mul, ?conj_opp, ?conj_sub, ?Dx_zero.
Ltac zeros := repeat progress rewrite ?conj_zero, ?re_zero, ?im_zero, ?Dx_zero.
Ltac dxpush := repeat progress rewrite ?conj_zero, ?re_zero, ?im_zero, ?Dx_zero, ?Dx_one, ?Dx_add, ?Dx_mul, ?Dx_opp, ?Dx_sub.
Ltac nz_hyp_field :=
  match goal with
  | Hn : ?Y <> ?z |- ?X <> ?z =>
      let E := fresh "E" in
      intro E; apply Hn;
      (transitivity X; [ first [ ring | field; repeat match goal with |- _ /\ _ => split end; nz_char0 char0 ]
                       | exact E ])
  end.
Ltac nz_factor :=       (* X is a factor of a hypothesis Y <> 0 *)
  match goal with
  | Hn : ?Y <> ?z |- ?X <> ?z =>
      let E := fresh "E" in
      intro E; apply Hn; rewrite E; ring
  end.
Ltac nz_fn :=           (* fn f X <> 0 from fn f Y <> 0 with X = Y *)
  match goal with
  | Hn : fn ?f ?Y <> ?z |- fn ?f ?X <> ?z =>
      replace X with Y; [ exact Hn | first [ ring | field; repeat match goal with |- _ /\ _ => split end; nz_char0 char0 ] ]
  end.
Ltac nz_scaled_p p :=   (* X = p * Y for a hypothesis Y <> 0 and a small numeral p *)
  match goal with
  | Hn : ?Y <> ?z |- ?X <> ?z =>
      let d := eval vm_compute in (@of_pos A p) in
      let E := fresh "E" in
      intro E; apply Hn;
      (transitivity (div X d);
       [ field; repeat match goal with |- _ /\ _ => split end; nz_char0 char0
       | rewrite E; field; repeat match goal with |- _ /\ _ => split end; nz_char0 char0 ])
  end.
Ltac nz_scaled := first [ nz_scaled_p 2%positive | nz_scaled_p 3%positive | nz_scaled_p 4%positive
                        | nz_scaled_p 6%positive ].
Ltac nzs :=
  repeat match goal with |- _ /\ _ => split end;
  first [ assumption | nz_from_hyps | nz_char0 char0 | nz_hyp_field | nz_fn | nz_factor | nz_scaled ].
Ltac pow_unify :=
  match goal with
  | |- context [pow ?X ?Y] =>
      match goal with
      | |- context [pow ?X' ?Y'] =>
          lazymatch constr:((X, Y)) with (X', Y') => fail | _ => idtac end;
          replace (pow X Y) with (pow X' Y') by (f_equal; first [ ring | field; nzs ])
      end
  | |- context [bessel ?k ?X ?Y] =>
      match goal with
      | |- context [bessel k ?X' ?Y'] =>
          lazymatch constr:((X, Y)) with (X', Y') => fail | _ => idtac end;
          replace (bessel k X Y) with (bessel k X' Y') by (f_equal; first [ ring | field; nzs ])
      end
  | |- context [atan2 ?X ?Y] =>
      match goal with
      | |- context [atan2 ?X' ?Y'] =>
          lazymatch constr:((X, Y)) with (X', Y') => fail | _ => idtac end;
          replace (atan2 X Y) with (atan2 X' Y') by (f_equal; first [ ring | field; nzs ])
      end
  | |- context [re ?X] =>
      match goal with
      | |- context [re ?Y] =>
          lazymatch X with Y => fail | _ => idtac end;
          replace (re X) with (re Y) by (f_equal; first [ ring | field; nzs ])
      end
  | |- context [im ?X] =>
      match goal with
      | |- context [im ?Y] =>
          lazymatch X with Y => fail | _ => idtac end;
          replace (im X) with (im Y) by (f_equal; first [ ring | field; nzs ])
      end
  | |- context [cond_ ?b ?X ?Y] =>
      match goal with
      | |- context [cond_ b ?X' ?Y'] =>
          lazymatch constr:((X, Y)) with (X', Y') => fail | _ => idtac end;
          replace (cond_ b X Y) with (cond_ b X' Y') by (f_equal; first [ ring | rewrite ?(Fdiv_def Fth); ring | field; nzs ])
      end
  | |- context [cmp ?o ?X ?Y] =>
      match goal with
      | |- context [cmp o ?X' ?Y'] =>
          lazymatch constr:((X, Y)) with (X', Y') => fail | _ => idtac end;
          replace (cmp o X Y) with (cmp o X' Y') by (f_equal; first [ ring | field; nzs ])
      end
  end.
Ltac fin0 := first [ reflexivity | ring | rewrite ?(Fdiv_def Fth); ring | field; nzs ].
Ltac fin := first [ fin0 | repeat unify1; fin0 | repeat first [ unify1 | pow_unify ]; fin0 ].
(* identities are used right-to-left on the specification side, one at a time, only if needed *)
Ltac ids :=
  repeat first [ rewrite <- tan_id | rewrite <- tanh_id ];
  rewrite ?bj_refl, ?by_refl, ?bi_refl, ?bk_refl.
Ltac condsel :=
  repeat match goal with
  | |- context [cond_ ?b ?x ?y] =>
      lazymatch x with z1 => fail | _ => idtac end;
      rewrite (cond_sel b x y)
  end.
'''


_M, _E = ufl2coq.dyadic(2.0 / math.sqrt(math.pi))
LAWS = LAWS.replace('@@M@@', str(_M)).replace('@@E@@', str(_E))


def tactic(nhyps, second=False, spatial=False):
    """Proof script of one obligation: normalise, push G (then H) through the specification side,
    use the case's hypotheses on terminals, normalise again, close."""
    hy = ", ".join(f"?H{k}" for k in range(nhyps))
    rw = f"repeat progress rewrite {hy}; " if nhyps else ""
    s = "norm_goal; gpush G GL; " + rw
    if second:
        s += "norm_goal; gpush H HL; " + rw
    if spatial:
        s += "dxpush; "
    s += "zeros; "
    s += ("first [ norm_goal; fin0 | ids; dxpush; norm_goal; condsel; norm_goal; cpush; fin0 "
          "| norm_goal; fin | ids; norm_goal; fin | dxpush; norm_goal; fin "
          "| ids; condsel; norm_goal; fin | ids; dxpush; norm_goal; fin | norm_goal; cpush; fin "
          "| dxpush; norm_goal; cpush; fin | ids; norm_goal; condsel; norm_goal; fin "
          "| ids; dxpush; norm_goal; condsel; norm_goal; cpush; fin ]")
    return s


def comps_of(shape):
    return list(itertools.product(*[range(d) for d in shape]))


def terminals_of(*exprs):
    out, seen = [], set()
    for e in exprs:
        for t in ufl.algorithms.analysis.extract_type(e, C.Terminal):
            if isinstance(t, (C.FormArgument, C.Constant, C.GeometricQuantity)) and t not in seen:
                seen.add(t)
                out.append(t)
    return out


def sorted_terminals(*exprs):
    ts = terminals_of(*exprs)
    return sorted(ts, key=lambda t: (type(t).__name__, getattr(t, "count", lambda: 0)()
                                     if not isinstance(t, C.Argument) else t.number(), repr(t)))


def variation_component(vexpr, c):
    """Scalar UFL expression (or None for zero) of component c of a variation expression built from
    Zero / form arguments / fixed-index components / list tensors."""
    e = vexpr
    c = tuple(c)
    while True:
        if isinstance(e, C.Zero):
            return None
        if isinstance(e, C.ListTensor):
            e, c = e.ufl_operands[c[0]], c[1:]
            continue
        break
    if c:
        return e[c]
    return e


class DCase(coqgen.Case):
    """A traced differentiation: `out` is what the implementation returned, `F` the differentiated
    expression, `variation` maps each terminal with a non-zero derivative to the UFL expression of
    its derivative (same shape as the terminal); every other terminal of F/out has derivative 0.
    `variation2` (optional) the same for the second derivation H (outer derivative).
    `prefix_rank` (C04): the obligation at component c uses component c[:prefix_rank] of F."""

    def __init__(self, name, F, out, variation, variation2=None, nonzero=(), note=None, comps=None,
                 prefix_rank=None, spatial=False, extra_terms=(), part2=None):
        ctx = ufl2coq.Ctx()
        named = {"F": F}
        hyps = []
        if part2 is not None:
            # out = expansion of (derivative node 1) + / * (derivative node 2): G is the derivation of
            # node 1 (variation), H the one of node 2 (part2[1]); spec = G(den F) (+|*) H(den F2)
            assert variation2 is None
            variation2 = part2[1]
            named["F2"] = part2[0]
            extra_terms = tuple(extra_terms) + (part2[0],)
        terms = sorted_terminals(F, out, *variation.values(), *(variation2 or {}).values(), *extra_terms)
        for t in terms:
            ctx.term(t)
        self._n_named = 0

        def add_var(var, variation):
            for t in terms:
                kind, tid, _, _ = ctx.term(t)
                v = variation.get(t)
                if v is None:
                    hyps.append(f"forall s' c', {var} s' {kind} {tid} c' = z0")
                    continue
                assert v.ufl_shape == t.ufl_shape, (v.ufl_shape, t.ufl_shape)
                for c in comps_of(t.ufl_shape):
                    vc = variation_component(v, c) if isinstance(
                        v, (C.Zero, C.ListTensor, C.FormArgument, C.Indexed)) else v[c] if c else v
                    if vc is None:
                        rhs = "z0"
                    else:
                        nm = f"V{self._n_named}"
                        self._n_named += 1
                        named[nm] = vc
                        rhs = f"DEN s' rho {{{nm}}} []"
                    hyps.append(f"forall s', {var} s' {kind} {tid} {ufl2coq.natlist(c)} = {rhs}")

        add_var("varG", variation)
        if variation2 is not None:
            add_var("varH", variation2)
        nrw = len(hyps)
        for k, e in enumerate(nonzero):
            named[f"N{k}"] = e
            hyps.append(f"DEN s rho {{N{k}}} [] <> z0")
        inner = f"DEN s rho {name}_F " + ("{c}" if prefix_rank is None else f"(firstn {prefix_rank} {{c}})")
        spec = f"G ({inner})" if variation2 is None else f"H (G ({inner}))"
        if part2 is not None:
            op = "add" if part2[2] == "sum" else "mul"
            spec = f"{op} (G ({inner})) (H (DEN s rho {name}_F2 {{c}}))"
        super().__init__(name, out=out, spec=spec, hyps=hyps, comps=comps, note=note, ctx=ctx,
                         tactic=tactic(nrw, second=variation2 is not None, spatial=spatial), named=named)
        self.F = F
        self.nrw = nrw
        self.variation = variation
        self.variation2 = variation2
        self.nonzero = list(nonzero)
        self.prefix_rank = prefix_rank
        self.extra_examples = []      # extra Gallina text appended after the definitions

    def emit(self):
        """As coqgen.Case.emit, but the shared-subterm definitions are printed after *all*
        expressions (out, F, named) have been serialised."""
        ser = ufl2coq.Ser(self.ctx, prefix=f"{self.name}_n")
        t_out = ser.expr(self.out)
        nm = {k: ser.expr(v) for k, v in self.named.items()}
        txt = [f"(* case {self.name}: {self.note} *)\n", ser.definitions_text()]
        txt.append(f"Definition {self.name}_out : expr := {t_out}.\n")
        for k, v in nm.items():
            txt.append(f"Definition {self.name}_{k} : expr := {v}.\n")
        sh = ufl2coq.natlist(self.out.ufl_shape)
        self.lemmas = []
        txt.append(f"Example {self.name}_shape : shape {self.name}_out = {sh}. Proof. reflexivity. Qed.\n")
        self.lemmas.append(f"{self.name}_shape")
        fi = sorted((self.ctx.index(i), d) for i, d in
                    zip(self.out.ufl_free_indices, self.out.ufl_index_dimensions))
        fit = "[" + "; ".join(f"({i}, {d})" for i, d in fi) + "]"
        txt.append(f"Example {self.name}_fidx : fidx {self.name}_out = {fit}. Proof. reflexivity. Qed.\n")
        self.lemmas.append(f"{self.name}_fidx")
        for ename, etxt in self.extra_examples:
            txt.append(etxt)
            self.lemmas.append(ename)
        hyps = "".join("(" + h.format(**{k: f"{self.name}_{k}" for k in nm}) + ") -> " for h in self.hyps)
        nh = len(self.hyps)
        names = " ".join(f"H{k}" for k in range(nh))
        intro = f"intros {names}; " + "".join(f"try norm_hyp H{k}; " for k in range(self.nrw, nh)) if nh else ""
        for c in self.components():
            cn = "_".join(map(str, c))
            rhs = self.spec.replace("{c}", ufl2coq.natlist(c))
            ln = f"{self.name}_c{cn}"
            txt.append(f"Lemma {ln} s rho : {hyps}DEN s rho {self.name}_out {ufl2coq.natlist(c)} = {rhs}.\n"
                       f"Proof. {intro}{self.tactic}. Qed.\n")
            self.lemmas.append(ln)
        return "".join(txt)


def definedness(F):
    """Closed scalar subexpressions that the differentiation laws divide by (the derivative of F
    exists only where these are non-zero); handed to `field` as hypotheses."""
    from ufl.algorithms import apply_algebra_lowering
    from ufl.corealg.traversal import unique_pre_traversal
    nz, seen = [], set()

    def add(e):
        if e.ufl_free_indices or e.ufl_shape != ():
            return
        if e not in seen:
            seen.add(e)
            nz.append(e)

    for o in unique_pre_traversal(apply_algebra_lowering.apply_algebra_lowering(F)):
        n = type(o).__name__
        ops = o.ufl_operands
        if n == "Division":
            add(ops[1])
        elif n == "Sqrt":
            add(o)
        elif n == "Ln":
            add(ops[0])
        elif n == "Tan":
            add(ufl.cos(2.0 * ops[0]) + 1.0)
        elif n == "Tanh":
            add(ufl.cosh(2.0 * ops[0]) + 1.0)
        elif n in ("Acos", "Asin"):
            add(ufl.sqrt(1.0 - ops[0] ** 2))
        elif n == "Atan":
            add(1.0 + ops[0] ** 2)
        elif n == "Atan2":
            add(ops[0] ** 2 + ops[1] ** 2)
    return nz


# ----------------------------------------------------------------------------------------------
# search oracle: jets with one extra variable tau

def _var_comp(v, comp):
    """value description of component comp of a variation: None (zero), a number, or a scalar Expr"""
    if not isinstance(v, C.Expr) and callable(v):
        x = v(tuple(comp))
        return None if not x else x
    if isinstance(v, (C.Zero, C.ListTensor, C.FormArgument, C.Indexed)):
        return variation_component(v, comp)
    return v[tuple(comp)] if comp else v


_COMPLEX_UNSAFE = ("Abs", "Conditional", "MinValue", "MaxValue", "Sqrt", "Ln", "Power", "Atan2", "Acos", "Asin",
                   "Atan", "Erf", "Tan", "Tanh", "Sin", "Cos", "Exp", "Sinh", "Cosh", "BesselJ", "BesselY",
                   "BesselI", "BesselK")


def _install_complex_eval():
    """Let pyden evaluate Conj/Real/Imag on jets with complex coefficients when the environment asks
    for it (env.complex_mode); the real-mode behaviour of pyden is unchanged."""
    import pyden
    if getattr(pyden, "_c02_complex_installed", False):
        return
    orig = pyden._ev1

    def cmap(j, fn):
        c = {a: fn(v) for a, v in j.c.items()}
        return pyden.Jet(j.nv, j.order, {a: v for a, v in c.items() if v != 0})

    def ev1(e, env, rho, c, side, memo):
        n = type(e).__name__
        if getattr(env, "complex_mode", False) and n in ("Conj", "Real", "Imag"):
            a = pyden._ev(e.ufl_operands[0], env, rho, tuple(c), side, memo)
            if n == "Conj":
                return cmap(a, lambda v: complex(v).conjugate())
            if n == "Real":
                return cmap(a, lambda v: complex(v).real)
            return cmap(a, lambda v: complex(v).imag)
        return orig(e, env, rho, c, side, memo)

    pyden._ev1 = ev1
    pyden._c02_complex_installed = True


def _complex_safe(*exprs):
    from ufl.corealg.traversal import unique_pre_traversal
    for e in exprs:
        for o in unique_pre_traversal(e):
            if type(o).__name__ in _COMPLEX_UNSAFE:
                return False
    return True


def derivative_oracle(F, out, variation, trials=20, seed=0, nv=2, prefix_rank=None, variation2=None,
                      part2=None):
    """Independent definition of the derivative: evaluate F with every terminal T replaced by
    T + tau * variation(T) on jets with an extra variable tau, take d/dtau at tau = 0 (twice, with
    a second variable, for `variation2`), compare with the evaluated `out`.
    `part2 = (F2, variation_of_part_2, "sum" | "prod")`: `out` is the expansion of an expression with
    two derivative nodes; the true value is dF (+ or *) dF2, each with its own variation.
    Returns a JSON-able witness of a mismatch, or None."""
    import random

    import pyden

    rng = random.Random(seed)
    ntau = 1 if variation2 is None else 2
    NV = nv + ntau
    ORDER = 3 + ntau - 1

    class PEnv(pyden.Env):
        def __init__(self, seed, positive=False):
            super().__init__(nv=NV, order=ORDER, seed=seed, positive=positive)
            self.perturb = False
            self.complex_mode = False
            self.active = list(enumerate([variation] + ([variation2] if variation2 is not None else [])))

        def field(self, key, constant=False):
            if key in self.cache:
                return self.cache[key]
            j = super().field(key, constant)
            c = {a: v for a, v in j.c.items() if all(x == 0 for x in a[nv:])}
            if not c.get((0,) * NV):
                c[(0,) * NV] = 1
            if self.complex_mode:
                c = {a: complex(float(v), self.rng.randint(-4, 4) / 2.0) for a, v in c.items()}
            j = pyden.Jet(NV, ORDER, c)
            self.cache[key] = j
            return j

        def value(self, t, comp, side):
            base = super().value(t, comp, side)
            if not self.perturb:
                return base
            for k, var in self.active:
                v = var.get(t)
                if v is None:
                    continue
                vc = _var_comp(v, comp)
                if vc is None:
                    continue
                tau = pyden.Jet.var(NV, ORDER, nv + k, 0)
                if isinstance(vc, C.Expr):
                    self.perturb = False
                    try:
                        val = pyden.evaluate(vc, self, {}, (), side)
                    finally:
                        self.perturb = True
                else:
                    val = vc
                base = base + tau * val
            return base

    from ufl.algorithms.apply_algebra_lowering import apply_algebra_lowering
    F = apply_algebra_lowering(F)          # inner/outer: make the conjugations explicit
    F2 = apply_algebra_lowering(part2[0]) if part2 is not None else None
    use_complex = _complex_safe(F, out) and (F2 is None or _complex_safe(F2))
    if use_complex:
        _install_complex_eval()
    comps = comps_of(out.ufl_shape)
    for t in range(trials):
        env = PEnv(rng.randrange(10 ** 9), positive=(t % 2 == 1))
        env.complex_mode = use_complex and t >= trials // 2
        for rho in pyden.free_index_valuations(out, rng, 2):
            for c in comps:
                cf = c if prefix_rank is None else c[:prefix_rank]
                try:
                    env.perturb = False
                    a = pyden.evaluate(out, env, rho, c)
                    env.perturb = True
                    b = pyden.evaluate(F, env, rho, cf)
                    for k in range(ntau):
                        b = b.diff(nv + k)
                    if part2 is not None:
                        keep = env.active
                        env.active = [(0, part2[1])]
                        try:
                            b2 = pyden.evaluate(F2, env, rho, cf).diff(nv)
                        finally:
                            env.active = keep
                        b = b + b2 if part2[2] == "sum" else b * b2
                    env.perturb = False
                except (ZeroDivisionError, ValueError, OverflowError):
                    env.perturb = False
                    continue
                except (pyden.Unsupported, KeyError, TypeError):
                    return None
                z = (0,) * NV
                av, bv = a.c.get(z, 0), b.c.get(z, 0)
                ok = (av == bv) if isinstance(av, (int, Fraction)) and isinstance(bv, (int, Fraction)) \
                    else abs(complex(av) - complex(bv)) <= 1e-6 * (1 + abs(complex(av)) + abs(complex(bv)))
                if not ok:
                    return {"component": list(c), "free_index_values": {str(k): v for k, v in rho.items()},
                            "implementation_value": str(av), "true_derivative": str(bv),
                            "terminal_values": {str(k): str(v.value()) for k, v in list(env.cache.items())[:30]},
                            "trial": t}
    return None
