"""C16 machinery: serializer-level substitution of Arguments, linear-combination obligations over
several integrands (coqgen-compatible Case), an exact complex-rational evaluator used as the search
oracle, and the form zoo on which the real lhs/rhs/system/functional/action/adjoint/energy_norm
are traced."""

import itertools
import random
from fractions import Fraction

import ufl
import ufl.classes as C
from ufl.core.multiindex import FixedIndex, Index

import coqgen
import ufl2coq
import uflgen
from elements import LagrangeElement, MixedElement


# ----------------------------------------------------------------------------------------------
# serializer with substitution of Arguments ("e|u=0", "e[u:=f]", "e with v,u swapped")

class SubSer(ufl2coq.Ser):
    """Ser that replaces selected Arguments while serialising: subst maps Ctx.term_key(argument) to
    None (-> Zero of the argument's shape) or to a terminal of the same shape (one step, not
    re-substituted)."""

    def __init__(self, ctx, prefix, subst=None):
        super().__init__(ctx, prefix=prefix)
        self.subst = subst or {}

    def _node(self, e):
        if isinstance(e, C.Argument):
            key = ufl2coq.Ctx.term_key(e)
            if key in self.subst:
                r = self.subst[key]
                if r is None:
                    return f"(Zero {ufl2coq.natlist(e.ufl_shape)} [])"
                if tuple(r.ufl_shape) != tuple(e.ufl_shape):
                    raise ufl2coq.Unsupported("substitution changes the shape")
                kind, tid, sh, _ = self.ctx.term(r)
                return f"(Term {kind} {tid} {ufl2coq.natlist(sh)})"
        return super()._node(e)


def gsum(terms):
    """Gallina text of a signed sum: terms = [(sign, text)]"""
    acc = None
    for sg, t in terms:
        if acc is None:
            acc = t if sg > 0 else f"(opp {t})"
        else:
            acc = f"({'add' if sg > 0 else 'sub'} {acc} {t})"
    return acc or "z0"


class LinCase:
    """Obligation  sum_i s_i [conj] den(item_i) = sum_j s_j [conj] den(item_j)  over integrands
    (scalar, no free indices), each item serialised under its own Argument substitution.
    Duck-typed for coqgen.emit_and_check (name, lemmas, emit, note)."""

    def __init__(self, name, items, lhs, rhs, hyps=(), tactic="close", note=None, ctx=None, nz=()):
        self.name = name
        self.items = items          # label -> (expr, subst dict)
        self.lhs, self.rhs = lhs, rhs   # [(sign, label, conj?)]
        self.hyps = list(hyps)
        self.nz = list(nz)          # argument-free scalar expressions assumed non-zero (denominators)
        self.tactic = tactic
        self.note = note or {}
        self.ctx = ctx or ufl2coq.Ctx()
        self.lemmas = []

    def _side(self, terms):
        out = []
        for sg, lab, cj in terms:
            t = f"(DEN s rho {self.name}_{lab} [])"
            if cj:
                t = f"(conj {t})"
            out.append((sg, t))
        return gsum(out)

    def emit(self):
        txt = [f"(* case {self.name}: {self.note} *)\n"]
        self.lemmas = []
        for k, (lab, (e, subst)) in enumerate(self.items.items()):
            if e.ufl_shape != () or e.ufl_free_indices != ():
                raise ufl2coq.Unsupported("integrand is not a scalar without free indices")
            ser = SubSer(self.ctx, f"{self.name}_{lab}_n", subst)
            t = ser.expr(e)
            txt.append(ser.definitions_text())
            txt.append(f"Definition {self.name}_{lab} : expr := {t}.\n")
            txt.append(f"Example {self.name}_{lab}_shape : shape {self.name}_{lab} = []. "
                       f"Proof. reflexivity. Qed.\n")
            self.lemmas.append(f"{self.name}_{lab}_shape")
        hy = []
        for k, d in enumerate(self.nz):
            ser = SubSer(self.ctx, f"{self.name}_nz{k}_n", {})
            t = ser.expr(d)
            txt.append(ser.definitions_text())
            txt.append(f"Definition {self.name}_nz{k} : expr := {t}.\n")
            hy.append(f"DEN s rho {self.name}_nz{k} [] <> z0")
        hy += self.hyps
        hyps = "".join(f"({h}) -> " for h in hy)
        intro = ""
        if hy:
            names = " ".join(f"H{k}" for k in range(len(hy)))
            intro = f"intros {names}; " + "".join(f"try norm_hyp H{k}; " for k in range(len(hy)))
        ln = f"{self.name}_eq"
        txt.append(f"Lemma {ln} s rho : {hyps}{self._side(self.lhs)} = {self._side(self.rhs)}.\n"
                   f"Proof. {intro}{self.tactic}. Qed.\n")
        self.lemmas.append(ln)
        return "".join(txt)


# extra hypotheses of the generated obligations: the laws of 0 under the unary symbols (needed
# because "e|u=0" puts a literal 0 under grad/conj/re/im) and conj as an involutive morphism
# (adjoint; Conj(Conj x) -> x in the constructor).
EXTRA_HEADER = r'''
Hypothesis Dx_zero : forall j, Dx j z0 = z0.
Hypothesis DX_zero : forall j, DX j z0 = z0.
Hypothesis Dx_add : forall j x y, Dx j (add x y) = add (Dx j x) (Dx j y).
Hypothesis Dx_mul : forall j x y, Dx j (mul x y) = add (mul (Dx j x) y) (mul x (Dx j y)).
Hypothesis conj_zero : conj z0 = z0.
Hypothesis conj_one : conj z1 = z1.
Hypothesis conj_add : forall x y, conj (add x y) = add (conj x) (conj y).
Hypothesis conj_mul : forall x y, conj (mul x y) = mul (conj x) (conj y).
Hypothesis conj_sub : forall x y, conj (sub x y) = sub (conj x) (conj y).
Hypothesis conj_opp : forall x, conj (opp x) = opp (conj x).
Hypothesis conj_div : forall x y, conj (div x y) = div (conj x) (conj y).
Hypothesis conj_invol : forall x, conj (conj x) = x.
Hypothesis re_zero : re z0 = z0.
Hypothesis im_zero : im z0 = z0.
Hypothesis re_add : forall x y, re (add x y) = add (re x) (re y).
Hypothesis im_add : forall x y, im (add x y) = add (im x) (im y).
Ltac simp0 :=
  match goal with
  | |- context [mul z0 ?x] => replace (mul z0 x) with z0 by ring
  | |- context [mul ?x z0] => replace (mul x z0) with z0 by ring
  | |- context [add z0 ?x] => replace (add z0 x) with x by ring
  | |- context [add ?x z0] => replace (add x z0) with x by ring
  | |- context [opp z0] => replace (opp z0) with z0 by ring
  end.
Ltac zero_laws :=
  repeat first [ simp0 | rewrite Dx_zero | rewrite DX_zero | rewrite conj_zero | rewrite conj_one
               | rewrite conj_add | rewrite conj_mul | rewrite conj_sub | rewrite conj_opp
               | rewrite conj_div | rewrite conj_invol | rewrite re_zero | rewrite im_zero
               | rewrite re_add | rewrite im_add ].
Ltac unify_ri :=
  match goal with
  | |- context [re ?X] =>
      match goal with
      | |- context [re ?Y] =>
          lazymatch X with Y => fail | _ => idtac end;
          replace (re X) with (re Y) by (f_equal; arg_eq X Y)
      end
  | |- context [im ?X] =>
      match goal with
      | |- context [im ?Y] =>
          lazymatch X with Y => fail | _ => idtac end;
          replace (im X) with (im Y) by (f_equal; arg_eq X Y)
      end
  end.
Ltac finish := first [ reflexivity | ring | field; nz_solve char0
                     | repeat unify1; first [ reflexivity | ring | field; nz_solve char0 ]
                     | repeat first [ unify1 | unify_ri ]; first [ reflexivity | ring | field; nz_solve char0 ] ].
Ltac close0 := norm_goal; first [ reflexivity | zero_laws; finish ].
(* adjoint: only Conj(Conj x) -> x of the constructor has to be undone *)
Ltac closeC := norm_goal; first [ reflexivity | rewrite ?conj_invol; finish | zero_laws; finish ].
Ltac dx_laws := repeat first [ rewrite Dx_add | rewrite Dx_mul ].
Ltac closeD := norm_goal; dx_laws; zero_laws; finish.
'''


# ----------------------------------------------------------------------------------------------
# exact complex-rational evaluator (search oracle only)

class GQ:
    """Gaussian rational."""
    __slots__ = ("re", "im")

    def __init__(self, re=0, im=0):
        self.re, self.im = Fraction(re), Fraction(im)

    def __add__(self, o):
        return GQ(self.re + o.re, self.im + o.im)

    def __sub__(self, o):
        return GQ(self.re - o.re, self.im - o.im)

    def __neg__(self):
        return GQ(-self.re, -self.im)

    def __mul__(self, o):
        return GQ(self.re * o.re - self.im * o.im, self.re * o.im + self.im * o.re)

    def conj(self):
        return GQ(self.re, -self.im)

    def __truediv__(self, o):
        d = o.re * o.re + o.im * o.im
        if d == 0:
            raise ZeroDivisionError
        n = self * o.conj()
        return GQ(n.re / d, n.im / d)

    def __eq__(self, o):
        return self.re == o.re and self.im == o.im

    def __str__(self):
        return f"{self.re}+{self.im}i" if self.im else f"{self.re}"


class Unsupported(Exception):
    pass


class CEnv:
    """Random Gaussian-rational values of terminals (and of their first derivatives, which are
    independent unknowns as long as Grad is applied to terminals only)."""

    def __init__(self, seed):
        self.rng = random.Random(seed)
        self.vals = {}

    def get(self, key):
        if key not in self.vals:
            r = self.rng
            self.vals[key] = GQ(Fraction(r.randint(-6, 6) or 1, r.choice([1, 2, 3])),
                                Fraction(r.randint(-6, 6) or 1, r.choice([1, 2, 3])))
        return self.vals[key]


def _i(i, rho):
    if isinstance(i, FixedIndex):
        return int(i)
    if isinstance(i, Index):
        return rho[i.count()]
    raise Unsupported("index")


def ceval(e, env, subst, rho=None, c=(), side=None, dpath=()):
    """Value of component c of e; Arguments substituted as SubSer does; dpath = derivative
    directions collected from enclosing Grad nodes (applied to the terminal)."""
    rho = rho or {}
    n = type(e).__name__
    ops = e.ufl_operands
    ev = lambda x, cc=(), r=rho, s=side, d=dpath: ceval(x, env, subst, r, tuple(cc), s, d)  # noqa: E731
    if n == "Zero":
        return GQ(0)
    if n in ("IntValue", "FloatValue"):
        if dpath:
            return GQ(0)
        return GQ(Fraction(e._value).limit_denominator(5040))
    if n == "ComplexValue":
        return GQ(Fraction(e._value.real).limit_denominator(5040), Fraction(e._value.imag).limit_denominator(5040))
    if e._ufl_is_terminal_:
        t = e
        if isinstance(e, C.Argument):
            key = ufl2coq.Ctx.term_key(e)
            if key in subst:
                t = subst[key]
                if t is None:
                    return GQ(0)
        if not isinstance(t, (C.Argument, C.Coefficient, C.Constant)):
            raise Unsupported(n)
        if dpath and isinstance(t, C.Constant):
            return GQ(0)
        return env.get((ufl2coq.Ctx.term_key(t), tuple(c), side, tuple(dpath)))
    if dpath and n not in ("Grad", "Indexed", "Sum", "Conj", "PositiveRestricted", "NegativeRestricted",
                           "Variable", "ComponentTensor", "ListTensor", "IndexSum", "Product", "Real", "Imag",
                           "Conditional", "Inner", "Dot", "Outer", "Division"):
        raise Unsupported("derivative of a non-linear node")
    if dpath and n in ("Product", "Inner", "Dot", "Outer"):
        # Leibniz for commuting derivations: D_P(a.b) = sum over subsets S of P of D_S a . D_{P-S} b
        def bil(fa, fb):
            tot = GQ(0)
            idx = range(len(dpath))
            for r_ in range(len(dpath) + 1):
                for S_ in itertools.combinations(idx, r_):
                    da = tuple(dpath[k] for k in S_)
                    db = tuple(dpath[k] for k in idx if k not in S_)
                    tot = tot + fa(da) * fb(db)
            return tot
        E = lambda x, cc, d: ceval(x, env, subst, rho, tuple(cc), side, d)  # noqa: E731
        if n == "Product":
            return bil(lambda d: E(ops[0], (), d), lambda d: E(ops[1], (), d))
        if n == "Inner":
            tot = GQ(0)
            for I in itertools.product(*[range(d_) for d_ in ops[0].ufl_shape]):
                tot = tot + bil(lambda d: E(ops[0], I, d), lambda d: E(ops[1], I, d).conj())
            return tot
        if n == "Dot":
            ra = len(ops[0].ufl_shape) - 1
            tot = GQ(0)
            for k in range(ops[0].ufl_shape[-1]):
                tot = tot + bil(lambda d: E(ops[0], tuple(c[:ra]) + (k,), d), lambda d: E(ops[1], (k,) + tuple(c[ra:]), d))
            return tot
        ra = len(ops[0].ufl_shape)
        return bil(lambda d: E(ops[0], c[:ra], d).conj(), lambda d: E(ops[1], c[ra:], d))
    if dpath and n == "Division":
        if len(dpath) != 1:
            raise Unsupported("higher derivative of a quotient")
        a_, b_ = ceval(ops[0], env, subst, rho, (), side, ()), ceval(ops[1], env, subst, rho, (), side, ())
        da_, db_ = ev(ops[0]), ev(ops[1])
        return (da_ - (a_ / b_) * db_) / b_
    if n == "Sum":
        return ev(ops[0], c) + ev(ops[1], c)
    if n == "Product":
        return ev(ops[0]) * ev(ops[1])
    if n == "Division":
        return ev(ops[0]) / ev(ops[1])
    if n == "Conj":
        return ev(ops[0], c).conj()
    if n == "Real":
        return GQ(ev(ops[0], c).re)
    if n == "Imag":
        return GQ(ev(ops[0], c).im)
    if n == "Indexed":
        return ev(ops[0], tuple(_i(i, rho) for i in ops[1]))
    if n == "IndexSum":
        (i,) = ops[1]
        tot = GQ(0)
        for k in range(e.dimension()):
            r2 = dict(rho)
            r2[i.count()] = k
            tot = tot + ev(ops[0], c, r2)
        return tot
    if n == "ComponentTensor":
        r2 = dict(rho)
        for i, k in zip(ops[1], c):
            r2[i.count()] = k
        return ev(ops[0], (), r2)
    if n == "ListTensor":
        return ev(ops[c[0]], c[1:])
    if n == "Variable":
        return ev(ops[0], c)
    if n == "PositiveRestricted":
        return ev(ops[0], c, rho, "+")
    if n == "NegativeRestricted":
        return ev(ops[0], c, rho, "-")
    if n == "Grad":
        return ceval(ops[0], env, subst, rho, tuple(c[:-1]), side, (c[-1],) + tuple(dpath))
    if n == "Conditional":
        cn = ops[0]
        a, b = ev(cn.ufl_operands[0], (), rho, side, ()), ev(cn.ufl_operands[1], (), rho, side, ())
        cmpn = type(cn).__name__
        if cmpn not in ("LT", "GT", "LE", "GE"):
            raise Unsupported(cmpn)
        t = {"LT": a.re < b.re, "GT": a.re > b.re, "LE": a.re <= b.re, "GE": a.re >= b.re}[cmpn]
        return ev(ops[1], c) if t else ev(ops[2], c)
    if n == "Inner":
        tot = GQ(0)
        for I in itertools.product(*[range(d) for d in ops[0].ufl_shape]):
            tot = tot + ev(ops[0], I) * ev(ops[1], I).conj()
        return tot
    if n == "Dot":
        ra = len(ops[0].ufl_shape) - 1
        tot = GQ(0)
        for k in range(ops[0].ufl_shape[-1]):
            tot = tot + ev(ops[0], tuple(c[:ra]) + (k,)) * ev(ops[1], (k,) + tuple(c[ra:]))
        return tot
    if n == "Outer":
        ra = len(ops[0].ufl_shape)
        return ev(ops[0], c[:ra]).conj() * ev(ops[1], c[ra:])
    raise Unsupported(n)


def lin_mismatch(case, trials=30, seed=0):
    """Search operand values with sum(lhs) != sum(rhs) for a LinCase; returns a witness or None."""
    rng = random.Random(seed)
    for t in range(trials):
        sd = rng.randrange(10**9)
        env = CEnv(sd)
        try:
            def side(terms):
                tot = GQ(0)
                for sg, lab, cj in terms:
                    e, subst = case.items[lab]
                    v = ceval(e, env, subst)
                    if cj:
                        v = v.conj()
                    tot = tot + v if sg > 0 else tot - v
                return tot
            a, b = side(case.lhs), side(case.rhs)
        except ZeroDivisionError:
            continue
        except Unsupported:
            return None
        if not (a == b):
            return {"implementation_value": str(a), "expected_value": str(b), "env_seed": sd,
                    "terminal_values": {str(k): str(v) for k, v in list(env.vals.items())[:40]}}
    return None
