"""C22 machinery: mixed spaces, generated (bi)linear forms, the substituting serializer that writes
"the original integrand with the test/trial function replaced by the zero-padded embedding of one
sub-function", the emission of the block obligations, and the numeric search oracle.

Nothing here imports ufl.algorithms.formsplitter except `run_blocks` (the code under test)."""

import itertools
import random

import numpy as np
import ufl
import ufl.classes as C
from ufl.algorithms.analysis import extract_arguments

import coqgen
import pyden
import ufl2coq
import uflgen
from elements import LagrangeElement, MixedElement

ALL = "all"      # substitution "every sub-function present" (the assembled mixed argument)


# ------------------------------------------------------------------------------------------------
# spaces

def sub_element(cell, sh, degree=1):
    """sh: a value shape (Lagrange), a list (nested MixedElement), or "sym2": a symmetric 2x2 tensor
    element, whose REFERENCE value size (3) differs from its physical value size (4) -- flattened
    offsets of later sub-elements must be counted in physical components."""
    if isinstance(sh, list):
        return MixedElement([sub_element(cell, s, degree) for s in sh])
    if sh == "sym2":
        from elements import SymmetricElement
        p1 = LagrangeElement(cell, degree, ())
        return SymmetricElement({(0, 0): 0, (0, 1): 1, (1, 0): 1, (1, 1): 2}, [p1, p1, p1])
    return LagrangeElement(cell, degree, tuple(sh))


class MixedSetup:
    """kind 'elem': test and trial function on FunctionSpace(mesh, MixedElement(subs));
    kind 'mfs' : TestFunctions/TrialFunctions of MixedFunctionSpace(V_0, ..)."""

    def __init__(self, kind, shapes, cell="triangle", trial_shapes=None, trial_degree=1):
        self.kind, self.shapes, self.cell = kind, list(shapes), cell
        self.trial_degree = trial_degree
        self.trial_shapes = list(trial_shapes) if trial_shapes is not None else list(shapes)
        self.mesh = uflgen.mesh(cell)
        c = self.mesh.ufl_cell()
        self.g = ufl.Coefficient(ufl.FunctionSpace(self.mesh, LagrangeElement(c, 1, ())))
        self.h = ufl.Coefficient(ufl.FunctionSpace(self.mesh, LagrangeElement(c, 1, ())))
        if kind == "elem":
            self.W = ufl.FunctionSpace(self.mesh, MixedElement([sub_element(c, s) for s in self.shapes]))
            self.Wu = (self.W if trial_shapes is None and trial_degree == 1 else
                       ufl.FunctionSpace(self.mesh, MixedElement([sub_element(c, s, trial_degree)
                                                                  for s in self.trial_shapes])))
            self.v = ufl.TestFunction(self.W)
            self.u = ufl.TrialFunction(self.Wu)
            self.vs = list(ufl.split(self.v))
            self.us = list(ufl.split(self.u))
            self.f = ufl.Coefficient(self.W)
            self.fs = list(ufl.split(self.f))
        else:
            spaces = [ufl.FunctionSpace(self.mesh, sub_element(c, s)) for s in self.shapes]
            self.W = self.Wu = ufl.MixedFunctionSpace(*spaces)
            self.v = self.u = None
            self.vs = list(ufl.TestFunctions(self.W))
            self.us = list(ufl.TrialFunctions(self.W))
            self.fs = [ufl.Coefficient(V) for V in spaces]
            self.f = None
        self.n = len(self.vs)
        self.nu = len(self.us)

    def name(self):
        def s(x):
            if isinstance(x, str):
                return "Y"
            return "m" + "".join(s(y) for y in x) if isinstance(x, list) else ("s" if not x else "v" * len(x))
        t = "" if self.trial_shapes == self.shapes else "_" + "".join(s(x) for x in self.trial_shapes)
        if self.trial_degree != 1:
            t = "_" + "".join(s(x) for x in self.trial_shapes) + f"d{self.trial_degree}"
        return f"{self.kind}_{''.join(s(x) for x in self.shapes)}{t}"

    def describe(self):
        return {"kind": self.kind, "test_sub_shapes": self.shapes, "trial_sub_shapes": self.trial_shapes,
                "trial_degree": self.trial_degree, "cell": self.cell}


# ------------------------------------------------------------------------------------------------
# generated forms

def _measures(rng, interior):
    if interior:
        return rng.choice([ufl.dS, ufl.dS(3)])
    return rng.choice([ufl.dx, ufl.dx, ufl.dx(1), ufl.ds, ufl.ds(2),
                       ufl.dx(metadata={"quadrature_degree": 2})])


def linear_term(S, rng, i=None):
    """One integral, linear in the test function; prefers sub-function i."""
    i = rng.randrange(S.n) if i is None else i
    vi, fi = S.vs[i], S.fs[i]
    sh = vi.ufl_shape
    g = S.g
    opts = ["src", "grad", "jump", "side"]
    if S.v is not None:
        opts += ["whole", "comp"]
    if sh == (2,):
        opts += ["div", "normal"]
    k = rng.choice(opts)
    if k == "whole":
        return ufl.inner(S.f, S.v) * _measures(rng, False), k
    if k == "comp":
        c = rng.randrange(S.v.ufl_shape[0])
        return g * S.v[c] * _measures(rng, False), k
    if k == "src":
        return ufl.inner(fi, vi) * _measures(rng, False), k
    if k == "grad":
        return ufl.inner(ufl.grad(fi), ufl.grad(vi)) * _measures(rng, False), k
    if k == "div":
        return ufl.div(vi) * g * _measures(rng, False), k
    if k == "normal":
        return ufl.dot(vi, ufl.FacetNormal(S.mesh)) * g * rng.choice([ufl.ds, ufl.ds(2)]), k
    if k == "jump":
        return ufl.inner(ufl.jump(vi), ufl.avg(fi)) * _measures(rng, True), k
    if k == "side":
        a, b = rng.choice([("+", "-"), ("-", "+"), ("+", "+")])
        return ufl.inner(vi(a), fi(b)) * g(b) * _measures(rng, True), k
    raise AssertionError(k)


def bilinear_term(S, rng, i=None, j=None):
    i = rng.randrange(S.n) if i is None else i
    j = rng.randrange(S.nu) if j is None else j
    vi, uj = S.vs[i], S.us[j]
    sv, su = vi.ufl_shape, uj.ufl_shape
    g = S.g
    opts = []
    if S.v is not None:
        opts += ["comp"]
        if S.v.ufl_shape == S.u.ufl_shape:
            opts += ["whole"]
    if sv == su:
        opts += ["mass", "stiff", "jump", "side"]
    if sv == (2,) and su == ():
        opts += ["divv", "gradu"]
    if sv == () and su == (2,):
        opts += ["divu", "conv"]
    if sv == (2, 2) and su == (2,):
        opts += ["tens"]
    if sv == (2,) and su == (2, 2):
        opts += ["tensu"]
    opts += ["pair"]            # always possible: one component of each sub-function
    k = rng.choice(opts)
    if k == "pair":
        ci = tuple(rng.randrange(d) for d in sv)
        cj = tuple(rng.randrange(d) for d in su)
        a = vi[ci] if sv else vi
        b = uj[cj] if su else uj
        return g * b * a * _measures(rng, False), k
    if k == "whole":
        return ufl.inner(S.u, S.v) * _measures(rng, False), k
    if k == "comp":
        a, b = rng.randrange(S.v.ufl_shape[0]), rng.randrange(S.u.ufl_shape[0])
        return g * S.u[b] * S.v[a] * _measures(rng, False), k
    if k == "mass":
        return g * ufl.inner(uj, vi) * _measures(rng, False), k
    if k == "stiff":
        return ufl.inner(ufl.grad(uj), ufl.grad(vi)) * _measures(rng, False), k
    if k == "jump":
        return ufl.inner(ufl.avg(uj), ufl.jump(vi)) * _measures(rng, True), k
    if k == "side":
        a, b = rng.choice([("+", "-"), ("-", "+"), ("-", "-")])
        return ufl.inner(uj(a), vi(b)) * _measures(rng, True), k
    if k == "divv":
        return uj * ufl.div(vi) * _measures(rng, False), k
    if k == "gradu":
        return ufl.inner(ufl.grad(uj), vi) * _measures(rng, False), k
    if k == "divu":
        return ufl.div(uj) * vi * _measures(rng, False), k
    if k == "conv":
        return ufl.dot(uj, ufl.grad(vi)) * g * _measures(rng, False), k
    if k == "tens":
        return ufl.inner(ufl.grad(uj), vi) * _measures(rng, False), k
    if k == "tensu":
        return ufl.inner(uj, ufl.grad(vi)) * _measures(rng, False), k
    raise AssertionError(k)


def gen_form(S, arity, rng, nterms):
    terms, kinds = [], []
    for _ in range(nterms):
        t, k = (linear_term if arity == 1 else bilinear_term)(S, rng)
        terms.append(t)
        kinds.append(k)
    form = terms[0]
    for t in terms[1:]:
        form = form + t
    return form, kinds


def fixed_forms(S):
    """A few hand-picked forms per setup (always run, independent of the seed)."""
    out = []
    rng = random.Random(12345)
    n = S.n
    if S.v is not None:
        out.append((1, ufl.inner(S.f, S.v) * ufl.dx + S.g * S.v[S.v.ufl_shape[0] - 1] * ufl.ds(1), ["whole", "comp"]))
        if S.v.ufl_shape == S.u.ufl_shape:
            out.append((2, ufl.inner(S.u, S.v) * ufl.dx
                        + S.g * S.u[0] * S.v[S.v.ufl_shape[0] - 1] * ufl.ds, ["whole", "comp"]))
    # one term per (i, j) pair that admits one
    terms = []
    for i in range(n):
        for j in range(S.nu):
            try:
                t, k = bilinear_term(S, rng, i, j)
            except IndexError:
                continue
            terms.append(t)
    if terms:
        form = terms[0]
        for t in terms[1:]:
            form = form + t
        out.append((2, form, ["grid"]))
    lt = [linear_term(S, rng, i)[0] for i in range(n)]
    form = lt[0]
    for t in lt[1:]:
        form = form + t
    out.append((1, form, ["each"]))
    # sparsity patterns: forms in which some sub-space occurs ONLY as a test or ONLY as a trial function, or
    # not at all (one-way couplings, single blocks, a single row/column) -- the block grid must still be
    # indexed by all sub-spaces and no block may be dropped or mis-filed
    def sum_terms(pairs, tag):
        ts = []
        for (i, j) in pairs:
            try:
                ts.append(bilinear_term(S, rng, i, j)[0])
            except IndexError:
                pass
        if ts:
            f_ = ts[0]
            for t in ts[1:]:
                f_ = f_ + t
            out.append((2, f_, [tag]))
    if n >= 2 and S.nu >= 2:
        sum_terms([(i, j) for i in range(n) for j in range(S.nu) if i < j], "upper")
        sum_terms([(i, j) for i in range(n) for j in range(S.nu) if i > j], "lower")
        sum_terms([(0, S.nu - 1)], "corner_upper")
        sum_terms([(n - 1, 0)], "corner_lower")
    if n >= 2:
        out.append((1, linear_term(S, rng, 0)[0], ["first_only"]))
        out.append((1, linear_term(S, rng, n - 1)[0], ["last_only"]))
    return out


# ------------------------------------------------------------------------------------------------
# the embedding  iota_i : sub-function i  ->  mixed function

def sub_arguments(arg):
    """[(sub argument on FunctionSpace(domain, sub element), flattened offset, size)] of an Argument on
    a mixed-element space -- built here independently of formsplitter."""
    Q = arg.ufl_function_space()
    dom = Q.ufl_domain()
    out, off = [], 0
    for se in arg.ufl_element().sub_elements:
        a = ufl.Argument(ufl.FunctionSpace(dom, se), arg.number(), part=arg.part())
        size = int(np.prod(a.ufl_shape)) if a.ufl_shape else 1
        out.append((a, off, size))
        off += size
    return out


def embedding_entries(arg, block, replace_argument):
    """UFL scalar entries of iota_block(sub-function `block`) as a vector of arg.ufl_shape[0] entries.
    block == ALL: all sub-functions present."""
    entries = []
    for s, (a, off, size) in enumerate(sub_arguments(arg)):
        comps = list(np.ndindex(a.ufl_shape))
        for k, mi in enumerate(comps):
            if block != ALL and s != block:
                entries.append(None)
            elif replace_argument:
                entries.append((a, tuple(int(x) for x in mi)))
            else:
                entries.append((arg, (off + k,)))
    assert len(entries) == arg.ufl_shape[0], (len(entries), arg.ufl_shape)
    return entries


def is_mixed_arg(t):
    return isinstance(t, C.Argument) and t.part() is None and len(t.ufl_element().sub_elements) > 0


class SubSer(ufl2coq.Ser):
    """Serializer that emits every Argument under the substitution `blocks[number]`:
       * argument of a mixed-element space -> ListTensor of the entries of iota_block(sub-function),
       * argument with a part (MixedFunctionSpace) -> itself if part == block (or block is ALL), else Zero."""

    def __init__(self, ctx, prefix, blocks, replace_argument):
        super().__init__(ctx, prefix=prefix)
        self.blocks = blocks
        self.replace_argument = replace_argument

    def _node(self, e):
        if isinstance(e, C.Argument):
            b = self.blocks.get(e.number(), ALL)
            if e.part() is not None:
                if b == ALL or e.part() == b:
                    return super()._node(e)
                return f"(Zero {ufl2coq.natlist(e.ufl_shape)} [])"
            if is_mixed_arg(e):
                if b == ALL and not self.replace_argument:
                    return super()._node(e)
                ents = []
                for ent in embedding_entries(e, b, self.replace_argument):
                    if ent is None:
                        ents.append("(Zero [] [])")
                    else:
                        a, mi = ent
                        kind, tid, sh, _ = self.ctx.term(a)
                        t = f"(Term {kind} {tid} {ufl2coq.natlist(sh)})"
                        ents.append(t if not mi else
                                    f"(Indexed {t} [{'; '.join('Fixed %d' % k for k in mi)}])")
                return "(ListTensor [" + "; ".join(ents) + "])"
        return super()._node(e)


def substituted_ufl(integrand, blocks, replace_argument):
    """The same substitution as a UFL expression (for the numeric search oracle only)."""
    from ufl.algorithms.analysis import extract_type
    mapping = {}
    for a in extract_type(integrand, C.Argument):
        b = blocks.get(a.number(), ALL)
        if a.part() is not None:
            if not (b == ALL or a.part() == b):
                mapping[a] = C.Zero(a.ufl_shape)
        elif is_mixed_arg(a):
            ents = []
            for ent in embedding_entries(a, b, replace_argument):
                if ent is None:
                    ents.append(C.Zero())
                else:
                    t, mi = ent
                    ents.append(t[mi] if mi else t)
            mapping[a] = C.ListTensor(*ents)
    if not mapping:
        return integrand
    from ufl.algorithms.replace import replace
    return replace(integrand, mapping)


# ------------------------------------------------------------------------------------------------
# integrals

def integral_key(itg):
    md = itg.metadata()
    return (itg.ufl_domain().ufl_id(), itg.integral_type(), repr(itg.subdomain_id()),
            repr(sorted(md.items())) if md else "", repr(itg.subdomain_data()))


def by_key(form):
    d = {}
    if form is None:
        return d
    for itg in form.integrals():
        d.setdefault(integral_key(itg), []).append(itg.integrand())
    return d


# ------------------------------------------------------------------------------------------------
# obligations

EXTRA_HEADER = r'''
(* D_j is additive and conj is an involutive ring morphism (DESIGN 2.1): they send 0 to 0 and conj commutes with
   the ring operations.  Needed where a zero component sits under grad(..) / conj(..) on one side and
   was simplified away by the implementation on the other. *)
Hypothesis Dx_zero : forall j, Dx j z0 = z0.
Hypothesis conj_zero : conj z0 = z0.
Hypothesis conj_one : conj z1 = z1.
Hypothesis conj_conj : forall x, conj (conj x) = x.
Hypothesis conj_add : forall x y, conj (add x y) = add (conj x) (conj y).
Hypothesis conj_mul : forall x y, conj (mul x y) = mul (conj x) (conj y).
Hypothesis conj_sub : forall x y, conj (sub x y) = sub (conj x) (conj y).
Hypothesis conj_opp : forall x, conj (opp x) = opp (conj x).
Hypothesis conj_div : forall x y, conj (div x y) = div (conj x) (conj y).
Ltac c22rw := repeat (rewrite Dx_zero || rewrite conj_zero || rewrite conj_one || rewrite conj_add
                      || rewrite conj_conj
                      || rewrite conj_mul || rewrite conj_sub || rewrite conj_opp || rewrite conj_div).
Ltac c22 := norm_goal;
  first [ reflexivity | ring
        | c22rw; first [ reflexivity | ring | field; nz_solve char0 ] ].
'''


class VarSer(ufl2coq.Ser):
    # Serializer that writes the Arguments listed in `varmap` (term_key -> Gallina variable name) as
    # variables, so that one Definition  orig (A0 A1 : expr) : expr  serves every block.

    def __init__(self, ctx, varmap):
        super().__init__(ctx, prefix="unused", share=False)
        self.varmap = varmap

    def _node(self, e):
        if isinstance(e, C.Argument):
            k = ufl2coq.Ctx.term_key(e)
            if k in self.varmap:
                return self.varmap[k]
        return super()._node(e)


class BlockCase:
    # All obligations of one (form, replace_argument) pair.  Duck-types coqgen.Case for
    # coqgen.emit_and_check (name, emit(), lemmas, note).

    def __init__(self, name, form, arity, grid, replace_argument, note, sum_blocks=None):
        self.name = name
        self.form, self.arity = form, arity
        self.grid = grid                 # {(i, j) or (i,): Form or None}   real outputs
        self.ra = replace_argument
        self.note = note
        self.sum_blocks = sum_blocks     # list of block ids whose sum must equal the form (or None)
        self.lemmas = []
        self.info = {}                   # lemma -> (block id, key, kind)
        self.ctx = ufl2coq.Ctx()

    def _blocks_of(self, bid):
        return {0: bid[0], 1: bid[1]} if len(bid) == 2 else {0: bid[0]}

    def _arg_text(self, a, b):
        # Gallina text of Argument `a` under the substitution 'sub-function b of its number' (b may be ALL)
        if a.part() is not None:
            if b == ALL or a.part() == b:
                kind, tid, sh, _ = self.ctx.term(a)
                return f"(Term {kind} {tid} {ufl2coq.natlist(sh)})"
            return f"(Zero {ufl2coq.natlist(a.ufl_shape)} [])"
        return SubSer(self.ctx, "unused", {a.number(): b}, self.ra)._node(a)

    def emit(self):
        from ufl.algorithms.analysis import extract_type
        txt = [f"(* case {self.name}: {self.note} *)\n"]
        orig = by_key(self.form)
        keys = sorted(orig)
        self.lemmas = []
        counter = itertools.count()
        # the arguments that are substituted, as variables of the original integrands
        args = []
        for itg in self.form.integrals():
            for a in extract_type(itg.integrand(), C.Argument):
                if (a.part() is not None or is_mixed_arg(a)) and a not in args:
                    args.append(a)
        args.sort(key=lambda a: (a.number(), -1 if a.part() is None else a.part()))
        varmap = {ufl2coq.Ctx.term_key(a): f"A{a.number()}" + ("" if a.part() is None else f"p{a.part()}")
                  for a in args}
        binder = ("(" + " ".join(varmap[ufl2coq.Ctx.term_key(a)] for a in args) + " : expr) ") if args else ""
        # original integrands as functions of the substituted arguments
        ofun = {}
        for kx, key in enumerate(keys):
            ofun[key] = []
            for m, e in enumerate(orig[key]):
                nm = f"{self.name}_o{kx}_{m}"
                txt.append(f"Definition {nm} {binder}: expr := {VarSer(self.ctx, varmap).expr(e)}.\n")
                ofun[key].append(nm)
        # the embeddings
        emb = {}

        def arg_name(a, b):
            k = (ufl2coq.Ctx.term_key(a), b)
            if k not in emb:
                t = self._arg_text(a, b)
                if len(t) > 60:
                    nm = f"{self.name}_e{len(emb)}"
                    txt.append(f"Definition {nm} : expr := {t}.\n")
                    t = nm
                emb[k] = t
            return emb[k]

        def sub_text(key, blocks):
            parts = [f"DEN s rho ({nm} " + " ".join(arg_name(a, blocks.get(a.number(), ALL)) for a in args) + ") []"
                     if args else f"DEN s rho {nm} []" for nm in ofun[key]]
            out = parts[0]
            for p in parts[1:]:
                out = f"add ({out}) ({p})"
            return out

        def define_plain(exprs, tag):
            parts = []
            for e in exprs:
                n = next(counter)
                ser = ufl2coq.Ser(self.ctx, prefix=f"{self.name}_{tag}{n}_n")
                t = ser.expr(e)
                txt.append(ser.definitions_text())
                nm = f"{self.name}_{tag}{n}"
                txt.append(f"Definition {nm} : expr := {t}.\n")
                parts.append(f"DEN s rho {nm} []")
            if not parts:
                return "z0"
            out = parts[0]
            for p in parts[1:]:
                out = f"add ({out}) ({p})"
            return out

        sub_txt = {}
        for bid, blk in sorted(self.grid.items()):
            bkeys = by_key(blk)
            bname = "_".join(map(str, bid))
            for kx, key in enumerate(keys):
                sub = sub_text(key, self._blocks_of(bid))
                sub_txt[(bid, key)] = sub
                lhs = define_plain(bkeys.get(key, []), f"b{bname}k{kx}_")
                ln = f"{self.name}_blk_{bname}_k{kx}"
                txt.append(f"Lemma {ln} s rho : {lhs} = {sub}.\nProof. c22. Qed.\n")
                self.lemmas.append(ln)
                self.info[ln] = (bid, key, "block" if key in bkeys else "block-absent")
            for key in bkeys:
                if key not in orig:
                    # an integral that the original form does not have: must vanish
                    lhs = define_plain(bkeys[key], f"x{bname}_")
                    ln = f"{self.name}_extra_{bname}_{next(counter)}"
                    txt.append(f"Lemma {ln} s rho : {lhs} = z0.\nProof. c22. Qed.\n")
                    self.lemmas.append(ln)
                    self.info[ln] = (bid, key, "extra-integral")
        if self.sum_blocks:
            for kx, key in enumerate(keys):
                full = sub_text(key, {})
                tot = None
                for bid in self.sum_blocks:
                    t = sub_txt[(bid, key)]
                    tot = t if tot is None else f"add ({tot}) ({t})"
                ln = f"{self.name}_sum_k{kx}"
                txt.append(f"Lemma {ln} s rho : {tot} = {full}.\nProof. c22. Qed.\n")
                self.lemmas.append(ln)
                self.info[ln] = (None, key, "sum")
        return "".join(txt)


# ------------------------------------------------------------------------------------------------
# syntactic dependency check on the real output

def dependency_problems(block, bid, form, replace_argument):
    """Each block (i, j) may mention only the i-th test and j-th trial sub-function."""
    if block is None:
        return []
    probs = []
    originals = {a.number(): a for a in form.arguments() if a.part() is None}
    allowed = {}
    for nb, a in originals.items():
        if nb >= len(bid):
            continue
        if is_mixed_arg(a):
            sa, off, size = sub_arguments(a)[bid[nb]] if bid[nb] < len(sub_arguments(a)) else (None, 0, 0)
            allowed[nb] = ("new", sa) if replace_argument else ("comps", a, range(off, off + size))
        else:
            allowed[nb] = ("new", a)
    for itg in block.integrals():
        e = itg.integrand()
        for a in extract_arguments(e):
            nb = a.number()
            if a.part() is not None:
                if nb >= len(bid) or a.part() != bid[nb]:
                    probs.append(f"argument number {nb} part {a.part()} occurs in block {bid}")
                continue
            al = allowed.get(nb)
            if al is None:
                probs.append(f"argument number {nb} occurs in block {bid}")
            elif al[0] == "new" and a != al[1]:
                probs.append(f"argument {a!r} in block {bid}, expected {al[1]!r}")
        if not replace_argument:
            from ufl.corealg.traversal import unique_pre_traversal
            ok_terminals = set()
            for x in unique_pre_traversal(e):
                if isinstance(x, C.Indexed) and isinstance(x.ufl_operands[0], C.Argument):
                    a = x.ufl_operands[0]
                    al = allowed.get(a.number())
                    if al and al[0] == "comps" and a == al[1]:
                        mi = x.ufl_operands[1]
                        if len(mi) == 1 and isinstance(mi[0], C.FixedIndex) and int(mi[0]) in al[2]:
                            ok_terminals.add(id(a))
                            continue
                        probs.append(f"component {mi} of argument {a.number()} outside block {bid} range {al[2]}")
            # any other use of the whole argument is a dependency on all sub-functions
            for x in unique_pre_traversal(e):
                if isinstance(x, C.Indexed):
                    continue
                for o in x.ufl_operands:
                    if isinstance(o, C.Argument) and allowed.get(o.number(), ("",))[0] == "comps":
                        probs.append(f"whole argument {o.number()} used by {type(x).__name__} in block {bid}")
    return probs


# ------------------------------------------------------------------------------------------------
# numeric search oracle (only after an obligation broke)

def numeric_counterexample(case, lemma, seed, trials):
    bid, key, kind = case.info[lemma]
    orig = by_key(case.form)
    try:
        if kind == "sum":
            exp_terms = [(1, substituted_ufl(e, {}, case.ra)) for e in orig[key]]
            got_terms = []
            for b in case.sum_blocks:
                for e in by_key(case.grid.get(b)).get(key, []):
                    got_terms.append(e)
            exp = sum((e for _, e in exp_terms[1:]), exp_terms[0][1])
            got = sum(got_terms[1:], got_terms[0]) if got_terms else C.Zero()
        else:
            blocks = case._blocks_of(bid)
            es = [substituted_ufl(e, blocks, case.ra) for e in orig.get(key, [])]
            exp = sum(es[1:], es[0]) if es else C.Zero()
            bl = by_key(case.grid.get(bid)).get(key, [])
            got = sum(bl[1:], bl[0]) if bl else C.Zero()
        w = pyden.find_mismatch(got, exp, trials=trials, seed=seed, nv=2)
    except Exception as ex:   # the oracle must never mask the broken obligation
        return None, f"oracle raised {type(ex).__name__}: {ex}"
    if w is None:
        return None, "no numeric mismatch found"
    w["block"] = list(bid) if bid else "sum of all blocks"
    w["integral"] = list(key)
    w["block_integrand"] = str(got)[:1500]
    w["expected_integrand"] = str(exp)[:1500]
    return w, None


# ------------------------------------------------------------------------------------------------
# T3: structural correspondence of FormSplitter.argument with the Gallina model of Props/C22_blocks.v

ARG_HEADER = """Require Import UFLV.Core.Den.
Require Import UFLV.Props.C22_blocks.
(* FormSplitter.argument(v) on the current tree == ListTensor (zeros pre ++ entries ++ zeros post),
   the vector whose denotation C22_embedding_den_new/_old prove to be the zero-padded embedding. *)
"""


def argument_model_file(setups_):
    """Text of Gen/C22_arg.v and the list of Example names: for every mixed-element setup, argument
    number, sub-element index and replace_argument mode, the real handler output (serialised node for
    node) must be syntactically the model term.  pre / post / component lists come from the element's
    sub-element shapes, not from formsplitter."""
    from ufl.algorithms.formsplitter import FormSplitter
    txt, names = [ARG_HEADER], []
    seen = set()
    for S in setups_:
        if S.kind != "elem":
            continue
        for arg in (S.v, S.u):
            key = repr(arg)
            if key in seen:
                continue
            seen.add(key)
            subs = sub_arguments(arg)
            total = arg.ufl_shape[0]
            for ra in (True, False):
                for i, (a, off, size) in enumerate(subs):
                    fs = FormSplitter(replace_argument=ra)
                    fs.idx = [i, i]
                    out = fs.argument(arg)
                    ctx = ufl2coq.Ctx()
                    t_out = ufl2coq.Ser(ctx, share=False).expr(out)
                    post = total - off - size
                    if ra:
                        kind, tid, sh, _ = ctx.term(a)
                        cs = "[" + "; ".join(ufl2coq.natlist(c) for c in np.ndindex(a.ufl_shape)) + "]"
                        model = (f"ListTensor (zeros {off} ++ entries_new (Term {kind} {tid} {ufl2coq.natlist(sh)}) "
                                 f"{cs} ++ zeros {post})")
                    else:
                        kind, tid, sh, _ = ctx.term(arg)
                        model = (f"ListTensor (zeros {off} ++ entries_old (Term {kind} {tid} {ufl2coq.natlist(sh)}) "
                                 f"{off} {size} ++ zeros {post})")
                    nm = f"arg_{S.name()}_n{arg.number()}_{'r' if ra else 'k'}_{i}"
                    txt.append(f"Example {nm} : {t_out} = {model}.\nProof. reflexivity. Qed.\n")
                    names.append(nm)
    return "".join(txt), names



# ------------------------------------------------------------------------------------------------
# compile the obligations: like coqgen.emit_and_check, but a failing shard is re-checked (with the
# failing lemma masked) at most `max_rounds - 1` times: a mutation usually breaks dozens of lemmas and
# one failing lemma per shard is enough to start the search for a concrete failing input

def check_cases(run, pid, cases, timeout=600, extra_header="", max_rounds=2):
    import os
    import vlib
    shards = min(vlib.NCPU, max(1, len(cases)))
    texts = [(c, c.emit()) for c in cases]
    bins = [[] for _ in range(shards)]
    load = [0] * shards
    for c, t in sorted(texts, key=lambda x: -len(x[1])):
        k = load.index(min(load))
        bins[k].append((c, t))
        load[k] += len(t)
    paths, by_file = [], {}
    for k, b in enumerate(bins):
        if not b:
            continue
        b.sort(key=lambda x: x[0].name)
        path = os.path.join(vlib.GEN, f"{pid}_t2_{k}.v")
        vlib.write_if_changed(path, coqgen.HEADER + extra_header + "".join(t for _, t in b) + coqgen.FOOTER)
        paths.append(path)
        by_file[path] = [c for c, _ in b]
    for f in os.listdir(vlib.GEN):
        if f.startswith(f"{pid}_t2_") and f.endswith(".v") and os.path.join(vlib.GEN, f) not in paths:
            os.remove(os.path.join(vlib.GEN, f))
    failing, pending, rounds = [], list(paths), 0
    masked = {p: set() for p in paths}
    while pending:
        rounds += 1
        nxt = []
        for r in vlib.coqc_many(pending, timeout=timeout):
            run.extra.setdefault('coqc_wall_s', {})[os.path.basename(r.path)] = round(r.wall, 1)
            names = [l for c in by_file[r.path] for l in c.lemmas if l not in masked[r.path]]
            if r.ok:
                run.add_coq_result(r, names)
                continue
            fl = r.failing_lemma()
            case = next((c for c in by_file[r.path] if fl in c.lemmas), None)
            msg = " ".join((r.err or "").strip().split("\n")[-3:])[:300] or "coqc timed out / was killed"
            failing.append((case, fl, msg))
            if case is None or rounds >= max_rounds:
                run.add_coq_result(r, names)
                continue
            run.obligations.append((fl, os.path.relpath(r.path, vlib.COQ)))
            run.failed.append((fl, os.path.relpath(r.path, vlib.COQ), msg))
            masked[r.path].add(fl)
            src = open(r.path).read()
            i = src.index(f"Lemma {fl} ")
            k0 = src.index("Proof.", i)
            j = src.index("Qed.", i)
            with open(r.path, "w") as f:
                f.write(src[:k0] + "Proof. Abort. (* FAILED *)" + src[j + 4:])
            nxt.append(r.path)
        pending = nxt
    run.checker_cmds.append(f"coqc -Q coq UFLV coq/Gen/{pid}_t2_*.v")
    return failing
