"""C08 helpers: element descriptors <-> UFL elements <-> Gallina element trees, and an independent
Python mirror of the push-forward specification `pf` of coq/Props/C08_spec.v over exact rationals
(used ONLY to search for a concrete failing input after an obligation broke).

Descriptor grammar (plain data, independent of the code under test):
    ("leaf", kind, rshape)                 kind in KINDS, rshape = reference value shape
    ("mixed", [sub, ...], forced)          forced: use MixedPullback even if all subs are identity
    ("symm", block_shape, symlist, [sub, ...])   symlist in np.ndindex(block_shape) order
    ("seq", [sub, ...])                    top level only: mixed element on a MeshSequence, sub-element i lives on
                                           component mesh i (its own J, K, detJ)
SYM_ORDER selects the INSERTION ORDER of the symmetry dict handed to SymmetricElement (the mapping itself is the
same): the push-forward must not depend on the order in which the user wrote the dict entries.
"""

import itertools
from fractions import Fraction

import ufl
import ufl.pullback as P
from ufl.sobolevspace import H1, L2, HCurl, HDiv, HDivDiv, HEin

import elements

KINDS = {
    "id": ("PId", P.identity_pullback, H1),
    "contra": ("PContra", P.contravariant_piola, HDiv),
    "cov": ("PCov", P.covariant_piola, HCurl),
    "l2": ("PL2", P.l2_piola, L2),
    "dcontra": ("PDContra", P.double_contravariant_piola, HDivDiv),
    "dcov": ("PDCov", P.double_covariant_piola, HEin),
    "covcontra": ("PCovContra", P.covariant_contravariant_piola, L2),
}


def prod(sh):
    n = 1
    for d in sh:
        n *= d
    return n


def rshape(d):
    if d[0] == "leaf":
        return tuple(d[2])
    return (sum(prod(rshape(x)) for x in subs(d)),)


SYM_ORDER = "rowmajor"      # "rowmajor" | "reversed" | "diagfirst" | "colmajor"


def subs(d):
    return d[1] if d[0] in ("mixed", "seq") else d[3]


def pshape(d, g):
    if d[0] == "leaf":
        k, sh = d[1], tuple(d[2])
        if k in ("id", "l2"):
            return sh
        if k in ("contra", "cov"):
            return sh[:-1] + (g,)
        return sh[:-2] + (g, g)
    if d[0] in ("mixed", "seq"):
        return (sum(prod(pshape(x, g)) for x in d[1]),)
    return tuple(d[1]) + pshape(d[3][0], g)


def normalise(d):
    """A mixed element whose sub-elements all have the identity pullback is given the identity
    pullback by the element class (unless forced): its descriptor is an identity leaf."""
    if d[0] == "leaf":
        return d
    if d[0] == "seq":
        return ("seq", [normalise(x) for x in d[1]])
    if d[0] == "mixed":
        ss = [normalise(x) for x in d[1]]
        forced = len(d) > 2 and d[2]
        if not forced and all(x[0] == "leaf" and x[1] == "id" for x in ss):
            return ("leaf", "id", (sum(prod(x[2]) for x in ss),))
        return ("mixed", ss, forced)
    return ("symm", tuple(d[1]), list(d[2]), [normalise(x) for x in d[3]])


_uid = itertools.count()


def make_element(d, cell):
    """Build the UFL element of a descriptor (py/elements.py classes + ufl.pullback objects)."""
    if d[0] == "leaf":
        _, pb, sob = KINDS[d[1]]
        return elements.FiniteElement(f"F{d[1]}", cell, 1, tuple(d[2]), pb, sob)
    if d[0] == "mixed":
        ss = [make_element(x, cell) for x in d[1]]
        e = elements.MixedElement(ss)
        forced = len(d) > 2 and d[2]
        if forced and isinstance(e.pullback, P.IdentityPullback):
            e._pullback = P.MixedPullback(e)
            e._repr = e._repr + "#forced"
        return e
    if d[0] == "seq":
        return elements.MixedElement([make_element(x, cell) for x in d[1]], make_cell_sequence=True)
    _, bs, sym, sub = d
    ss = [make_element(x, cell) for x in sub]
    keys = list(enumerate(itertools.product(*[range(n) for n in bs])))
    if SYM_ORDER == "reversed":
        keys = keys[::-1]
    elif SYM_ORDER == "diagfirst":      # Voigt-like: entries with all-equal indices first
        keys = [kc for kc in keys if len(set(kc[1])) <= 1] + [kc for kc in keys if len(set(kc[1])) > 1][::-1]
    elif SYM_ORDER == "colmajor":
        keys = sorted(keys, key=lambda kc: kc[1][::-1])
    symmetry = {c: sym[k] for k, c in keys}
    return elements.SymmetricElement(symmetry, ss)


def natlist(t):
    return "[" + "; ".join(str(int(x)) for x in t) + "]"


def tree_text(d):
    if d[0] == "leaf":
        return f"(Leaf {KINDS[d[1]][0]} {natlist(d[2])})"
    if d[0] == "mixed":
        return "(Mixed [" + "; ".join(tree_text(x) for x in d[1]) + "])"
    if d[0] == "seq":
        return "(* MeshSequence *) [" + "; ".join(tree_text(x) for x in d[1]) + "]"
    return f"(Symm {natlist(d[1])} {natlist(d[2])} [" + "; ".join(tree_text(x) for x in d[3]) + "])"


def short(d):
    if d[0] == "leaf":
        return d[1] + "".join(map(str, d[2]))
    if d[0] == "seq":
        return "Q(" + ",".join(short(x) for x in d[1]) + ")"
    if d[0] == "mixed":
        return "M" + ("f" if len(d) > 2 and d[2] else "") + "(" + ",".join(short(x) for x in d[1]) + ")"
    return "S" + "".join(map(str, d[1])) + "(" + ",".join(short(x) for x in d[3]) + ")"


# ----------------------------------------------------------------------------------------------
# the specification pf over Fractions (mirror of coq/Props/C08_spec.v)

def flat(sh, c):
    n = 0
    for d, k in zip(sh, c):
        n = n * d + k
    return n


def unflat(sh, n):
    out = []
    for d in reversed(sh):
        out.append(n % d)
        n //= d
    return tuple(reversed(out))


def inrange(sh, c):
    return len(sh) == len(c) and all(0 <= k < d for d, k in zip(sh, c))


def pf(d, g, t, J, K, detJ, r, c):
    c = tuple(c)
    if d[0] == "leaf":
        kind = d[1]
        if kind == "id":
            return r(c)
        if kind == "l2":
            return r(c) / detJ
        if kind == "contra":
            k, i = c[:-1], c[-1]
            return sum(J(i, j) * r(k + (j,)) for j in range(t)) / detJ
        if kind == "cov":
            k, i = c[:-1], c[-1]
            return sum(K(j, i) * r(k + (j,)) for j in range(t))
        k, i, j = c[:-2], c[-2], c[-1]
        tot = Fraction(0)
        for m in range(t):
            for n in range(t):
                x = r(k + (m, n))
                if kind == "dcontra":
                    tot += J(i, m) * x * J(j, n) / detJ / detJ
                elif kind == "dcov":
                    tot += K(m, i) * x * K(n, j)
                else:
                    tot += K(m, i) * x * J(j, n) / detJ
        return tot
    if d[0] == "seq":          # J, K, detJ are lists, one per component mesh
        (n,) = c
        roff = 0
        for i, x in enumerate(d[1]):
            ps = prod(pshape(x, g))
            rs = rshape(x)
            if n < ps:
                return pf(x, g, t, J[i], K[i], detJ[i], _sub(r, roff, rs), unflat(pshape(x, g), n))
            n -= ps
            roff += prod(rs)
        raise IndexError(c)
    if d[0] == "mixed":
        (n,) = c
        roff = 0
        for x in d[1]:
            ps = prod(pshape(x, g))
            rs = rshape(x)
            if n < ps:
                return pf(x, g, t, J, K, detJ, _sub(r, roff, rs), unflat(pshape(x, g), n))
            n -= ps
            roff += prod(rs)
        raise IndexError(c)
    _, bs, sym, sub = d
    cb, cs = c[:len(bs)], c[len(bs):]
    i = sym[flat(bs, cb)]
    roff = sum(prod(rshape(x)) for x in sub[:i])
    return pf(sub[i], g, t, J, K, detJ, _sub(r, roff, rshape(sub[i])), cs)


def _sub(r, roff, sh):
    return lambda c: r((roff + flat(sh, c),)) if inrange(sh, c) else Fraction(0)


def find_mismatch(out, d, g, t, fterm, mesh, trials=30, seed=0):
    """Random rational values for RefValue(f), J, K, detJ (per component mesh); compare den(out) with pf."""
    import random

    import pyden
    from ufl.classes import Jacobian, JacobianDeterminant, JacobianInverse
    rng = random.Random(seed)
    meshes = list(mesh) if isinstance(mesh, (list, tuple)) else [mesh]
    geo = [(Jacobian(m), JacobianInverse(m), JacobianDeterminant(m)) for m in meshes]
    comps = list(itertools.product(*[range(n) for n in out.ufl_shape]))
    for trial in range(trials):
        env = pyden.Env(nv=1, order=0, seed=rng.randrange(10**9))
        Js = [(lambda i, j, Jt=Jt: env.value(Jt, (i, j), None).value()) for Jt, _, _ in geo]
        Ks = [(lambda i, j, Kt=Kt: env.value(Kt, (i, j), None).value()) for _, Kt, _ in geo]
        dets = [env.value(Dt, (), None).value() for _, _, Dt in geo]
        r = lambda c: env.value(fterm, tuple(c), None).value()    # noqa: E731
        seq = d[0] == "seq"
        for c in comps:
            try:
                a = pyden.evaluate(out, env, {}, c).value()
                b = pf(d, g, t, Js if seq else Js[0], Ks if seq else Ks[0], dets if seq else dets[0], r, c)
            except ZeroDivisionError:
                continue
            except Exception as ex:    # the search is best effort
                return {"search_error": repr(ex)}
            if a != b:
                rs = rshape(d)
                return {
                    "component": list(c), "implementation_value": str(a), "declared_push_forward": str(b),
                    "geometry_per_component_mesh": [
                        {"J": {f"{i},{j}": str(Js[m](i, j)) for i in range(g) for j in range(t)},
                         "K": {f"{i},{j}": str(Ks[m](i, j)) for i in range(t) for j in range(g)},
                         "detJ": str(dets[m])} for m in range(len(meshes))],
                    "reference_value": {str(list(cc)): str(r(cc)) for cc in
                                        itertools.product(*[range(n) for n in rs])},
                    "trial": trial,
                }
    return None
