"""Common machinery of the /verif checks: Coq builds, obligations, evidence, violations."""

import concurrent.futures as cf
import fcntl
import hashlib
import json
import os
import re
import subprocess
import sys
import time

VERIF = os.path.dirname(os.path.dirname(os.path.abspath(__file__)))
REPO = os.environ.get("UFL_REPO", "/repo")
COQ = os.path.join(VERIF, "coq")
GEN = os.path.join(COQ, "Gen")
PY = "/venv/bin/python"
NCPU = max(1, min(16, os.cpu_count() or 1))

CORE_FILES = ["Core/Alg.v", "Core/Syntax.v", "Core/Den.v", "Core/Tac.v"]


def sh(cmd, timeout=600, cwd=None, env=None, input=None):
    e = dict(os.environ)
    if env:
        e.update(env)
    try:
        p = subprocess.run(cmd, shell=isinstance(cmd, str), cwd=cwd, env=e, input=input,
                           capture_output=True, text=True, timeout=timeout)
        return p.returncode, p.stdout, p.stderr
    except subprocess.TimeoutExpired as ex:
        return 124, (ex.stdout or b"").decode() if isinstance(ex.stdout, bytes) else (ex.stdout or ""), "TIMEOUT"


def repo_env(extra=None):
    env = {"PYTHONPATH": f"{REPO}:{VERIF}/py", "PYTHONHASHSEED": "0", "UFL_VERIF": "1"}
    if extra:
        env.update(extra)
    return env


def write_if_changed(path, text):
    os.makedirs(os.path.dirname(path), exist_ok=True)
    try:
        with open(path) as f:
            if f.read() == text:
                return False
    except FileNotFoundError:
        pass
    tmp = path + ".tmp%d" % os.getpid()
    with open(tmp, "w") as f:
        f.write(text)
    os.replace(tmp, path)
    return True


# ----------------------------------------------------------------------------------------------
# Coq

class CoqResult:
    def __init__(self, path, ok, out, err, wall):
        self.path, self.ok, self.out, self.err, self.wall = path, ok, out, err, wall

    def error_line(self):
        m = re.search(r'line (\d+), characters', self.err or "")
        return int(m.group(1)) if m else None

    def failing_lemma(self):
        """Name of the lemma containing the error line (generated files put one lemma per block)."""
        ln = self.error_line()
        m = re.search(r'\(in proof ([A-Za-z0-9_\']+)\)', self.err or "")
        if m:
            return m.group(1)
        if ln is None:
            return None
        try:
            lines = open(self.path).read().split("\n")
        except OSError:
            return None
        for i in range(min(ln, len(lines)) - 1, -1, -1):
            m = re.match(r'\s*(Lemma|Theorem|Example|Corollary|Definition|Fixpoint)\s+([A-Za-z0-9_\']+)', lines[i])
            if m:
                return m.group(2)
        return None


def coqc(path, timeout=900):
    """Compile one .v file (path relative to coq/ or absolute) with a shell timeout."""
    ap = path if os.path.isabs(path) else os.path.join(COQ, path)
    t0 = time.time()
    rc, out, err = sh(["timeout", str(timeout), "coqc", "-Q", COQ, "UFLV", ap], timeout=timeout + 30, cwd=COQ)
    return CoqResult(ap, rc == 0, out, err, time.time() - t0)


def vo_fresh(vfile):
    vo = vfile[:-2] + ".vo"
    return os.path.exists(vo) and os.path.getmtime(vo) >= os.path.getmtime(vfile)


def ensure_core(extra=()):
    """Build Core (and the given hand-written files, in order) if their .vo are stale.  Serialised
    by a lock file so concurrently running checks do not race."""
    os.makedirs(GEN, exist_ok=True)
    with open(os.path.join(COQ, ".build.lock"), "w") as lock:
        fcntl.flock(lock, fcntl.LOCK_EX)
        rebuilt = False
        results = []
        for rel in list(CORE_FILES) + list(extra):
            ap = os.path.join(COQ, rel)
            if rebuilt or not vo_fresh(ap):
                r = coqc(rel)
                results.append(r)
                if not r.ok:
                    return False, results
                rebuilt = True if rel in CORE_FILES else rebuilt
        return True, results


def coqc_many(paths, timeout=900, jobs=NCPU):
    with cf.ThreadPoolExecutor(max_workers=jobs) as ex:
        return list(ex.map(lambda p: coqc(p, timeout), paths))


def count_obligations(vpath):
    """Obligations of a file = its Lemma/Theorem/Example/Corollary statements."""
    txt = open(vpath).read()
    txt = re.sub(r'\(\*.*?\*\)', '', txt, flags=re.S)
    return re.findall(r'^\s*(?:Lemma|Theorem|Example|Corollary)\s+([A-Za-z0-9_\']+)', txt, flags=re.M)


def assumptions_from_output(out):
    """Parse the output of `Print Assumptions` commands: returns {'closed': n, 'axioms': [...]}"""
    closed = len(re.findall(r'Closed under the global context', out))
    axioms = []
    for blk in re.findall(r'Axioms:\n((?:.+\n?)+?)(?:\n|$)', out):
        for ln in blk.split("\n"):
            m = re.match(r'^([A-Za-z0-9_.\']+)\s*:', ln)
            if m:
                axioms.append(m.group(1))
    return {"closed": closed, "axioms": sorted(set(axioms))}


FORBIDDEN = re.compile(r'\b(Admitted|admit|Axiom|Axioms|Parameter|Parameters|Conjecture|Abort All|'
                       r'Unset Guard Checking|Unset Positivity Checking|Unset Universe Checking|'
                       r'bypass_check|Admit Obligations|native_compute)\b')


def scan_forbidden(paths):
    bad = []
    for p in paths:
        txt = re.sub(r'\(\*.*?\*\)', '', open(p).read(), flags=re.S)
        for m in FORBIDDEN.finditer(txt):
            bad.append((p, m.group(1)))
    return bad


# ----------------------------------------------------------------------------------------------
# evidence / violations / known findings

class Run:
    def __init__(self, pid, tier=None, seed=None):
        self.pid = pid
        self.tier = tier or os.environ.get("VERIF_TIER", "quick")
        if self.tier not in ("quick", "thorough"):
            self.tier = "quick"
        self.seed = int(seed if seed is not None else os.environ.get("VERIF_SEED", "0") or 0)
        self.t0 = time.time()
        self.obligations = []        # (name, file)
        self.discharged = []
        self.failed = []             # (name, file, msg)
        self.samples = []
        self.trusted = set()
        self.assumptions = []
        self.extra = {}
        self.violations = []         # (replay_path, found_input, text)
        self.known_lines = []
        self.evaluations = 0
        self.distinct = set()
        self.checker_cmds = []

    # obligations -----------------------------------------------------------------------------
    def add_coq_result(self, res, names=None):
        names = names if names is not None else count_obligations(res.path)
        rel = os.path.relpath(res.path, COQ)
        for n in names:
            self.obligations.append((n, rel))
        if res.ok:
            self.discharged.extend((n, rel) for n in names)
            a = assumptions_from_output(res.out)
            for ax in a["axioms"]:
                self.trusted.add("axiom (Print Assumptions): " + ax)
            self.extra.setdefault("print_assumptions_closed", 0)
            self.extra["print_assumptions_closed"] += a["closed"]
        else:
            fl = res.failing_lemma()
            msg = (res.err or "").strip().split("\n")
            self.failed.append((fl or "?", rel, " ".join(msg[-3:])[:400]))
            # lemmas before the failing one were checked by coqc before it stopped
            if fl in names:
                self.discharged.extend((n, rel) for n in names[:names.index(fl)])

    def sample(self, s):
        if len(self.samples) < 12:
            self.samples.append(s)

    def count_case(self, canonical, nontrivial=True):
        self.evaluations += 1
        if nontrivial:
            self.distinct.add(hashlib.sha1(repr(canonical).encode()).hexdigest())

    # violations ------------------------------------------------------------------------------
    def violation(self, replay, found_input):
        os.makedirs(os.path.join(VERIF, "replays"), exist_ok=True)
        path = os.path.join(VERIF, "replays", f"{self.pid}-{self.tier}-{len(self.violations)}.json")
        replay = dict(replay)
        replay["property"] = self.pid
        replay["failing_input_found"] = bool(found_input)
        with open(path, "w") as f:
            json.dump(replay, f, indent=1, default=str)
        self.violations.append((path, found_input))
        tail = "" if found_input else " no-failing-input-found"
        print(f"VIOLATION property={self.pid} replay={path}{tail}", flush=True)

    def known(self, text):
        line = f"KNOWN-FINDING: property={self.pid} {text}"
        self.known_lines.append(line)
        print(line, flush=True)

    # evidence --------------------------------------------------------------------------------
    def finish(self, rule, level="proof", explanation=None, assumptions=()):
        cov = {
            "obligations": len(self.obligations),
            "discharged": len(self.discharged),
            "checker_cmd": "; ".join(self.checker_cmds) or "coqc -Q /verif/coq UFLV <file>",
            "trusted_base": sorted(self.trusted),
            "evaluations": self.evaluations,
            "distinct_nontrivial": len(self.distinct),
            "rule": rule,
            "samples": self.samples or [n for n, _ in self.obligations[:5]],
            "failed_obligations": [list(x) for x in self.failed][:20],
            "known_findings_reported": self.known_lines,
        }
        if explanation:
            cov["explanation"] = explanation
        cov.update(self.extra)
        ev = {
            "property_id": self.pid,
            "tier": self.tier,
            "seed": self.seed,
            "level": level,
            "coverage": cov,
            "assumptions": list(assumptions) + self.assumptions,
            "wall_s": round(time.time() - self.t0, 2),
            "violations": len(self.violations),
        }
        # runs against a scratch copy (UFL_REPO set: mutation self-tests) must not overwrite the evidence
        evdir = "evidence" if os.path.realpath(REPO) == "/repo" else "evidence-scratch"
        os.makedirs(os.path.join(VERIF, evdir), exist_ok=True)
        with open(os.path.join(VERIF, evdir, f"{self.pid}.json"), "w") as f:
            json.dump(ev, f, indent=1, default=str)
        print(f"[{self.pid}] tier={self.tier} obligations={len(self.obligations)} "
              f"discharged={len(self.discharged)} cases={self.evaluations} "
              f"violations={len(self.violations)} wall={ev['wall_s']}s", flush=True)
        return 1 if self.violations else 0


def coqchk(hand_files, timeout=3000):
    """Independent re-check of the compiled hand-written files of a property (thorough tier): returns
    (ok, summary dict with axioms / type-in-type / unsafe fixpoints / assumed positivity, raw tail)."""
    mods = ["UFLV." + f[:-2].replace("/", ".") for f in hand_files]
    if not mods:
        return True, {}, ""
    rc, out, err = sh(["timeout", str(timeout), "coqchk", "-silent", "-o", "-Q", COQ, "UFLV"] + mods,
                      timeout=timeout + 30, cwd=COQ)
    txt = out + err
    summ = {}
    for key, pat in (("axioms", r"\* Axioms:(.*?)\n\s*\n\* Constants"),
                     ("type_in_type", r"relying on type-in-type:(.*?)\n\s*\n\*"),
                     ("unsafe_fixpoints", r"relying on unsafe \(co\)fixpoints:(.*?)\n\s*\n\*"),
                     ("assumed_positivity", r"positivity is assumed:(.*?)(?:\n\s*\n|$)")):
        m = re.search(pat, txt, flags=re.S)
        summ[key] = re.sub(r"\s+", " ", m.group(1)).strip() if m else "?"
    if rc in (124, 137) or (rc != 0 and not txt.strip()):
        # killed by the time limit (loaded machine): not a verdict about the development, which coqc accepted
        return None, summ, f"coqchk did not finish within {timeout} s"
    return rc == 0, summ, txt[-600:]


def load_known_findings(pid):
    """Open known findings of a property: known_findings.json (merged, committed) and known/<pid>.json."""
    out, seen = [], set()
    for p in (os.path.join(VERIF, "known_findings.json"), os.path.join(VERIF, "known", f"{pid}.json")):
        try:
            data = json.load(open(p))
        except FileNotFoundError:
            continue
        for k in data.get("findings", []):
            if k.get("property") == pid and k.get("status") == "open" and k.get("id") not in seen:
                seen.add(k.get("id"))
                out.append(k)
    return out


def run_repo_python(script, args=(), timeout=900, env=None, input=None):
    """Run a harness script with /repo on the path in a fresh interpreter; returns (rc, out, err)."""
    return sh([PY, script] + list(args), timeout=timeout, env=repo_env(env), input=input, cwd=VERIF)
