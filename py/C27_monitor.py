"""C27 monitor harness (validation + search oracle): snapshot everything the property names (repr, hash,
signature, arguments, coefficients, integral metadata - deep) of every object in a pool before and after
every public algorithm / form operator, applied in seeded random sequences on generated forms."""

import copy
import itertools
import random

import numpy as np

import ufl
from ufl import (
    Coefficient, Constant, FunctionSpace, Measure, Mesh, TestFunction, TrialFunction, action, adjoint,
    derivative, dS, ds, dx, grad, inner, lhs, rhs, system, triangle,
)
from ufl.algorithms import (
    compute_form_data, estimate_total_polynomial_degree, expand_derivatives, expand_indices, replace,
)
from ufl.algorithms.renumbering import renumber_indices
from ufl.algorithms.signature import compute_form_signature
from ufl.classes import Action, Adjoint, BaseForm, Cofunction, Form, FormSum, Integral, Matrix
from ufl.core.expr import Expr
from ufl.pullback import identity_pullback
from ufl.sobolevspace import H1

import elements


def FE(cell, deg, shape=()):
    return elements.FiniteElement("Lagrange", cell, deg, shape, identity_pullback, H1)


class InputChanged(Exception):
    """Raised by an operation that checked its own (temporary) inputs."""


class SubdomainData:
    def __init__(self, n):
        self.n = n

    def __repr__(self):
        return f"SubdomainData({self.n})"


def freeze(x):
    """Deep, comparable copy of a metadata value."""
    if isinstance(x, dict):
        return ("dict", tuple((k, freeze(v)) for k, v in x.items()))
    if isinstance(x, (list, tuple)):
        return (type(x).__name__, tuple(freeze(v) for v in x))
    if isinstance(x, np.ndarray):
        return ("ndarray", x.shape, x.dtype.str, x.tobytes())
    return (type(x).__name__, repr(x))


def safe(f):
    try:
        return f()
    except RecursionError:
        return "ERR RecursionError"
    except Exception as ex:      # noqa: BLE001
        return "ERR " + type(ex).__name__


def cyclic(o, limit=200000):
    """True if the operand graph below expression o contains a cycle (iterative DFS, colouring)."""
    if not isinstance(o, Expr):
        return False
    done, onpath = set(), set()
    stack = [(o, iter(o.ufl_operands))]
    onpath.add(id(o))
    n = 0
    while stack:
        node, it = stack[-1]
        n += 1
        if n > limit:
            return True
        child = next(it, None)
        if child is None:
            stack.pop()
            onpath.discard(id(node))
            done.add(id(node))
            continue
        if id(child) in onpath:
            return True
        if id(child) in done:
            continue
        onpath.add(id(child))
        stack.append((child, iter(child.ufl_operands)))
    return False


def abs_self_cycles(o):
    """Abs nodes below o that are their own operand (the footprint of Abs.__init__ re-running on the
    object returned by Abs.__new__)."""
    found, seen, stack = [], set(), [o]
    while stack:
        n = stack.pop()
        if id(n) in seen or not isinstance(n, Expr):
            continue
        seen.add(id(n))
        if type(n).__name__ == "Abs" and len(n.ufl_operands) == 1 and n.ufl_operands[0] is n:
            found.append(n)
            continue
        stack.extend(n.ufl_operands)
    return found


def snapshot(o):
    """Everything the property names, EXCEPT the freshly computed signature (computing it is itself an
    operation of the library that must not change anything: see Pool.signatures)."""
    if isinstance(o, Expr) and cyclic(o):
        return {"type": type(o).__name__, "repr": "CYCLIC OPERAND GRAPH", "hash": None}
    if isinstance(o, Form) and any(cyclic(i.integrand()) for i in o.integrals()):
        return {"type": "Form", "repr": "CYCLIC OPERAND GRAPH", "hash": None}
    s = {"type": type(o).__name__, "repr": safe(lambda: repr(o)), "hash": safe(lambda: hash(o))}
    if isinstance(o, Form):
        s["arguments"] = safe(lambda: tuple(repr(a) for a in o.arguments()))
        s["coefficients"] = safe(lambda: tuple(repr(c) for c in o.coefficients()))
        s["constants"] = safe(lambda: tuple(repr(c) for c in o.constants()))
        s["integrals"] = tuple(
            (id(i), id(i.metadata()), freeze(i.metadata()), i.subdomain_id(), i.integral_type(),
             id(i.subdomain_data()), safe(lambda i=i: repr(i.integrand())), id(i.integrand()))
            for i in o.integrals())
        s["cache"] = freeze(getattr(o, "_cache", {}))
        s["subdomain_data"] = safe(lambda: repr(o.subdomain_data()))
    elif isinstance(o, BaseForm):
        s["arguments"] = safe(lambda: tuple(repr(a) for a in o.arguments()))
        s["coefficients"] = safe(lambda: tuple(repr(c) for c in o.coefficients()))
        # by value, not identity: FormSum((S, 1)) returns S and re-runs __init__ on it, which rebuilds equal
        # component objects (same repr / hash / arguments / coefficients): not a change the property names
        s["operands"] = safe(lambda: tuple(repr(x) for x in o.ufl_operands))
        if hasattr(o, "components"):
            s["components"] = safe(lambda: tuple(repr(x) for x in o.components()))
            s["weights"] = safe(lambda: repr(list(o.weights())))
    elif isinstance(o, Expr):
        s["shape"] = safe(lambda: (o.ufl_shape, o.ufl_free_indices, o.ufl_index_dimensions))
        s["str"] = safe(lambda: str(o))
    elif isinstance(o, Measure):
        s["metadata"] = (id(o.metadata()), freeze(o.metadata()))
    elif isinstance(o, dict):
        s["content"] = freeze(o)
    return s


def fresh_signature(o):
    return safe(lambda: compute_form_signature(o, o._compute_renumbering()))


class Pool:
    def __init__(self, seed):
        r = self.rng = random.Random(seed)
        m = self.mesh = Mesh(FE(triangle, 1, (2,)), 9900 + seed % 50)
        self.V = FunctionSpace(m, FE(triangle, r.choice((1, 2))))
        self.W = FunctionSpace(m, FE(triangle, 1, (2,)))
        self.u, self.v = TrialFunction(self.V), TestFunction(self.V)
        self.f, self.g = Coefficient(self.V), Coefficient(self.V)
        self.w = Coefficient(self.W)
        self.c = Constant(m)
        self.sd = [SubdomainData(1), None]
        self.user_dicts = []
        self.objs = []           # (name, object)
        self.snaps = []
        self.sigs = []
        self.measures = []
        for _ in range(3):
            self.measures.append(self.measure())
        for k in range(3):
            self.add(f"form{k}", self.form())
        for k in range(4):
            self.add(f"expr{k}", self.expr())
        self.add("abs_f", abs(self.f))
        self.add("conj_g", ufl.conj(self.g))
        # matrix-valued expressions: component tensors, transposes and index permutations of them, nested
        for k in range(4):
            self.add(f"tensor{k}", self.tensor(self.rng.randrange(1, 4)))
        # structurally different expressions with naturally colliding hashes (see C13_harness): == has to walk them
        import C13_harness as Hn
        self.collisions = []
        for k, (label, a, b) in enumerate(Hn.hash_collision_pairs(Hn.ExprGen(seed))[:: 3][:5]):
            self.add(f"coll{k}a", a)
            self.add(f"coll{k}b", b)
            self.collisions.append((f"coll{k}a", a, f"coll{k}b", b))
        # base forms: cofunctions, a matrix, genuine FormSums (Form + Cofunction / Form + Matrix)
        self.cof = [Cofunction(self.V.dual()), Cofunction(self.V.dual())]
        self.mat = Matrix(self.V, self.V)
        lin, bil = self.f * self.v * dx(m), self.u * self.v * dx(m)
        for nm, o in (("cof0", self.cof[0]), ("cof1", self.cof[1]), ("matrix", self.mat), ("lin", lin), ("bil", bil),
                      ("formsum_lin", lin + self.cof[0]), ("formsum_bil", bil + self.mat),
                      ("formsum_w", lin + 2 * self.cof[1]), ("formsum_3", FormSum((lin, 1), (self.cof[0], 3), (self.cof[1], -1)))):
            self.add(nm, o)
        for k, d in enumerate(self.user_dicts):
            self.add(f"userdict{k}", d)
        for k, ms in enumerate(self.measures):
            self.add(f"measure{k}", ms)

    def add(self, name, o):
        self.objs.append((name, o))
        self.snaps.append(snapshot(o))
        self.sigs.append(None)
        if isinstance(o, Form) and self.snaps[-1]["repr"] != "CYCLIC OPERAND GRAPH":
            self.sigs[-1] = fresh_signature(o)
            ch = self.core_changes()
            if ch:
                raise InputChanged(f"compute_form_signature({name})", ch,
                                   {n: sn["repr"][:600] for (n, _), sn in zip(self.objs, self.snaps)
                                    if n in {c[0] for c in ch}})

    def metadata(self):
        r = self.rng
        k = r.randrange(6)
        md = [None, {}, {"quadrature_degree": r.randrange(1, 5)},
              {"quadrature_degree": 2, "quadrature_rule": "vertex"},
              {"opts": {"a": [1, 2, {"b": 3}], "flag": True}, "quadrature_degree": 3},
              {"weights": np.array([0.5, 0.25, 0.25]), "points": [[0.0, 0.0], [1.0, 0.0]]}][k]
        if md is not None:
            self.user_dicts.append(md)
        return md

    def measure(self):
        r = self.rng
        base = r.choice((dx, ds, dS))
        sid = r.choice((None, 1, 2, (1, 2), (2, 3)))
        kw = {}
        md = self.metadata()
        if md is not None:
            kw["metadata"] = md
        if r.random() < 0.3:
            kw["degree"] = r.randrange(1, 4)
        if r.random() < 0.3:
            kw["subdomain_data"] = self.sd[0]
        if sid is None and not kw:
            return base(self.mesh)
        return base(sid if sid is not None else self.mesh, **({"domain": self.mesh} if sid is not None else {}), **kw)

    def scalar(self, d=2):
        r = self.rng
        atoms = [self.f, self.g, self.c, self.w[0], ufl.as_ufl(2.0), abs(self.f), ufl.conj(self.g)]
        if d == 0:
            return r.choice(atoms)
        k = r.randrange(9)
        a, b = self.scalar(d - 1), self.scalar(d - 1)
        return [lambda: a + b, lambda: a * b, lambda: ufl.sin(a), lambda: a ** 2,
                lambda: abs(a) if not isinstance(a, ufl.classes.Abs) else a,   # abs(Abs) corrupts its operand (known)
                lambda: inner(grad(a), self.w) if not isinstance(a, ufl.classes.ScalarValue) else a,
                lambda: ufl.conditional(ufl.lt(a, b), a, b), lambda: ufl.variable(a) * b,
                lambda: a / (1 + b * b)][k]()

    def tensor(self, d):
        """A 2x2 matrix expression built from component tensors, transposes, index permutations, sym/skew/dev."""
        r = self.rng
        w = self.w
        if d == 0:
            i, j = ufl.indices(2)
            return r.choice([lambda: ufl.as_tensor(w[i] * w[j], (i, j)), lambda: ufl.outer(w, w), lambda: ufl.grad(w),
                             lambda: ufl.as_tensor(self.f * w[i] * w[j], (i, j)),
                             lambda: ufl.as_matrix([[self.f, self.g], [self.c, self.f]])])()
        a = self.tensor(d - 1)
        k, l = ufl.indices(2)
        return r.choice([lambda: ufl.transpose(a), lambda: ufl.as_tensor(a[l, k], (k, l)),
                         lambda: ufl.as_tensor(ufl.transpose(a)[l, k], (k, l)), lambda: ufl.as_tensor(a[k, l], (k, l)),
                         lambda: ufl.sym(a), lambda: ufl.skew(a), lambda: ufl.dev(a), lambda: a + ufl.transpose(a),
                         lambda: self.f * a, lambda: ufl.dot(a, a)])()

    def expr(self):
        for _ in range(5):
            try:
                return self.scalar(self.rng.randrange(1, 3))
            except Exception:    # noqa: BLE001
                continue
        return self.f

    def integrand(self, arity):
        r = self.rng
        k = self.expr()
        is_interior = False
        if arity == 2:
            e = r.choice([lambda: k * self.u * self.v, lambda: inner(grad(self.u), grad(self.v)),
                          lambda: k * inner(grad(self.u), grad(self.v)) + self.u * self.v])()
        elif arity == 1:
            e = r.choice([lambda: k * self.v, lambda: inner(grad(self.f), grad(self.v)) * k, lambda: self.f * self.v])()
        else:
            e = k * k
        return e

    def form(self):
        r = self.rng
        arity = r.choice((0, 1, 2, 2))
        total = None
        for _ in range(r.randrange(1, 4)):
            ms = r.choice(self.measures)
            try:
                e = ufl.as_ufl(self.integrand(arity))
                if ms.integral_type().startswith("interior_facet"):
                    e = e("+")
                t = e * ms
            except Exception:    # noqa: BLE001
                continue
            total = t if total is None else total + t
        if total is None:
            total = (self.f * self.v if arity == 1 else self.u * self.v if arity == 2 else self.f * self.f) * dx(self.mesh)
        return total

    # ---- pool access ---------------------------------------------------------------------------
    def pick(self, pred):
        c = [(n, o) for n, o in self.objs if pred(o)]
        return self.rng.choice(c) if c else (None, None)

    def core_changes(self):
        out = []
        for (n, o), s in zip(self.objs, self.snaps):
            t = snapshot(o)
            for k in s:
                if s[k] != t.get(k):
                    x, y = str(s[k]), str(t.get(k))
                    i = next((j for j in range(min(len(x), len(y))) if x[j] != y[j]), min(len(x), len(y)))
                    lo = max(0, i - 120)
                    out.append((n, k, ("..." if lo else "") + x[lo:i + 180], ("..." if lo else "") + y[lo:i + 180]))
        # most specific evidence first (metadata / integrals before the long repr)
        out.sort(key=lambda c: (c[1] in ("repr", "str"), c[0]))
        return out

    def changed(self):
        """-> (changes, culprit): changes of any pooled object since it was pooled; culprit is None when the
        last operation did it, or the name of the form whose fresh signature computation did it."""
        ch = self.core_changes()
        if ch:
            return ch, None
        for i, ((n, o), sg) in enumerate(zip(self.objs, self.sigs)):
            if sg is None:
                continue
            t = fresh_signature(o)
            ch = self.core_changes()
            if ch:
                return ch, n
            if t != sg:
                return [(n, "signature_fresh", str(sg)[:40], str(t)[:40])], None
        return [], None


def is_form(o):
    return isinstance(o, Form)


def is_expr(o):
    return isinstance(o, Expr)


CFD_OPTIONS = ["do_apply_function_pullbacks", "do_apply_integral_scaling", "do_apply_geometry_lowering",
               "do_estimate_degrees", "do_append_everywhere_integrals", "complex_mode", "do_apply_restrictions",
               "do_apply_default_restrictions", "do_remove_component_tensors", "do_cancel_jacobian_products"]


def staged(desc, x, *fns):
    """fns[-1](...fns[0](x)): every intermediate value is an INPUT of the next stage and must be unchanged by it."""
    for k, fn in enumerate(fns):
        y = fn(x)
        if k + 1 < len(fns) and isinstance(y, (BaseForm, Expr)):
            before = snapshot(y)
            z = fns[k + 1](y)
            after = snapshot(y)
            if after != before:
                keys = [key for key in before if before[key] != after.get(key)]
                raise InputChanged(f"{desc}: stage {k + 2} changed its input (the result of stage {k + 1})",
                                   [("<intermediate>", key, str(before[key])[:300], str(after.get(key))[:300])
                                    for key in keys], {"<intermediate>": before["repr"][:600]})
            # continue the chain from z without recomputing
            x, fns_rest = z, fns[k + 2:]
            return staged(desc, x, *fns_rest) if fns_rest else z
        x = y
    return x


def operations():
    """name -> function(pool, rng) returning (description, result or None)"""
    import importlib
    cfd_mod = importlib.import_module("ufl.algorithms.compute_form_data")
    da = importlib.import_module("ufl.algorithms.domain_analysis")
    ais = importlib.import_module("ufl.algorithms.apply_integral_scaling")
    from ufl.algorithms.apply_algebra_lowering import apply_algebra_lowering
    from ufl.algorithms.apply_derivatives import apply_derivatives
    from ufl.algorithms.apply_function_pullbacks import apply_function_pullbacks
    from ufl.algorithms.apply_geometry_lowering import apply_geometry_lowering
    from ufl.algorithms.apply_restrictions import apply_restrictions
    from ufl.algorithms.remove_complex_nodes import remove_complex_nodes

    def form_op(fn, name):
        def op(pool, r):
            n, a = pool.pick(is_form)
            return f"{name}({n})", fn(a)
        return op

    def cfd(pool, r):
        n, a = pool.pick(is_form)
        opts = {k: r.random() < 0.5 for k in CFD_OPTIONS}
        if opts["do_cancel_jacobian_products"] and not opts["do_apply_geometry_lowering"]:
            opts["do_cancel_jacobian_products"] = False
        fd = compute_form_data(a, **opts)
        return f"compute_form_data({n}, {opts})", fd.preprocessed_form

    def op_replace(pool, r):
        n, a = pool.pick(lambda o: is_form(o) or is_expr(o))
        return f"replace({n}, {{f: g}})", replace(a, {pool.f: pool.g})

    def op_derivative(pool, r):
        n, a = pool.pick(is_form)
        return f"derivative({n}, f)", derivative(a, pool.f)

    def op_action(pool, r):
        n, a = pool.pick(lambda o: is_form(o) and len(o.arguments()) >= 1)
        return f"action({n}, g)", action(a, pool.g)

    def op_adjoint(pool, r):
        n, a = pool.pick(lambda o: is_form(o) and len(o.arguments()) == 2)
        return f"adjoint({n})", adjoint(a)

    def op_lhs_rhs(pool, r):
        n, a = pool.pick(lambda o: is_form(o) and len(o.arguments()) >= 1)
        k = r.randrange(3)
        return [f"lhs({n})", f"rhs({n})", f"system({n})"][k], [lambda: lhs(a), lambda: rhs(a), lambda: system(a)[0]][k]()

    def op_eq(pool, r):
        n1, a = pool.pick(lambda o: is_form(o) or is_expr(o))
        n2, b = pool.pick(lambda o: type(o) is type(a))
        x = a.equals(b) if is_form(a) else (a == b)
        bool(x)
        hash(a)
        return f"{n1} == {n2}; hash({n1})", None

    def op_eq_rebuilt(pool, r):
        n1, a = pool.pick(lambda o: is_expr(o) and not o._ufl_is_terminal_)
        b = a._ufl_expr_reconstruct_(*a.ufl_operands)
        bool(a == b)
        bool(b == a)
        return f"{n1} == rebuild({n1})", b

    def op_eq_weak(pool, r):
        """== on fresh copies with all cached hashes forced to 0 (a legal, if poor, hash function): the
        copies are inputs of == and must keep their repr."""
        import C13_harness as Hn
        n1, a = pool.pick(lambda o: is_expr(o) and not o._ufl_is_terminal_)
        n2, b = pool.pick(lambda o: is_expr(o) and not o._ufl_is_terminal_)
        v, v2, same = Hn.weak_hash_verdict(a, b)
        if not same:
            raise InputChanged(f"weak-hash {n1} == {n2}", "repr of a compared copy changed")
        return f"weak-hash {n1} == {n2}", None

    def op_eq_collision(pool, r):
        na, a, nb, b = pool.rng.choice(pool.collisions)
        if r.random() < 0.5:
            na, a, nb, b = nb, b, na, a
        bool(a == b)
        return f"{na} == {nb}   (equal hashes, different structure)", None

    def op_signature(pool, r):
        n, a = pool.pick(is_form)
        a.signature()
        return f"{n}.signature()", None

    def op_degree(pool, r):
        n, a = pool.pick(lambda o: is_form(o) or is_expr(o))
        estimate_total_polynomial_degree(a)
        return f"estimate_total_polynomial_degree({n})", None

    def op_arith(pool, r):
        n1, a = pool.pick(is_form)
        n2, b = pool.pick(lambda o: is_form(o) and len(o.arguments()) == len(a.arguments()))
        k = r.randrange(4)
        return [f"{n1} + {n2}", f"{n1} - {n2}", f"-{n1}", f"2*{n1}"][k], \
            [lambda: a + b, lambda: a - b, lambda: -a, lambda: 2 * a][k]()

    def op_unary(pool, r):
        n, a = pool.pick(lambda o: is_expr(o) and o.ufl_shape == () and not o.ufl_free_indices)
        k = r.randrange(8)
        names = ["abs", "conj", "real", "imag", "neg", "sqrt", "exp", "variable"]
        fns = [abs, ufl.conj, ufl.real, ufl.imag, lambda x: -x, ufl.sqrt, ufl.exp, ufl.variable]
        return f"{names[k]}({n})", fns[k](a)

    def op_binary(pool, r):
        n1, a = pool.pick(lambda o: is_expr(o) and o.ufl_shape == () and not o.ufl_free_indices)
        n2, b = pool.pick(lambda o: is_expr(o) and o.ufl_shape == () and not o.ufl_free_indices)
        k = r.randrange(5)
        names = ["+", "*", "/", "**", "max_value"]
        fns = [lambda x, y: x + y, lambda x, y: x * y, lambda x, y: x / (1 + y * y), lambda x, y: x ** 2,
               ufl.max_value]
        return f"{n1} {names[k]} {n2}", fns[k](a, b)

    def op_integrate(pool, r):
        n, a = pool.pick(lambda o: is_expr(o) and o.ufl_shape == () and not o.ufl_free_indices)
        n2, ms = pool.pick(lambda o: isinstance(o, Measure))
        if ms.integral_type().startswith("interior_facet"):
            a = ufl.as_ufl(a)("+")
        return f"{n} * {n2}", a * ms

    def op_measure(pool, r):
        n, ms = pool.pick(lambda o: isinstance(o, Measure))
        k = r.randrange(5)
        if k >= 3:
            n2, md = pool.pick(lambda o: isinstance(o, dict))
            if md is not None:
                if k == 3:
                    return f"{n}(2, {n2}, degree=2, scheme='vertex')", ms(2, md, degree=2, scheme="vertex")
                return f"{n}(metadata={n2}, degree=1)", ms(metadata=md, degree=1)
        if k == 0:
            return f"{n}(degree=3)", ms(degree=3)
        if k == 1:
            return f"{n}(1, metadata={{'q': 1}})", ms(1, {"q": 1})
        return f"{n}.reconstruct(subdomain_id=4)", ms.reconstruct(subdomain_id=4)

    def op_expr_alg(pool, r):
        n, a = pool.pick(is_expr)
        k = r.randrange(5)
        names = ["expand_derivatives", "apply_algebra_lowering", "renumber_indices", "expand_indices",
                 "remove_complex_nodes"]
        fns = [expand_derivatives, apply_algebra_lowering, renumber_indices,
               lambda e: expand_indices(apply_algebra_lowering(e)), remove_complex_nodes]
        return f"{names[k]}({n})", fns[k](a)

    def arity(o):
        return len(o.arguments())

    def op_baseform(pool, r):
        """Base-form algebra: sums / differences / scalings of Forms, Cofunctions, Matrices, FormSums ..."""
        n1, a = pool.pick(lambda o: isinstance(o, BaseForm))
        n2, b = pool.pick(lambda o: isinstance(o, BaseForm) and arity(o) == arity(a))
        n3, c = pool.pick(lambda o: isinstance(o, BaseForm) and arity(o) == arity(a))
        names = [f"{n1} + {n2}", f"{n1} - {n2}", f"-{n1}", f"3*{n1}", f"FormSum(({n1}, 2), ({n2}, -1))",
                 f"FormSum(({n1}, 1), ({n2}, 1), ({n3}, 1))", f"({n1} + {n2}) + {n3}", f"action({n1}, g)",
                 f"adjoint({n1})", f"FormSum(({n1}, 1))", f"type({n1})(*operands)"]
        fns = [lambda: a + b, lambda: a - b, lambda: -a, lambda: 3 * a, lambda: FormSum((a, 2), (b, -1)),
               lambda: FormSum((a, 1), (b, 1), (c, 1)), lambda: (a + b) + c, lambda: action(a, pool.g),
               lambda: adjoint(a), lambda: FormSum((a, 1)), lambda: a._ufl_expr_reconstruct_(*a.ufl_operands)]
        k = r.randrange(len(fns))
        return names[k], fns[k]()

    def op_baseform_alg(pool, r):
        """map_integrands-based algorithms applied DIRECTLY to base forms (FormSum, Cofunction, Matrix, Action ...)"""
        n1, a = pool.pick(lambda o: isinstance(o, BaseForm) and not isinstance(o, Form))
        k = r.randrange(8)
        names = [f"derivative({n1}, f)", f"apply_derivatives({n1})", f"apply_algebra_lowering({n1})",
                 f"expand_derivatives({n1})", f"replace({n1}, {{f: g}})", f"apply_derivatives(derivative({n1}, f))",
                 f"apply_derivatives(derivative({n1}, u))", f"renumber_indices({n1})"]
        fns = [lambda: derivative(a, pool.f), lambda: apply_derivatives(a), lambda: apply_algebra_lowering(a),
               lambda: expand_derivatives(a), lambda: replace(a, {pool.f: pool.g}),
               lambda: staged(names[5], a, lambda x: derivative(x, pool.f), apply_derivatives),
               lambda: staged(names[6], a, lambda x: derivative(x, pool.f, pool.u), apply_derivatives),
               lambda: renumber_indices(a)]
        return names[k], fns[k]()

    def op_reapply(pool, r):
        """Apply the constructor of a pooled unary operator node to the node itself: Abs(Abs(x)), ..."""
        n, a = pool.pick(lambda o: is_expr(o) and not o._ufl_is_terminal_ and len(o.ufl_operands) == 1
                         and o.ufl_shape == ())
        return f"{type(a).__name__}({n})", type(a)(a)

    ops = {
        "reapply_constructor": op_reapply,
        "baseform_algebra": op_baseform,
        "baseform_algorithms": op_baseform_alg,
        "baseform_algorithms2": op_baseform_alg,
        "baseform_algebra2": op_baseform,
        "compute_form_data": cfd,
        "expand_derivatives": form_op(expand_derivatives, "expand_derivatives"),
        "apply_algebra_lowering": form_op(apply_algebra_lowering, "apply_algebra_lowering"),
        "apply_derivatives": form_op(lambda a: staged("apply_derivatives.lowering", a, apply_algebra_lowering,
                                                      apply_derivatives), "apply_derivatives.lowering"),
        "apply_function_pullbacks": form_op(lambda a: staged("apply_function_pullbacks.lowering", a,
                                                             apply_algebra_lowering, apply_function_pullbacks),
                                            "apply_function_pullbacks.lowering"),
        "apply_integral_scaling": form_op(ais.apply_integral_scaling, "apply_integral_scaling"),
        "apply_geometry_lowering": form_op(lambda a: staged("apply_geometry_lowering.scaling", a,
                                                            ais.apply_integral_scaling, apply_geometry_lowering),
                                           "apply_geometry_lowering.scaling"),
        "apply_restrictions": form_op(lambda a: Form([apply_restrictions(i) for i in apply_algebra_lowering(a).integrals()]),
                                      "apply_restrictions.lowering"),
        "attach_estimated_degrees": form_op(cfd_mod.attach_estimated_degrees, "attach_estimated_degrees"),
        "group_form_integrals": form_op(lambda a: da.group_form_integrals(a, a.ufl_domains()), "group_form_integrals"),
        "renumber_indices": form_op(renumber_indices, "renumber_indices"),
        "remove_complex_nodes": form_op(lambda a: staged("remove_complex_nodes.lowering", a, apply_algebra_lowering,
                                                         remove_complex_nodes), "remove_complex_nodes.lowering"),
        "replace": op_replace, "derivative": op_derivative, "action": op_action, "adjoint": op_adjoint,
        "lhs_rhs_system": op_lhs_rhs, "eq_hash": op_eq, "eq_weak_hash": op_eq_weak, "eq_hash_collision": op_eq_collision, "eq_rebuilt": op_eq_rebuilt, "signature": op_signature,
        "degree": op_degree, "form_arith": op_arith, "unary": op_unary, "binary": op_binary,
        "integrate": op_integrate, "measure": op_measure, "expr_algorithms": op_expr_alg,
    }
    return ops


def run_history(seed, length, ops, only=None):
    """Run one seeded history; returns (log, failure or None).  `only`: indices of steps to execute
    (for shrinking; the random stream is consumed identically)."""
    try:
        pool = Pool(seed)
    except InputChanged as ex:
        return [(-1, ex.args[0])], {"step": -1, "operation": ex.args[0], "changed": ex.args[1][:6], "seed": seed,
                                    "abs_self_cycles": {}, "objects": ex.args[2] if len(ex.args) > 2 else {}}
    r = random.Random(seed * 1000003 + 17)
    names = sorted(ops)
    log = []
    for step in range(length):
        name = r.choice(names)
        sub = random.Random(r.randrange(1 << 30))
        pool.rng = random.Random(sub.randrange(1 << 30))
        if only is not None and step not in only:
            continue
        try:
            desc, res = ops[name](pool, sub)
        except InputChanged as ex:
            log.append((step, ex.args[0]))
            chg = ex.args[1] if isinstance(ex.args[1], list) else [("<copy>", "repr", "", ex.args[1])]
            return log, {"step": step, "operation": ex.args[0], "changed": chg[:6],
                         "seed": seed, "abs_self_cycles": {}, "objects": ex.args[2] if len(ex.args) > 2 else {}}
        except RecursionError:
            desc, res = f"{name}: RecursionError", None
        except (KeyboardInterrupt, SystemExit):
            raise
        except BaseException as ex:      # noqa: BLE001  (an operation may reject its input - ComplexComparisonError
            # derives from BaseException; inputs must still be intact)
            desc, res = f"{name}: raised {type(ex).__name__}", None
        log.append((step, desc))
        if res is not None and isinstance(res, Expr) and cyclic(res):
            res = None
        ch, culprit = pool.changed()
        if ch and culprit is not None:
            desc = f"compute_form_signature({culprit})   [after: {desc}]"
            log[-1] = (step, desc)
        if ch:
            names_changed = {c[0] for c in ch}
            footprint = {n: (len(abs_self_cycles(o)) if isinstance(o, Expr) else
                             sum(len(abs_self_cycles(i.integrand())) for i in o.integrals()) if isinstance(o, Form)
                             else 0)
                         for n, o in pool.objs if n in names_changed}
            return log, {"step": step, "operation": desc, "changed": ch[:6], "seed": seed,
                         "abs_self_cycles": footprint,
                         "objects": {n: pool.snaps[i]["repr"][:400] for i, (n, o) in enumerate(pool.objs)
                                     if n in {c[0] for c in ch}}}
        if res is not None and isinstance(res, (BaseForm, Expr, Measure)) and len(pool.objs) < 48:
            pool.add(f"r{step}", res)
    return log, None


def shrink(seed, length, ops, failure):
    """Greedy removal of steps while the history still fails."""
    keep = list(range(failure["step"] + 1))
    i = 0
    best = failure
    while i < len(keep) - 1:
        trial = keep[:i] + keep[i + 1:]
        try:
            _, f = run_history(seed, length, ops, only=set(trial))
        except Exception:    # noqa: BLE001
            f = None
        if f is not None:
            keep, best = trial, f
        else:
            i += 1
    return keep, best
