"""C24, tie T3: seeded generator of closed UFL expressions, exact mappings, the differential run of
the REAL `e(x, mapping, component)` / `expand_derivatives(e).evaluate(...)` against py/pyden.py (the
mirror of den), and the serialisation of every run as a Coq `Example` about the hand model."""

import collections
import itertools
import math
import numbers
import random
import warnings
from fractions import Fraction as Fr

import ufl
import ufl.classes as C
from ufl.algorithms import expand_derivatives
from ufl.core.multiindex import Index, MultiIndex
from ufl.utils.stacks import StackDict

import pyden
import ufl2coq
import uflgen

CELL = "triangle"
GDIM = 2


GDIMS = {"interval": 1, "triangle": 2, "tetrahedron": 3}
N_TAU = 2


class Terminals:
    """The terminal alphabet of one run (fresh objects, so counts are stable inside a case)."""

    def __init__(self, cell=CELL):
        g = GDIMS[cell]
        self.cell, self.g = cell, g
        self.f = [uflgen.coef((), cell) for _ in range(3)]
        self.v = [uflgen.coef((g,), cell) for _ in range(2)]
        self.M = [uflgen.coef((g, g), cell) for _ in range(2)]
        self.k = [uflgen.const((), cell)]
        self.kv = [uflgen.const((g,), cell)]
        self.N4 = [uflgen.coef((4, 4), cell) for _ in range(2)]
        self.R = [uflgen.coef((2, 3), cell)]
        self.T3 = [uflgen.coef((2, 2, 2), cell)]
        self.x = ufl.SpatialCoordinate(uflgen.mesh(cell))
        # perturbation parameters of the diff() oracle: never part of an expression given to the real code
        self.taus = [uflgen.const((), cell) for _ in range(N_TAU)]
        self.all = self.f + self.v + self.M + self.k + self.kv + self.N4 + self.R + self.T3


class DenEnv(pyden.Env):
    """Terminal values: polynomial fields in the gdim spatial variables (callables in the mapping) or
    constants (plain values).  N_TAU extra jet variables carry the perturbations of the diff() oracle."""

    def __init__(self, seed, plain, gdim=GDIM, taus=()):
        super().__init__(nv=gdim + N_TAU, order=3, seed=seed, degree=2)
        self.gdim = gdim
        self.plain = plain          # set of id()s of terminals given as plain values
        self.taus = {id(t): gdim + k for k, t in enumerate(taus)}

    def side_dependent(self, t):
        return False

    def field(self, key, constant=False):
        if key in self.cache:
            return self.cache[key]
        c = {}
        deg = 0 if constant else self.degree
        pad = (0,) * N_TAU
        for a in itertools.product(range(deg + 1), repeat=self.gdim):
            if sum(a) <= deg and sum(a) <= self.order:
                v = Fr(self.rng.randint(-5, 5), self.rng.choice([1, 2, 3]))
                if v != 0:
                    c[a + pad] = v
        z = (0,) * self.nv
        if c.get(z, 0) == 0:
            c[z] = Fr(self.rng.randint(2, 9), 3)
        j = pyden.Jet(self.nv, self.order, c)
        self.cache[key] = j
        return j

    def value(self, t, comp, side):
        name = type(t).__name__
        if name == "SpatialCoordinate":
            return self.t_SpatialCoordinate(t, comp, side)
        if id(t) in self.taus:
            return pyden.Jet.var(self.nv, self.order, self.taus[id(t)], 0)
        key = (ufl2coq.Ctx.term_key(t), tuple(comp), None)
        return self.field(key, constant=(name == "Constant" or id(t) in self.plain))


def nested(shape, fn, prefix=()):
    if not shape:
        return fn(prefix)
    return tuple(nested(shape[1:], fn, prefix + (k,)) for k in range(shape[0]))


def make_mapping(T, env, rng, log):
    """mapping for the real code.  Callables log (terminal, derivatives) -> returned value."""
    mp = {}
    for t in T.all:
        sh = t.ufl_shape
        if isinstance(t, C.Constant) or id(t) in env.plain:
            mp[t] = nested(sh, lambda c, t=t: env.value(t, c, None).value())
        else:
            def fn(x, derivatives=(), t=t, sh=sh):
                def comp(c):
                    j = env.value(t, c, None)
                    for d in derivatives:
                        j = j.diff(d)
                    return j.value()
                r = nested(sh, comp)
                log.setdefault(id(t), {})[tuple(derivatives)] = r
                return r
            mp[t] = fn
    return mp


# -------------------------------------------------------------------------------------------------
# generator

class Gen:
    """Typed generator: scalar/vector/matrix(d, need) returns an expression of that shape whose free
    indices are exactly `need` (a list of distinct Index objects of dimension 2)."""

    def __init__(self, T, rng, exact_only=False, allow_known=True):
        self.T, self.rng = T, rng
        self.exact_only = exact_only
        self.allow_known = allow_known

    def lit(self):
        return self.rng.choice([1, 2, 3, -1, -2, 5, 7, 0.5, 2.0, -3])

    def split(self, need):
        a, b = [], []
        for i in need:
            (a if self.rng.random() < 0.5 else b).append(i)
        return a, b

    def fx(self):
        return self.rng.randrange(2)

    def scalar_leaf(self, need):
        r, T = self.rng, self.T
        if len(need) >= 3:
            a, b = need[:2], need[2:]
            return self.scalar_leaf(a) * self.scalar_leaf(b)
        if len(need) == 2:
            k = r.randrange(4)
            if k == 0:
                return r.choice(T.M)[need[0], need[1]]
            if k == 1:
                return ufl.grad(r.choice(T.v))[need[0], need[1]]
            if k == 2:
                return ufl.Identity(2)[need[0], need[1]]
            return self.scalar_leaf(need[:1]) * self.scalar_leaf(need[1:])
        if len(need) == 1:
            i = need[0]
            k = r.randrange(6)
            if k < 2:
                return r.choice(T.v + T.kv)[i]
            if k == 2:
                return r.choice(T.M)[i, self.fx()] if r.random() < 0.5 else r.choice(T.M)[self.fx(), i]
            if k == 3 and not self.exact_only:
                return T.x[i]
            if k == 4:
                return ufl.grad(r.choice(T.f))[i]
            return r.choice(T.v)[i]
        k = r.randrange(12)
        if k < 3:
            return r.choice(T.f)
        if k == 3:
            return r.choice(T.k)
        if k == 4:
            return ufl.as_ufl(self.lit())
        if k in (5, 6):
            return r.choice(T.v + T.kv)[self.fx()]
        if k == 7:
            return r.choice(T.M)[self.fx(), self.fx()]
        if k == 8 and not self.exact_only:
            return T.x[self.fx()]
        if k == 9:
            return ufl.Identity(2)[self.fx(), self.fx()]
        if k == 10:
            return ufl.grad(r.choice(T.f))[self.fx()]
        return r.choice(T.f)

    def cond(self, d):
        r = self.rng
        k = r.randrange(9)
        if d <= 0 or k < 6:
            op = r.choice([ufl.lt, ufl.gt, ufl.le, ufl.ge, ufl.eq, ufl.ne])
            return op(self.scalar(d - 1, []), self.scalar(d - 1, []))
        if k == 6:
            return ufl.And(self.cond(d - 1), self.cond(d - 1))
        if k == 7:
            return ufl.Or(self.cond(d - 1), self.cond(d - 1))
        return ufl.Not(self.cond(d - 1))

    def scalar(self, d, need):
        r = self.rng
        if d <= 0:
            return self.scalar_leaf(need)
        k = r.randrange(30)
        S = lambda: self.scalar(d - 1, need)  # noqa: E731
        C0 = lambda: self.scalar(d - 1, [])  # noqa: E731

        def prod():
            a, b = self.split(need)
            return self.scalar(d - 1, a) * self.scalar(d - 1, b)
        if k < 3:
            return S() + S()
        if k < 5:
            return S() - S()
        if k < 8:
            return prod()
        if k < 10:
            return S() / C0()
        if k == 10:
            return S() ** r.choice([0, 1, 2, 3, 2, -1, -2]) if not need else prod()
        if k == 11:
            a = S()      # abs(abs(f)) re-initialises (corrupts) its argument (a C05/C27 matter): avoid nesting
            return abs(a) if not isinstance(a, (C.Abs, C.Real, C.Imag)) else a + 1
        if k == 12:
            return ufl.conditional(self.cond(d - 1), S(), S())
        if k == 13:
            return r.choice([ufl.min_value, ufl.max_value])(C0(), C0()) if not need else prod()
        if k == 14:
            return ufl.variable(S()) if not need else prod()
        if k == 15:
            i = Index()
            body = self.scalar(d - 1, need + [i])
            return C.IndexSum(body, MultiIndex((i,)))
        if k == 16:
            if need and r.random() < 0.7:
                return self.vector(d - 1, need[:-1])[need[-1]]
            return self.vector(d - 1, need)[self.fx()]
        if k == 17:
            if len(need) >= 2 and r.random() < 0.7:
                return self.matrix(d - 1, need[:-2])[need[-2], need[-1]]
            return self.matrix(d - 1, need)[self.fx(), self.fx()]
        if k == 18:
            g = ufl.grad(self.scalar(d - 1, []))
            return g[self.fx()] if not need else g[need[0]] * self.scalar(d - 1, need[1:])
        if k == 19:
            g = ufl.grad(ufl.grad(r.choice(self.T.f)))
            if len(need) == 2:
                return g[need[0], need[1]]
            return g[self.fx(), self.fx()] * S()
        if k == 20:
            g = ufl.grad(self.vector(d - 1, []))
            if len(need) == 2:
                return g[need[1], need[0]]
            return g[self.fx(), self.fx()] * S()
        if k == 21 and not need:
            return r.choice([ufl.dot, ufl.inner])(self.vector(d - 1, []), self.vector(d - 1, []))
        if k == 22 and not need:
            return r.choice([ufl.det, ufl.tr])(self.matrix(d - 1, []))
        if k == 23 and not self.exact_only and not need:
            fn = r.choice([ufl.sin, ufl.cos, ufl.exp, ufl.tanh, ufl.atan, ufl.erf,
                           lambda a: ufl.sqrt(a * a + 1), lambda a: ufl.ln(a * a + 1)])
            return fn(C0())
        if k == 24:
            a = S()
            return r.choice([ufl.conj, ufl.real])(a) if not isinstance(a, (C.Abs, C.Real, C.Imag)) else a - 1
        if k == 25:
            return S()(r.choice("+-"))
        if k == 26 and not need:
            return ufl.div(self.vector(d - 1, []))
        if k == 27 and not need and r.random() < 0.5:
            i, j = Index(), Index()
            return ufl.PermutationSymbol(2)[i, j] * self.matrix(d - 1, [])[i, j]
        return prod()

    def vector(self, d, need):
        r, T = self.rng, self.T
        if d <= 0:
            if need:
                return ufl.as_vector([self.scalar_leaf(need), self.scalar_leaf(need)])
            k = r.randrange(6)
            if k == 3:
                return r.choice(T.kv)
            if k == 4 and not self.exact_only:
                return T.x
            return r.choice(T.v)
        k = r.randrange(14)
        V = lambda: self.vector(d - 1, need)  # noqa: E731
        if k < 2:
            return V() + V()
        if k < 4:
            return ufl.as_vector([self.scalar(d - 1, need), self.scalar(d - 1, need)])
        if k < 6:
            i = Index()
            return ufl.as_tensor(self.scalar(d - 1, need + [i]), (i,))
        if k == 6:
            a, b = self.split(need)
            return self.scalar(d - 1, a) * self.vector(d - 1, b)
        if k == 7 and self.allow_known and r.random() < 0.5:
            return ufl.conditional(self.cond(d - 1), V(), V())      # known finding
        if k == 8 and not need:
            return ufl.dot(self.matrix(d - 1, []), self.vector(d - 1, []))
        if k == 9 and not need:
            return ufl.grad(self.scalar(d - 1, []))
        if k == 10:
            return ufl.variable(V()) if not need else V()
        if k == 11:
            i = Index()
            return ufl.as_tensor(self.matrix(d - 1, need)[self.fx(), i], (i,))
        if k == 12:
            return -V()
        if k == 13 and not need:
            return ufl.perp(V())
        return V()

    def matrix(self, d, need):
        r, T = self.rng, self.T
        if d <= 0:
            if need:
                return ufl.as_matrix([[self.scalar_leaf(need) for _ in range(2)] for _ in range(2)])
            return r.choice(T.M + [ufl.Identity(2)])
        k = r.randrange(10)
        Mx = lambda: self.matrix(d - 1, need)  # noqa: E731
        if k == 0:
            return Mx() + Mx()
        if k == 1:
            return ufl.as_matrix([[self.scalar(d - 1, need) for _ in range(2)] for _ in range(2)])
        if k == 2:
            i, j = Index(), Index()
            return ufl.as_tensor(self.scalar(d - 1, need + [i, j]), (i, j))
        if k == 3 and not need:
            return ufl.outer(self.vector(d - 1, []), self.vector(d - 1, []))
        if k == 4 and not need:
            return ufl.grad(self.vector(d - 1, []))
        if k == 5 and not need:
            return ufl.transpose(Mx())
        if k == 6:
            return ufl.as_vector([self.vector(d - 1, need), self.vector(d - 1, need)])
        if k == 7:
            a, b = self.split(need)
            return self.scalar(d - 1, a) * self.matrix(d - 1, b)
        if k == 8 and not need:
            return ufl.dot(Mx(), Mx())
        if k == 9 and not need:
            return r.choice([ufl.inv, ufl.cofac, ufl.dev, ufl.skew, ufl.sym])(Mx())
        return Mx()

    def top(self, depth):
        sh = self.rng.choice([(), (), (), (2,), (2,), (2, 2)])
        e = ufl.as_ufl({(): self.scalar, (2,): self.vector, (2, 2): self.matrix}[sh](depth, []))
        comp = tuple(self.rng.randrange(2) for _ in e.ufl_shape)
        return e, comp


# -------------------------------------------------------------------------------------------------
# classification helpers

def nodes(e):
    seen, stack, out = set(), [e], []
    while stack:
        x = stack.pop()
        if id(x) in seen:
            continue
        seen.add(id(x))
        out.append(x)
        stack.extend(x.ufl_operands)
    return out


def known_class(f):
    """Which known-finding classes the (expanded) expression belongs to."""
    cls = set()
    for n in nodes(f):
        if isinstance(n, C.Conditional) and n.ufl_shape != ():
            cls.add("conditional-component")
        if isinstance(n, C.PermutationSymbol):
            cls.add("permutation-symbol-object")
    return cls


INEXACT_NODES = ("Sqrt", "Exp", "Ln", "Cos", "Sin", "Tan", "Cosh", "Sinh", "Tanh", "Acos", "Asin", "Atan", "Erf",
                 "Atan2", "BesselJ", "BesselY", "BesselI", "BesselK", "ComplexValue")


def coq_eligible(f):
    ns = nodes(f)
    if len(ns) > 300:
        return False          # (4x4 inverses, ...): compared with the mirror only
    for n in ns:
        nm = type(n).__name__
        if nm in INEXACT_NODES:
            return False
        if nm == "Power":
            b = n.ufl_operands[1]
            if type(b).__name__ != "IntValue":
                return False
        if nm == "FloatValue":
            v = float(n._value)
            if Fr(v).denominator > 64 or abs(v) > 1e6:
                return False
    return True


def fragile_conditions(e, env):
    """True if some comparison in e is decided by less than 1e-6 (float results may then differ)."""
    for n in nodes(e):
        if type(n).__name__ in ("EQ", "NE", "LT", "GT", "LE", "GE", "MinValue", "MaxValue", "Abs"):
            if n.ufl_free_indices:
                return True
            try:
                if type(n).__name__ == "Abs":
                    a, b = pyden.evaluate(n.ufl_operands[0], env).value(), 0
                    if n.ufl_shape:
                        continue
                else:
                    a = pyden.evaluate(n.ufl_operands[0], env).value()
                    b = pyden.evaluate(n.ufl_operands[1], env).value()
                if a != b and abs(float(a) - float(b)) < 1e-6 * (1 + abs(float(a))):
                    return True
            except Exception:
                return True
    return False


def nonsmooth_point(e, env):
    """True if the point is a kink of some |.|, min, max in e (derivatives are not defined there)."""
    for n in nodes(e):
        nm = type(n).__name__
        if nm in ("Abs", "MinValue", "MaxValue"):
            if n.ufl_free_indices or n.ufl_shape:
                return True
            try:
                a = pyden.evaluate(n.ufl_operands[0], env).value()
                b = pyden.evaluate(n.ufl_operands[1], env).value() if nm != "Abs" else 0
                if a == b:
                    return True
            except Exception:
                return True
    return False


class Outcome:
    __slots__ = ("kind", "value", "detail")

    def __init__(self, kind, value=None, detail=""):
        self.kind, self.value, self.detail = kind, value, detail    # kind: num | error | object

    def __repr__(self):
        return f"{self.kind}:{self.value!r}{(' ' + self.detail) if self.detail else ''}"


def run_real(thunk):
    with warnings.catch_warnings():
        warnings.simplefilter("ignore")
        try:
            r = thunk()
        except RecursionError:
            raise
        except Exception as ex:
            return Outcome("error", None, f"{type(ex).__name__}: {str(ex)[:120]}")
    if isinstance(r, bool) or not isinstance(r, numbers.Number):
        return Outcome("object", None, f"{type(r).__name__}: {str(r)[:80]}")
    return Outcome("num", r)


def same_number(a, b, scale=0.0, rel=1e-9):
    """exact for int/Fraction pairs; otherwise relative `rel`, plus 1e-12 of the largest intermediate
    magnitude `scale` (cancellation in float arithmetic)."""
    if isinstance(a, (int, Fr)) and isinstance(b, (int, Fr)):
        return a == b
    try:
        x, y = complex(a), complex(b)
    except Exception:
        return False
    if math.isnan(x.real) or math.isnan(y.real):
        return False
    return abs(x - y) <= rel * (1 + abs(x) + abs(y)) + 1e-12 * scale


# -------------------------------------------------------------------------------------------------
# Coq serialisation of a run

def qlit(v):
    v = Fr(v)
    n, d = v.numerator, v.denominator
    return f"(({n})#{d})%Q" if n < 0 else f"({n}#{d})%Q"


def qval(v):
    if isinstance(v, tuple):
        return "(QT [" + "; ".join(qval(x) for x in v) + "])"
    return f"(QN {qlit(v)})"


def coq_case(name, f, comp, T, mp, log, x, expected, flags="false false"):
    """expected: Fraction or None (None = raises / not a number)."""
    ctx = ufl2coq.Ctx()
    ser = ufl2coq.Ser(ctx, prefix=f"{name}_n", share=True)
    body = ser.expr(f)
    by_key = {ufl2coq.Ctx.term_key(t): t for t in T.all}
    entries, shapes = [], []
    for key in ctx.order:
        kind, tid, sh, _ = ctx.terms[key]
        shapes.append(f"({kind}, {tid}, {ufl2coq.natlist(sh)})")
        if kind == ufl2coq.KIND_OF_GEOMETRY["SpatialCoordinate"]:
            continue
        t = by_key[key]
        m = mp[t]
        if callable(m):
            tb = log.get(id(t), {})
            rows = "; ".join(f"({ufl2coq.natlist(d)}, {qval(v)})" for d, v in sorted(tb.items()))
            entries.append(f"({kind}, {tid}, QCall [{rows}])")
        else:
            entries.append(f"({kind}, {tid}, QVal {qval(m)})")
    txt = [ser.definitions_text()]
    txt.append(f"Definition {name}_e : expr := {body}.\n")
    txt.append(f"Definition {name}_m : list (nat * nat * qentry) := [{'; '.join(entries)}]%nat.\n")
    xs = "[" + "; ".join(qlit(v) for v in x) + "]"
    exp = "None" if expected is None else f"Some {qlit(expected)}"
    txt.append(f"Example {name} : py_eval_Q {flags} {name}_m {xs} {name}_e {ufl2coq.natlist(comp)} = {exp}.\n"
               f"Proof. vm_compute. reflexivity. Qed.\n")
    txt.append(f"Example {name}_wf : wf (tsh_of [{'; '.join(shapes)}]%nat) {name}_e = true.\n"
               f"Proof. vm_compute. reflexivity. Qed.\n")
    return "".join(txt)


COQ_HEADER = ("Require Import UFLV.Core.Den.\nRequire Import UFLV.Props.C24_model UFLV.Props.C24_inst.\n"
              "Require Import QArith.\nClose Scope Q_scope.\n"
              "(* generated by py/C24_harness.py: one Example per run of the real evaluate *)\n")


# -------------------------------------------------------------------------------------------------
# one differential case

class Case:
    pass


def shadow_builder(T, rng):
    """Re-used index objects: an inner binder of the SAME Index inside an outer scope that still
    needs its own binding afterwards (exercises StackDict.push/pop restore)."""
    i = Index()
    v, w = rng.choice(T.v), rng.choice(T.v + T.kv)
    M = rng.choice(T.M)
    k = rng.randrange(4)
    if k == 0:
        inner = v[i] * w[i]                                   # IndexSum over i
        body = (inner * v[i] + w[i] * M[0, 1]) + (M[1, i] + inner * M[i, 0])
        return C.IndexSum(body, MultiIndex((i,))), ()
    if k == 1:
        inner = ufl.as_tensor(v[i] * 2 + w[i], (i,))
        body = inner[1] * v[i] + M[i, 1] * inner[0] + w[i]
        return ufl.as_tensor(body, (i,)), (rng.randrange(2),)
    if k == 2:
        inner = ufl.as_tensor(M[i, 0] * 3 + v[i], (i,))
        outer = ufl.as_tensor(inner[1] * w[i] + inner[0], (i,))
        return C.IndexSum(C.Sum(C.Product(outer[i], M[0, 1]), v[i]), MultiIndex((i,))), ()
    j = Index()
    inner = M[i, j] * v[j]                                    # IndexSum over j, free i
    body = ufl.as_tensor(inner * w[j] + M[j, i], (j,))
    return ufl.as_tensor(body[1] * M[0, 0] + body[0], (i,)), (rng.randrange(2),)



# -------------------------------------------------------------------------------------------------
# derivative stream: grad / .dx / div / curl / second derivatives of NON-polynomial expressions

DERIVATIVE_TYPES = ("Grad", "Div", "NablaGrad", "NablaDiv", "Curl", "VariableDerivative")


class Smooth:
    """Random smooth scalar / vector expressions over x and mapped callables (with `derivatives`)."""

    def __init__(self, T, rng):
        self.T, self.rng = T, rng

    def leaf(self):
        r, T = self.rng, self.T
        k = r.randrange(9)
        if k < 3:
            return T.x[r.randrange(2)]
        if k < 5:
            return r.choice(T.f)
        if k == 5:
            return r.choice(T.v)[r.randrange(2)]
        if k == 6:
            return r.choice(T.M)[r.randrange(2), r.randrange(2)]
        if k == 7:
            return ufl.as_ufl(r.choice([2, 3, 0.5, -1, 1.5]))
        return ufl.grad(r.choice(T.f))[r.randrange(2)]

    def pos(self, d):
        r = self.rng
        k = r.randrange(6)
        if k == 0:
            a = self.u(d - 1)
            return a * a + 1
        if k == 1:
            return ufl.exp(0.1 * self.u(d - 1))
        if k == 2:
            return 2 + ufl.sin(self.u(d - 1))
        if k == 3:
            return ufl.cosh(0.1 * self.u(d - 1))
        if k == 4:
            return ufl.as_ufl(r.choice([2, 3, 0.5, 1.5]))
        a = self.leaf()
        return a * a + r.choice([1, 2])

    def u(self, d):
        r = self.rng
        if d <= 0:
            return self.leaf()
        U = lambda: self.u(d - 1)  # noqa: E731
        k = r.randrange(24)
        if k == 0:
            return U() + U()
        if k == 1:
            return U() * U()
        if k == 2:
            return U() / self.pos(d - 1)
        if k in (3, 4):
            return self.pos(d - 1) ** (0.3 * U())                       # varying exponent
        if k == 5:
            return ufl.as_ufl(r.choice([2, 3, 0.5])) ** (0.3 * U())     # constant base, varying exponent
        if k == 6:
            return U() ** r.choice([2, 3])
        if k == 7:
            return self.pos(d - 1) ** r.choice([-1, -2, 0.5, 1.5, 2])   # constant exponent, general base
        if k == 8:
            return r.choice([ufl.sin, ufl.cos])(U())
        if k == 9:
            return ufl.exp(0.1 * U())
        if k == 10:
            return r.choice([ufl.ln, ufl.sqrt])(self.pos(d - 1))
        if k == 11:
            return r.choice([lambda a: ufl.tan(0.2 * ufl.sin(a)), ufl.tanh, ufl.atan, ufl.erf])(U())
        if k == 12:
            return r.choice([ufl.sinh, ufl.cosh])(0.1 * U())
        if k == 13:
            return r.choice([ufl.asin, ufl.acos])(0.5 * ufl.sin(U()))
        if k == 14:
            return ufl.atan2(U(), self.pos(d - 1))
        if k == 15:
            return abs(U())
        if k == 16:
            op = r.choice([ufl.lt, ufl.gt, ufl.le, ufl.ge])
            return ufl.conditional(op(U(), U()), U(), U())
        if k == 17:
            return r.choice([ufl.min_value, ufl.max_value])(U(), U())
        if k == 18:
            return self.vec(d - 1)[r.randrange(2)]
        if k == 19:
            return ufl.dot(self.vec(d - 1), self.vec(d - 1))
        if k == 20:
            return ufl.variable(U())
        if k == 21:
            i = Index()
            return ufl.as_tensor(self.T.x[i] * U() + r.choice(self.T.v)[i], (i,))[r.randrange(2)]
        if k == 22:
            return ufl.as_matrix([[U(), U()], [U(), U()]])[r.randrange(2), r.randrange(2)]
        return U() - U()

    def vec(self, d):
        r, T = self.rng, self.T
        k = r.randrange(6)
        if d <= 0 or k == 0:
            return r.choice([T.x, r.choice(T.v)])
        if k == 1:
            return ufl.as_vector([self.u(d - 1), self.u(d - 1)])
        if k == 2:
            return self.u(d - 1) * self.vec(d - 1)
        if k == 3:
            i = Index()
            return ufl.as_tensor(T.x[i] * self.u(d - 1) + r.choice(T.v)[i], (i,))
        if k == 4:
            return ufl.grad(self.u(d - 1))
        return self.vec(d - 1) + self.vec(d - 1)


def deriv_builder(T, rng):
    g = Smooth(T, rng)
    d = rng.choice([1, 2, 2, 3])
    k = rng.randrange(12)
    a, b = rng.randrange(2), rng.randrange(2)
    if k < 3:
        return ufl.grad(g.u(d))[a], ()
    if k < 5:
        return g.u(d).dx(a), ()
    if k == 5:
        return ufl.grad(ufl.grad(g.u(min(d, 2))))[a, b], ()
    if k == 6:
        return g.u(min(d, 2)).dx(a).dx(b), ()
    if k == 7:
        return ufl.div(g.vec(d)), ()
    if k == 8:
        return ufl.grad(g.vec(d)), (a, b)
    if k == 9:
        return ufl.nabla_grad(g.vec(d))[a, b], ()
    if k == 10:
        return ufl.curl(g.vec(d) + T.x), ()     # (+x: curl of a list tensor with a literal entry is C03's finding)
    return ufl.grad(g.u(d))[a] * g.u(1) + g.u(d).dx(b), ()


def deriv_depth(e):
    """largest number of derivative operators along a path of e (the jets of the mirror need that order)."""
    memo = {}

    def go(n):
        k = id(n)
        if k not in memo:
            d = max((go(o) for o in n.ufl_operands), default=0)
            memo[k] = d + (1 if type(n).__name__ in DERIVATIVE_TYPES else 0)
        return memo[k]
    return go(e)


def abs_with_free_index_under_derivative(e):
    for n in nodes(e):
        if type(n).__name__ in DERIVATIVE_TYPES:
            for m in nodes(n.ufl_operands[0]):
                if type(m).__name__ == "Abs" and m.ufl_operands[0].ufl_free_indices:
                    return True
    return False


def differentiated_kinds(e):
    """Types of the nodes that stand under a derivative operator in the (unexpanded) expression."""
    out = collections.Counter()
    for n in nodes(e):
        if type(n).__name__ in DERIVATIVE_TYPES:
            for m in nodes(n.ufl_operands[0]):
                nm = type(m).__name__
                if nm not in ("MultiIndex", "Label"):
                    out[nm] += 1
    return out


# -------------------------------------------------------------------------------------------------
# tie stream: every comparison operator and min/max at a < b, a == b (exactly), a > b

CMP = [("le", ufl.le), ("ge", ufl.ge), ("lt", ufl.lt), ("gt", ufl.gt), ("eq", ufl.eq), ("ne", ufl.ne),
       ("min", ufl.min_value), ("max", ufl.max_value)]
N_TIE = len(CMP) * 3 * 5


def tie_builder(n):
    """n-th case of the enumeration operator x relation x form of the equal-valued operand x context."""
    opi, rest = n % len(CMP), n // len(CMP)
    rel, rest = rest % 3 - 1, rest // 3
    form = rest % 5
    ctx = (form + opi + rel) % 2

    def build(T, rng):
        name, op = CMP[opi]
        f, g, h = T.f[0], T.f[1], T.f[2]
        a = [f, f * g, T.x[0], T.v[0][1] + g, f - h][form]
        # a syntactically different expression with exactly the same value
        b = [(f + g) - g, ufl.as_vector([g * f, h])[0], T.x[0] + 0 * T.x[1], ufl.variable(g + T.v[0][1]),
             ufl.as_vector([h, f])[1] - ufl.as_vector([h, f])[0]][form]
        b = b + rel
        if name in ("min", "max"):
            e = op(a, b) if ctx == 0 else op(b, a) * 2 + 1
            return e, ()
        c = op(a, b)
        if ctx == 1:
            c = ufl.Not(ufl.Or(ufl.Not(c), ufl.ne(f, f)))
        return ufl.conditional(c, g + 2, g - 3), ()
    return build


# -------------------------------------------------------------------------------------------------
# scope stream: an inner binder re-binds the index that an enclosing binder holds (all outer values,
# in particular 0), and the index is used again AFTER the inner scope was evaluated

N_SCOPE = 6 * 2 * 3


def scope_builder(n):
    inner_kind, rest = n % 6, n // 6
    outer_kind, after = rest % 2, (rest // 2) % 3

    def build(T, rng):
        i = Index()
        x, v, w, M = T.x, T.v[0], T.v[1], T.M[0]
        # inner scopes that bind i themselves and have no free index
        if inner_kind == 0:
            inner = ufl.as_tensor(3 * v[i] + w[0] * v[i], (i,))[1]
        elif inner_kind == 1:
            inner = C.IndexSum(v[i] * w[i], MultiIndex((i,)))
        elif inner_kind == 2:
            inner = ufl.as_tensor(M[i, 0] + v[i], (i,))[0]
        elif inner_kind == 3:
            j = Index()
            inner = ufl.as_tensor(M[i, j] * 2 + v[j], (i, j))[1, 0]
        elif inner_kind == 4:
            inner = C.IndexSum(ufl.as_tensor(v[i] + 1, (i,))[i] * w[i], MultiIndex((i,)))
        else:
            inner = ufl.as_tensor(C.IndexSum(v[i] * M[i, 1], MultiIndex((i,))) + w[i], (i,))[1]
        # uses of the OUTER i after the inner scope (Division / Conditional / Power evaluate in order)
        if after == 0:
            body = (inner * v[i]) * w[i]
        elif after == 1:
            body = C.Division(inner, w[i] + 7)
        else:
            body = ufl.conditional(ufl.lt(inner, 10**6), w[i] + inner, v[i])
        if outer_kind == 0:
            if i.count() not in body.ufl_free_indices:
                raise ValueError("outer index was contracted")
            return C.IndexSum(body, MultiIndex((i,))), ()
        return ufl.as_tensor(body, (i,)), (n % 2,)
    return build


# -------------------------------------------------------------------------------------------------
# compound tensor operators: e(x, mapping) evaluates them through their lowering inside _eval.
# Deterministic enumeration operator x shape x operand family x component, NON-symmetric operands;
# oracle = pyden (cofactor expansion etc., independent of compound_expressions.py), exact.

def _compound_table():
    tab = []          # (name, cell, builder(T, fam) -> expr)

    def mat(T, n, fam, which=0):
        if n == 4:
            A = T.N4[which]
            return A if fam == 0 else A * T.f[0] + ufl.transpose(T.N4[1 - which]) + ufl.Identity(4) * T.x[0]
        A = T.M[which]
        return A if fam == 0 else A * T.f[0] + ufl.outer(T.x, T.v[which]) + ufl.transpose(T.M[1 - which])

    def vec(T, fam, which=0):
        return T.v[which] if fam == 0 else T.v[which] * T.f[1] + T.x + ufl.dot(T.M[0], T.v[1 - which])

    cells = {2: "triangle", 3: "tetrahedron"}
    for n in (2, 3, 4):
        cell = cells.get(n, "tetrahedron")
        for fam in (0, 1):
            for name, op in (("det", ufl.det), ("inv", ufl.inv), ("cofac", ufl.cofac), ("tr", ufl.tr),
                             ("transpose", ufl.transpose), ("skew", ufl.skew), ("sym", ufl.sym)):
                tab.append((f"{name}{n}_{fam}", cell, lambda T, n=n, fam=fam, op=op: op(mat(T, n, fam))))
            if n <= 3:
                tab.append((f"dev{n}_{fam}", cell, lambda T, n=n, fam=fam: ufl.dev(mat(T, n, fam))))
                tab.append((f"dotMv{n}_{fam}", cell, lambda T, n=n, fam=fam: ufl.dot(mat(T, n, fam), vec(T, fam))))
                tab.append((f"dotvM{n}_{fam}", cell, lambda T, n=n, fam=fam: ufl.dot(vec(T, fam), mat(T, n, fam))))
                tab.append((f"dotMM{n}_{fam}", cell,
                            lambda T, n=n, fam=fam: ufl.dot(mat(T, n, fam), mat(T, n, fam, 1))))
                tab.append((f"dotvv{n}_{fam}", cell, lambda T, n=n, fam=fam: ufl.dot(vec(T, fam), vec(T, fam, 1))))
                tab.append((f"inner{n}_{fam}", cell,
                            lambda T, n=n, fam=fam: ufl.inner(mat(T, n, fam), mat(T, n, fam, 1))))
                tab.append((f"outer{n}_{fam}", cell, lambda T, n=n, fam=fam: ufl.outer(vec(T, fam), vec(T, fam, 1))))
                tab.append((f"invuse{n}_{fam}", cell, lambda T, n=n, fam=fam:
                            ufl.dot(ufl.inv(mat(T, n, fam)), vec(T, fam)) * ufl.det(mat(T, n, fam, 1))))
                tab.append((f"gradinv{n}_{fam}", cell, lambda T, n=n, fam=fam:
                            ufl.grad(ufl.inv(mat(T, n, 1)) if fam else ufl.det(mat(T, n, 1)) * ufl.cofac(mat(T, n, 1)))))
    for fam in (0, 1):
        tab.append((f"cross_{fam}", "tetrahedron", lambda T, fam=fam: ufl.cross(vec(T, fam), vec(T, fam, 1))))
        tab.append((f"perp_{fam}", "triangle", lambda T, fam=fam: ufl.perp(vec(T, fam))))
        tab.append((f"transposeR_{fam}", "triangle",
                    lambda T, fam=fam: ufl.transpose(T.R[0] if fam == 0 else T.R[0] * T.f[0] + T.R[0])))
        tab.append((f"dotT3_{fam}", "triangle", lambda T, fam=fam: ufl.dot(T.T3[0], vec(T, fam))))
    return tab


COMPOUND = _compound_table()


def compound_cases(max_comps):
    """[(table index, component)]: every component, or `max_comps` of them spread over the tensor."""
    out = []
    probe = {}
    for k, (name, cell, mk) in enumerate(COMPOUND):
        if cell not in probe:
            probe[cell] = Terminals(cell)
        sh = mk(probe[cell]).ufl_shape
        comps = list(itertools.product(*[range(d) for d in sh]))
        if len(comps) > max_comps:
            step = len(comps) / max_comps
            comps = [comps[int(j * step + (k % 3)) % len(comps)] for j in range(max_comps)]
            comps = sorted(set(comps))
        out.extend((k, c) for c in comps)
    return out


def compound_builder(k, comp):
    name, cell, mk = COMPOUND[k]

    def build(T, rng):
        return mk(T), comp
    build.cell = cell
    build.stream = "compound:" + name
    return build


# -------------------------------------------------------------------------------------------------
# diff() with respect to scalar / vector / tensor variables.  Oracle: the partial derivative w.r.t. one
# component of the variable = derivative of psi(base + tau * E_kl) w.r.t. the extra jet variable tau.

class SmoothV(Smooth):
    """Smooth expressions in which about half of the leaves are components / invariants of V."""

    def __init__(self, T, rng, V):
        super().__init__(T, rng)
        self.V = V

    def leaf(self):
        r, V = self.rng, self.V
        if r.random() < 0.45:
            return Smooth.leaf(self)
        sh = V.ufl_shape
        comp = tuple(r.randrange(d) for d in sh)
        k = r.randrange(8)
        if len(sh) == 2 and sh[0] == sh[1]:
            if k == 0:
                return ufl.tr(ufl.dot(V, V))
            if k == 1:
                return ufl.inner(r.choice(self.T.M), V)
            if k == 2:
                return ufl.dot(V, r.choice(self.T.v))[comp[0]]
            if k == 3:
                return ufl.det(V)
            if k == 4:
                return ufl.dot(V, V)[comp] * ufl.transpose(V)[comp]
        if len(sh) == 1 and k == 0:
            return ufl.dot(V, r.choice(self.T.v))
        if len(sh) == 1 and k == 1:
            return ufl.dot(r.choice(self.T.M), V)[r.randrange(2)]
        return V[comp] if sh else V


def unit_tensor(shape, comp):
    if not shape:
        return 1
    return ufl.as_tensor(_unit(shape, comp))


def _unit(shape, comp):
    if len(shape) == 1:
        return [1 if k == comp[0] else 0 for k in range(shape[0])]
    return [_unit(shape[1:], comp[1:]) if k == comp[0] else _zeros(shape[1:]) for k in range(shape[0])]


def _zeros(shape):
    if not shape:
        return 0
    return [_zeros(shape[1:]) for _ in range(shape[0])]


def diff_builder(T, rng):
    kind = rng.randrange(9)
    base = {0: lambda: T.f[0], 1: lambda: T.f[1] * T.x[0] + 2,
            2: lambda: T.v[0], 3: lambda: T.v[0] * T.f[0] + T.x,
            4: lambda: T.M[0], 5: lambda: T.M[0] + ufl.outer(T.x, T.v[1]), 6: lambda: T.M[1] * T.f[2],
            7: lambda: T.R[0], 8: lambda: T.T3[0]}[kind]()
    base = ufl.as_ufl(base)
    vsh = base.ufl_shape
    sub = rng.randrange(10**9)
    d = rng.choice([1, 2, 2, 3])
    vector_psi = rng.random() < 0.25

    def psi_fn(V):
        g = SmoothV(T, random.Random(sub), V)
        if vector_psi:
            return ufl.as_vector([g.u(d), g.u(max(d - 1, 0))])
        return g.u(d)

    V = ufl.variable(base)
    psi = psi_fn(V)
    psh = psi.ufl_shape
    cpsi = tuple(rng.randrange(n) for n in psh)
    c1 = tuple(rng.randrange(n) for n in vsh)
    c2 = tuple(rng.randrange(n) for n in vsh)
    form = rng.randrange(6)

    def pert(n):
        p = base + T.taus[0] * unit_tensor(vsh, c1)
        if n == 2:
            p = p + T.taus[1] * unit_tensor(vsh, c2)
        return p

    keep = []          # keeps the oracle's expressions alive: the mirror memoises on id()

    def ev(expr, env, memo, comp):
        keep.append(expr)
        m = {}
        j = pyden.evaluate(expr, env, {}, comp, None, m)
        for kk, vv in m.items():
            memo[("oracle", len(keep), kk)] = vv          # only for the magnitude scale
        return j

    def jet(env, memo, n, comp=cpsi):
        return ev(psi_fn(pert(n)), env, memo, comp)

    g = T.g
    if form <= 2:
        return ufl.diff(psi, V), cpsi + c1, lambda env, memo: jet(env, memo, 1).diff(g).value()
    if form == 3:
        return (ufl.diff(ufl.diff(psi, V), V), cpsi + c1 + c2,
                lambda env, memo: jet(env, memo, 2).diff(g).diff(g + 1).value())
    if form == 4:
        j = rng.randrange(g)
        return (ufl.grad(ufl.diff(psi, V)), cpsi + c1 + (j,),
                lambda env, memo: jet(env, memo, 1).diff(g).diff(j).value())
    # the derivative used inside a larger expression: contraction with a non-symmetric literal tensor
    comps = list(itertools.product(*[range(n) for n in vsh]))
    wts = {c: rng.choice([1, 10, 100, -3, 7, 1000]) * (1 + comps.index(c)) for c in comps}
    Dp = ufl.diff(psi, V)
    e = sum(Dp[cpsi + c] * wts[c] for c in comps) if comps != [()] else Dp[cpsi] * wts[()] if cpsi else Dp * wts[()]

    def oracle(env, memo):
        tot = 0
        for c in comps:
            p = base + T.taus[0] * unit_tensor(vsh, c)
            tot = tot + ev(psi_fn(p), env, memo, cpsi).diff(g).value() * wts[c]
        return tot
    return e, (), oracle


diff_builder.stream = "diff"


# -------------------------------------------------------------------------------------------------
# permutation symbol with FREE indices (fixed indices are folded by the constructor and never reach
# PermutationSymbol.evaluate)

N_EPS = 9


def eps_builder(n):
    def build(T, rng):
        g = T.g
        eps = ufl.PermutationSymbol(g)
        f, h, v, w, M = T.f[0], T.f[1], T.v[0], T.v[1], T.M[0]
        if g == 2:
            i, j = ufl.indices(2)
            s0 = eps[i, j] * M[i, j]
            vec = ufl.as_tensor(eps[i, j] * v[j], (i,))
        else:
            i, j, k = ufl.indices(3)
            s0 = eps[i, j, k] * M[i, j] * v[k]
            vec = ufl.as_tensor(eps[i, j, k] * v[j] * w[k], (i,))
        m = n // 2
        if m == 0:
            return s0, ()
        if m == 1:
            return vec, (n % g,)
        if m == 2:
            return ufl.conditional(ufl.lt(s0, f), f + 1, h - 1), ()
        if m == 3:
            return ufl.max_value(s0, f) + abs(s0), ()
        return (s0 * f + vec[0]) / (2 + s0 * s0), ()
    build.cell = "triangle" if n % 2 == 0 else "tetrahedron"
    build.stream = "eps"
    return build


def run_case(idx, seed, depth, exact_only=False, allow_known=True, build=None):
    """Generates one input, runs the real code and the mirror.  Returns a Case."""
    rng = random.Random(seed)
    cell = getattr(build, "cell", CELL)
    T = Terminals(cell)
    plain = set()
    for t in T.f + T.v + T.M:
        if rng.random() < 0.35:
            plain.add(id(t))
    env = DenEnv(rng.randrange(10**9), plain, T.g, T.taus)
    log = {}
    mp = make_mapping(T, env, rng, log)
    x = tuple(env.x0[:T.g])
    oracle = None
    if build is not None:
        for attempt in range(20):
            try:
                r = build(T, rng)
                e, comp = r[0], r[1]
                oracle = r[2] if len(r) > 2 else None
                break
            except (ValueError, AssertionError, TypeError, IndexError, AttributeError):
                continue
        else:
            e, comp = T.f[0] * T.f[1], ()
    else:
        for attempt in range(50):
            try:
                e, comp = Gen(T, rng, exact_only, allow_known).top(depth)
                break
            except (ValueError, AssertionError, TypeError, IndexError, AttributeError):
                continue          # the CONSTRUCTORS rejected the draw (not an evaluation)
        else:
            e, comp = T.f[0] * T.f[1], ()
    env.order = deriv_depth(e)              # before any terminal field is drawn: the jets need exactly this order
    c = Case()
    c.idx, c.seed, c.e, c.comp, c.T, c.mp, c.log, c.x, c.env = idx, seed, e, comp, T, mp, log, x, env
    c.expand_error = None
    try:
        c.f = expand_derivatives(e)
    except RecursionError:
        raise
    except Exception as ex:                      # _eval's first step raises: so does e(x, mapping)
        c.f = e
        c.expand_error = f"{type(ex).__name__}: {str(ex)[:120]}"
    c.real_call = run_real(lambda: e(x, mp, comp))
    log_direct = {}
    c.log = log_direct
    mp2 = make_mapping(T, env, rng, log_direct)
    c.mp = mp2
    c.real_direct = run_real(lambda: c.f.evaluate(x, mp2, comp, StackDict()))
    memo = {}
    c.scale = 0.0
    try:
        if oracle is not None:
            c.expected = Outcome("num", oracle(env, memo))
        else:
            c.expected = Outcome("num", pyden.evaluate(e, env, {}, comp, None, memo).value())
        for j in memo.values():
            for v in getattr(j, "c", {}).values():
                try:
                    c.scale = max(c.scale, abs(float(v)))
                except (TypeError, OverflowError):
                    pass
    except ZeroDivisionError:
        c.expected = Outcome("error", None, "ZeroDivisionError")
    except (ValueError, OverflowError) as ex:
        c.expected = Outcome("error", None, type(ex).__name__)
    except (pyden.Unsupported, TypeError) as ex:      # TypeError: the mirror left the reals (complex jets)
        c.expected = Outcome("unsupported", None, f"{type(ex).__name__}: {ex}")
    c.known = known_class(c.f)
    if c.expand_error and c.expand_error.startswith("ValueError: Expecting scalar arguments") \
            and abs_with_free_index_under_derivative(e):
        c.known.add("abs-derivative-free-index")
    return c


def describe(c):
    vals = {}
    for t in c.T.all:
        m = c.mp[t]
        vals[str(t)] = ("callable: " + str({str(k): str(v) for k, v in c.log.get(id(t), {}).items()})) \
            if callable(m) else str(m)
    return {"expand_derivatives_error": c.expand_error, "expression": str(c.e), "expression_repr": repr(c.e)[:3000], "expanded": str(c.f)[:2000],
            "component": list(c.comp), "point": [str(v) for v in c.x], "mapping": vals,
            "case_seed": c.seed,
            "real e(x, mapping, component)": repr(c.real_call),
            "real expand_derivatives(e).evaluate(...)": repr(c.real_direct),
            "mathematical value (pyden)": repr(c.expected)}
