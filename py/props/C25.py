"""C25 - Sobolev space comparisons form a consistent partial order.

T1: the table of predefined spaces (names, transitively closed parents, orders) is read from the live
module and regenerated into coq/Gen/C25_table.v on every run; `ast` confirms the shape of the class
definitions the hand model (Props/C25_model.v) mirrors (total_ordering decorators, which dunder
methods are defined).  T3: every operator (<, >, <=, >=, ==, membership) on every pair of a grid of
spaces (all predefined spaces + all directional spaces with up to 2 (quick) / 3 (thorough)
directions over the orders {0,1,2,3,inf}) is compared with the model, exhaustively.
Theorems: the specification order on directional spaces is a strict partial order for ALL order
lists, the implementation agrees with it on comparable lists (all lists), and on the grid every
operator returns the mathematically right answer outside the two known-finding classes."""

import ast
import itertools
import math
import os

import vlib

HAND_FILES = ["Props/C25_model.v"]
ORDERS = [0, 1, 2, 3, math.inf]
UNKNOWN = ["HDivDiv", "HEin", "HCurlDiv"]
# specification (trusted, from the definitions of the spaces): direct inclusions "X is a subspace of each Y"
MATH_COVERS = {
    "L2": [], "HDiv": ["L2"], "HCurl": ["L2"], "H1": ["HDiv", "HCurl"], "H1Div": ["H1"], "H1Curl": ["H1"],
    "H2": ["H1Div", "H1Curl"], "H3": ["H2"], "HInf": ["H3"], "HEin": ["L2"], "HDivDiv": ["L2"], "HCurlDiv": ["L2"],
}


def math_supersets(n):
    out, todo = set(), list(MATH_COVERS[n])
    while todo:
        x = todo.pop()
        if x not in out:
            out.add(x)
            todo.extend(MATH_COVERS[x])
    return out


def coq_ord(o):
    return "Inf" if o == math.inf else f"(Fin {int(o)})"


def res_text(f):
    try:
        r = f()
    except Exception as e:  # noqa: BLE001
        return "RErr", f"{type(e).__name__}"
    if r is True:
        return "RB true", True
    if r is False:
        return "RB false", False
    return "RObj", repr(r)[:60]


def source_shape():
    """fail-closed check of what the hand model assumes about the class definitions"""
    src = open(os.path.join(vlib.REPO, "ufl", "sobolevspace.py")).read()
    tree = ast.parse(src)
    out = {}
    for node in tree.body:
        if isinstance(node, ast.ClassDef):
            decos = [ast.unparse(d) for d in node.decorator_list]
            meths = sorted(n.name for n in node.body if isinstance(n, ast.FunctionDef) and n.name.startswith("__")
                           and n.name in ("__lt__", "__gt__", "__le__", "__ge__", "__eq__", "__ne__", "__contains__",
                                          "__hash__", "__getitem__"))
            out[node.name] = {"decorators": decos, "dunder": meths, "bases": [ast.unparse(b) for b in node.bases]}
    return out


EXPECTED_SHAPE = {
    "SobolevSpace": {"decorators": ["total_ordering"], "bases": [],
                     "dunder": ["__contains__", "__eq__", "__getitem__", "__hash__", "__lt__", "__ne__"]},
    "DirectionalSobolevSpace": {"decorators": ["total_ordering"], "bases": ["SobolevSpace"],
                                "dunder": ["__contains__", "__eq__", "__getitem__", "__lt__"]},
}


# repaired variant: no total_ordering, explicit partial-order operators
EXPECTED_SHAPE_EXPLICIT = {
    "SobolevSpace": {"decorators": [], "bases": [],
                     "dunder": ["__contains__", "__eq__", "__ge__", "__getitem__", "__gt__", "__hash__", "__le__",
                                "__lt__", "__ne__"]},
    "DirectionalSobolevSpace": {"decorators": [], "bases": ["SobolevSpace"],
                                "dunder": ["__contains__", "__eq__", "__getitem__", "__gt__", "__lt__"]},
}


def main(run):
    import ufl.sobolevspace as ss
    named = [(k, v) for k, v in vars(ss).items() if type(v) is ss.SobolevSpace]
    names = [k for k, _ in named]
    ids = {v.name: i for i, (k, v) in enumerate(named)}
    maxlen = 2 if run.tier == "quick" else 3
    dirs = [tuple(c) for n in range(1, maxlen + 1) for c in itertools.product(ORDERS, repeat=n)]
    grid = [("N", v) for _, v in named] + [("D", ss.DirectionalSobolevSpace(d)) for d in dirs]

    def cq(kind, obj):
        if kind == "N":
            return f"(Named n_{obj.name})"
        return "(Dir [" + "; ".join(coq_ord(o) for o in obj._orders) + "])"

    shape = source_shape()
    t = ["Require Import UFLV.Props.C25_model.\nRequire Import List Bool.\nImport ListNotations.\n"]
    for k, v in named:
        t.append(f"Definition n_{v.name} : nspace := {{| ns_id := {ids[v.name]}; ns_parents := "
                 f"[{'; '.join(str(ids[p.name]) for p in sorted(v.parents, key=lambda p: ids[p.name]))}]; "
                 f"ns_order := {coq_ord(v._order)} |}}.\n")
    t.append("Definition tbl : ntable := [" + "; ".join(f"n_{v.name}" for _, v in named) + "].\n")
    need = ["L2", "H1", "H2", "H3", "HInf", "HDiv", "HCurl"] + UNKNOWN
    missing = [n for n in need if n not in ids]
    if missing:
        run.violation({"broken": "predefined Sobolev spaces missing from the module", "missing": missing}, False)
        return run.finish("table incomplete")
    # which variant of DirectionalSobolevSpace.__lt__ does /repo implement?  (behavioural probes; the
    # exhaustive correspondence below validates the choice)
    Dp = ss.DirectionalSobolevSpace
    flag_all_any = not ((Dp((2, 0)) < Dp((0, 2))) is True)
    try:
        r_unknown = Dp((1, 1)) < vars(ss)["HEin"]
        flag_raises = not isinstance(r_unknown, Exception)
    except Exception:  # noqa: BLE001
        flag_raises = True
    Hn = {v.name: v for _, v in named}
    flag_explicit = not ((Hn["HDiv"] > Hn["HCurl"]) is True)

    class _Ep:
        def __init__(self, sp):
            self.sobolev_space = sp
    try:
        flag_contains = (_Ep(Hn["H1"]) in Dp((1, 0))) is True
    except Exception:  # noqa: BLE001
        flag_contains = False
    try:
        flag_named_contains = (_Ep(Dp((2, 2))) in Hn["H1"]) is True
    except Exception:  # noqa: BLE001
        flag_named_contains = False
    run.extra["model_variant"] = {"dir_all_any": flag_all_any, "unknown_raises": flag_raises,
                                  "explicit_ops": flag_explicit, "contains_le": flag_contains,
                                  "named_contains_le": flag_named_contains}
    t.append("Definition S : specials := {| id_L2 := %d; id_H1 := %d; id_H2 := %d; id_H3 := %d; id_HInf := %d; "
             "id_HDiv := %d; id_HCurl := %d; unknown_ids := [%s]; dir_all_any := %s; unknown_raises := %s; "
             "explicit_ops := %s; contains_le := %s; named_contains_le := %s; item_parents := [%s] |}.\n"
             % (ids["L2"], ids["H1"], ids["H2"], ids["H3"], ids["HInf"], ids["HDiv"], ids["HCurl"],
                "; ".join(str(ids[u]) for u in UNKNOWN), str(flag_all_any).lower(), str(flag_raises).lower(),
                str(flag_explicit).lower(), str(flag_contains).lower(), str(flag_named_contains).lower(),
                "; ".join("(%d, [%s])" % (ids[n], "; ".join(str(ids[p.name]) for p in sorted(Hn[n].parents, key=lambda p: ids[p.name])))
                          for n in ("L2", "H1", "H2", "H3", "HInf"))))
    t.append("Definition grid : list sp := [" + "; ".join(cq(k, o) for k, o in grid) + "].\n")
    t.append("Definition named : list sp := map Named tbl.\n")
    # ---- theorems over the regenerated table / grid
    t.append("Theorem C25_named_irrefl : law_irrefl S named = true. Proof. vm_compute. reflexivity. Qed.\n")
    t.append("Theorem C25_named_trans : law_trans S named = true. Proof. vm_compute. reflexivity. Qed.\n")
    t.append("Theorem C25_named_le : law_le S named = true. Proof. vm_compute. reflexivity. Qed.\n")
    t.append("Theorem C25_named_closed : law_closed tbl tbl = true. Proof. vm_compute. reflexivity. Qed.\n")
    t.append("Theorem C25_named_membership : law_membership S tbl = true. Proof. vm_compute. reflexivity. Qed.\n")
    t.append("Theorem C25_named_gt_partial : law_gt_partial S named = true. Proof. vm_compute. reflexivity. Qed.\n")
    t.append("Theorem C25_named_ge_partial : law_ge_partial S named = true. Proof. vm_compute. reflexivity. Qed.\n")
    t.append("Theorem C25_grid_ok_outside_known : all_ok_outside_known S tbl grid = true. Proof. vm_compute. reflexivity. Qed.\n")
    # the declared parents are exactly the mathematical proper supersets (specification table above)
    if set(ids) == set(MATH_COVERS):
        spec_rows = "; ".join("[" + "; ".join(str(i) for i in sorted(ids[p] for p in math_supersets(v.name))) + "]"
                              for _, v in named)
        t.append(f"Theorem C25_parents_are_proper_supersets : map ns_parents tbl = [{spec_rows}].\n"
                 "Proof. vm_compute. reflexivity. Qed.\n")
    else:
        t.append("Theorem C25_parents_are_proper_supersets : tbl = []. (* set of predefined spaces changed: "
                 f"{sorted(set(ids) ^ set(MATH_COVERS))} *)\nProof. vm_compute. reflexivity. Qed.\n")
    # refutations (the faithful model reproduces the defects)
    if not flag_explicit:
        t.append("Theorem C25_gt_refuted : exists a b, In a named /\\ In b named /\\ py_gt S a b = RB true /\\ py_lt S b a = RB false.\n"
                 "Proof. exists (Named n_HDiv), (Named n_HCurl). vm_compute. repeat split; auto 20. Qed.\n")
    elif flag_all_any:
        # fully repaired: every operator is mathematically right on every pair of the grid (unknown spaces excepted)
        t.append("Theorem C25_all_ok_everywhere : all_ok_everywhere S tbl grid = true. Proof. vm_compute. reflexivity. Qed.\n")
        t.append("Theorem C25_named_gt_is_flipped_lt : law_gt_is_flipped_lt S named = true. Proof. vm_compute. reflexivity. Qed.\n")
        t.append("Theorem C25_named_ge_is_flipped_le : law_ge_is_flipped_le S named = true. Proof. vm_compute. reflexivity. Qed.\n")
    if not flag_raises:
        t.append("Theorem C25_unknown_refuted : exists a b, py_lt S (Dir a) (Named b) = RObj.\n"
                 "Proof. exists [Fin 1; Fin 1], n_HEin. vm_compute. reflexivity. Qed.\n")
    if not flag_all_any:
        t.append("Theorem C25_dir_named_refuted : exists a b, py_lt S (Dir a) (Named b) = RB true /\\ sub_spec S tbl (Dir a) (Named b) = false.\n"
                 "Proof. exists [Fin 2; Fin 0], n_H1. vm_compute. auto. Qed.\n")
    else:
        # repaired variant: < on directional spaces is the specification order on EVERY pair of the grid
        t.append("Theorem C25_dir_lt_is_spec : forallb (fun x => forallb (fun y => match x, y with\n"
                 "  | Dir a, Dir b => r_eqb (py_lt S x y) (RB (dir_lt_spec a b)) | _, _ => true end) grid) grid = true.\n"
                 "Proof. vm_compute. reflexivity. Qed.\n")
    # ---- correspondence: every operator on every pair of the grid
    ops = {"lt": lambda a, b: a < b, "gt": lambda a, b: a > b, "le": lambda a, b: a <= b,
           "ge": lambda a, b: a >= b, "eq": lambda a, b: a == b}
    observed = {}
    for nm, f in ops.items():
        rows = []
        for ka, a in grid:
            row = []
            for kb, b in grid:
                txt, raw = res_text(lambda: f(a, b))
                row.append(txt)
                observed[(nm, str(a), str(b))] = raw
                run.count_case((nm, str(a), str(b)), nontrivial=True)
            rows.append("[" + "; ".join(row) + "]")
        t.append(f"Example corr_{nm} : map (fun a => map (py_{nm} S a) grid) grid = [\n" + ";\n".join(rows)
                 + "].\nProof. vm_compute. reflexivity. Qed.\n")
    # membership on named spaces with a stub element
    class _E:
        def __init__(self, s):
            self.sobolev_space = s
    mrows = []
    for _, s in named:
        mrows.append("[" + "; ".join("true" if (_E(e) in s) else "false" for _, e in named) + "]")
    t.append("Example corr_contains : map (fun s => map (contains s) tbl) tbl = [" + "; ".join(mrows)
             + "].\nProof. vm_compute. reflexivity. Qed.\n")
    # membership in directional spaces
    drows = []
    for d in dirs:
        ds = ss.DirectionalSobolevSpace(d)
        row = []
        for _, e in named:
            txt, _raw = res_text(lambda: _E(e) in ds)
            row.append(txt)
        drows.append("[" + "; ".join(row) + "]")
    dl = "[" + "; ".join("[" + "; ".join(coq_ord(o) for o in d) + "]" for d in dirs) + "]"
    t.append(f"Definition dirs : list (list ord) := {dl}.\n")
    t.append("Example corr_contains_dir : map (fun b => map (contains_dir S b) tbl) dirs = [" + "; ".join(drows)
             + "].\nProof. vm_compute. reflexivity. Qed.\n")
    t.append("Theorem C25_membership_dir_ok : membership_dir_ok S tbl dirs tbl = true. Proof. vm_compute. reflexivity. Qed.\n")
    if not flag_contains:
        t.append("Theorem C25_membership_dir_refuted : exists b e, contains_dir S b e = RB false /\\ sub_spec S tbl (Named e) (Dir b) = true.\n"
                 "Proof. exists [Fin 1; Fin 0], n_H1. vm_compute. auto. Qed.\n")
    else:
        t.append("Theorem C25_membership_dir_all : membership_dir_all S tbl dirs tbl = true. Proof. vm_compute. reflexivity. Qed.\n")
    # membership for elements whose space is ANY grid space (also directional), for the space object itself and
    # for an equal but distinct copy of it (the model is value based)
    import copy
    for tag, mk in (("gen", lambda x: x), ("copy", copy.deepcopy)):
        grows = []
        for kt, tt in grid:
            row = []
            for kx, x in grid:
                txt, raw = res_text(lambda: _E(mk(x)) in tt)
                row.append(txt)
                run.count_case(("in-" + tag, str(x), str(tt)), nontrivial=True)
            grows.append("[" + "; ".join(row) + "]")
        t.append(f"Example corr_contains_{tag} : map (fun t => map (contains_gen S t) grid) grid = [\n"
                 + ";\n".join(grows) + "].\nProof. vm_compute. reflexivity. Qed.\n")
    if flag_named_contains and flag_contains and flag_explicit and flag_all_any:
        t.append("Theorem C25_membership_gen_all : membership_gen_all S tbl grid = true. Proof. vm_compute. reflexivity. Qed.\n")
    else:
        t.append("Theorem C25_membership_gen_refuted : exists t x, contains_gen S t x = RB false /\\ sub_spec S tbl x t = true.\n"
                 "Proof. exists (Named n_H1), (Dir [Fin 2; Fin 2]). vm_compute. auto. Qed.\n")
    t.append("Print Assumptions C25_grid_ok_outside_known.\nPrint Assumptions C25_named_trans.\n")
    path = os.path.join(vlib.GEN, "C25_table.v")
    vlib.write_if_changed(path, "".join(t))
    hand = vlib.coqc("Props/C25_model.v")
    run.add_coq_result(hand)
    res = vlib.coqc(path)
    run.add_coq_result(res)
    run.checker_cmds.append("coqc -Q coq UFLV coq/Props/C25_model.v coq/Gen/C25_table.v")
    run.extra["exhaustive"] = True
    run.extra["grid_size"] = len(grid)
    run.sample({"pair": ["HDiv", "HCurl"], "HDiv>HCurl": observed[("gt", "HDiv", "HCurl")],
                "HCurl<HDiv": observed[("lt", "HCurl", "HDiv")]})
    run.sample({"pair": ["DirectionalH(2, 0)", "DirectionalH(0, 2)"],
                "a<b": observed.get(("lt", "DirectionalH(2, 0)", "DirectionalH(0, 2)")),
                "b<a": observed.get(("lt", "DirectionalH(0, 2)", "DirectionalH(2, 0)"))})

    expected_shape = EXPECTED_SHAPE_EXPLICIT if flag_explicit else EXPECTED_SHAPE
    shape_ok = all(shape.get(k) == v for k, v in expected_shape.items())
    # ---- known findings: replay the recorded witnesses on the real code
    known = {k["id"]: k for k in vlib.load_known_findings("C25")}
    H = {v.name: v for _, v in named}
    D = ss.DirectionalSobolevSpace

    def still(kid):
        try:
            return still_(kid)
        except Exception:  # noqa: BLE001   (a repaired comparison may raise instead of returning nonsense)
            return False

    def still_(kid):
        if kid == "total-ordering-on-partial-order":
            return (H["HDiv"] > H["HCurl"]) is True and (H["HCurl"] < H["HDiv"]) is False
        if kid == "directional-lt-any":
            a, b = D((2, 0)), D((0, 2))
            return (a < b) is True and (b < a) is True
        if kid == "directional-lt-returns-exception-object":
            r = D((1, 1)) < H["HEin"]
            return isinstance(r, Exception)
        if kid == "directional-membership-proper-superset":
            return (_E(H["H1"]) in D((1, 0))) is False
        if kid == "directional-lt-named-any":
            return (D((2, 0)) < H["H1"]) is True
        if kid == "named-membership-of-directional-element":
            return (_E(D((2, 2))) in H["H1"]) is False
        return False

    # a defective variant is only acceptable while an OPEN known finding records it; a repaired defect that
    # comes back is a violation (the probes below are the failing inputs)
    probes = {
        "total-ordering-on-partial-order": (not flag_explicit, {"a": "HDiv", "b": "HCurl", "observed": "HDiv > HCurl is True "
                                            "while HCurl < HDiv is False", "expected": "both False (incomparable)"}),
        "directional-lt-any": (not flag_all_any, {"a": "DirectionalH(2, 0)", "b": "DirectionalH(0, 2)",
                                                  "observed": "a < b is True", "expected": "False (incomparable)"}),
        "directional-lt-returns-exception-object": (not flag_raises, {"a": "DirectionalH(1, 1)", "b": "HEin",
                                                    "observed": "a < b returns an exception object (truthy)",
                                                    "expected": "raise"}),
        "directional-membership-proper-superset": (not flag_contains, {"element_space": "H1", "space": "DirectionalH(1, 0)",
                                                   "observed": "fe in space is not True", "expected": "True"}),
        "named-membership-of-directional-element": (not flag_named_contains, {"element_space": "DirectionalH(2, 2)",
                                                    "space": "H1", "observed": "fe in H1 is not True",
                                                    "expected": "True (H^(2,2) == H2 <= H1)"}),
    }
    returned = [(kid, w_) for kid, (bad, w_) in probes.items() if bad and kid not in known]
    for kid, w_ in returned:
        run.violation({"broken": f"the defect '{kid}' is present and no open known finding records it "
                                 "(a repaired defect has returned)", "witness": w_, "reproduce": "bin/check C25"}, True)
    if res.ok and hand.ok and shape_ok:
        for kid, k in known.items():
            if still(kid):
                run.known(f"{kid}: {k['what']}")
    else:
        # the tie broke: search the real results for a law failure OUTSIDE the known classes
        w = python_search(grid, ops)
        rep = {"broken_obligation": (res.failing_lemma() if not res.ok else None) or
               ("class definitions changed shape: %r" % shape if not shape_ok else "C25_model.v"),
               "coq_message": (res.err or hand.err or "")[-500:], "reproduce": "bin/check C25"}
        if w:
            rep["witness"] = w
        run.violation(rep, bool(w))
    run.trusted.update([
        "Coq 8.16.1 kernel; vm_compute for the finite table/grid theorems",
        "functools.total_ordering and CPython's reflected-operand priority as modelled in Props/C25_model.v "
        "(validated exhaustively on the grid)",
        "subspace specification sub_spec: H(a) in named b iff H^{min a} in b; named a in H(b) iff a in every H^{b_i}",
    ])
    return run.finish(
        rule="all pairs of the grid (12 predefined spaces + all directional spaces with <= %d directions over orders "
             "{0,1,2,3,inf}) x operators <,>,<=,>=,== ; distinct = distinct (operator, a, b)" % maxlen,
        assumptions=["directional orders outside {0,1,2,3,inf} raise KeyError in __getitem__ and are not modelled"])


def python_search(grid, ops):
    """law failures on the real classes, excluding the two known classes (incomparable pairs / unknown spaces)"""
    import ufl.sobolevspace as ss

    def minitem(d):
        m = min(d._orders)
        return {0: ss.L2, 1: ss.H1, 2: ss.H2, 3: ss.H3, math.inf: ss.HInf}[m]

    def nsub(a, b):
        return a.name == b.name or b in a.parents

    def sub(x, y):
        (kx, a), (ky, b) = x, y
        if kx == "N" and ky == "N":
            return nsub(a, b)
        if kx == "D" and ky == "D":
            return len(a._orders) == len(b._orders) and all(p >= q for p, q in zip(a._orders, b._orders))
        if kx == "D":
            return nsub(minitem(a), b)
        return all(nsub(a, {0: ss.L2, 1: ss.H1, 2: ss.H2, 3: ss.H3, math.inf: ss.HInf}[o]) for o in b._orders)

    for x in grid:
        if x[0] == "N" and x[1].name in MATH_COVERS:
            got = {p.name for p in x[1].parents}
            if got != math_supersets(x[1].name):
                other = sorted(got ^ math_supersets(x[1].name))[0]
                return {"a": x[1].name, "b": other, "operator": "lt", "returned": other in got,
                        "expected": other in math_supersets(x[1].name),
                        "note": "a < b must hold exactly when a is a proper subspace of b"}
    class _El:
        def __init__(self, s):
            self.sobolev_space = s
    items = {0: ss.L2, 1: ss.H1, 2: ss.H2, 3: ss.H3, math.inf: ss.HInf}
    for x in grid:
        if x[0] != "D":
            continue
        for y in grid:
            if y[0] != "N":
                continue
            eqs = [items[o].name == y[1].name for o in x[1]._orders]
            if any(eqs) and not all(eqs):
                continue          # known-finding class C
            try:
                r = _El(y[1]) in x[1]
            except Exception as e:  # noqa: BLE001
                r = f"raised {type(e).__name__}"
            if r is not sub(y, x):
                return {"element_space": y[1].name, "space": str(x[1]), "operator": "in", "returned": repr(r),
                        "expected": sub(y, x)}
    import copy
    for tt in grid:
        for x in grid:
            if (x[0] != tt[0]) and ((x[1].name in UNKNOWN) or (tt[1].name in UNKNOWN)):
                continue
            if tt[0] == "D" and x[0] == "N":
                continue          # covered above (with the known class)
            for how, mk in (("the space object", lambda z: z), ("an equal copy (copy.deepcopy)", copy.deepcopy)):
                try:
                    r = _El(mk(x[1])) in tt[1]
                except Exception as e:  # noqa: BLE001
                    r = f"raised {type(e).__name__}"
                if r is not sub(x, tt):
                    return {"element_space": str(x[1]), "element_space_is": how, "space": str(tt[1]), "operator": "in",
                            "returned": repr(r), "expected": sub(x, tt),
                            "note": "fe in t must hold exactly when fe.sobolev_space <= t"}
    for x in grid:
        for y in grid:
            unk = (x[0] != y[0]) and ((x[1].name in UNKNOWN) or (y[1].name in UNKNOWN))
            if unk or not (sub(x, y) or sub(y, x)):
                continue
            exp = {"lt": sub(x, y) and not sub(y, x), "gt": sub(y, x) and not sub(x, y), "le": sub(x, y),
                   "ge": sub(y, x), "eq": sub(x, y) and sub(y, x)}
            for nm, f in ops.items():
                try:
                    r = f(x[1], y[1])
                except Exception as e:  # noqa: BLE001
                    r = f"raised {type(e).__name__}"
                if r is not exp[nm]:
                    return {"a": str(x[1]), "b": str(y[1]), "operator": nm, "returned": repr(r)[:80],
                            "expected": exp[nm]}
    return None
