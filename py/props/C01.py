"""C01 - Form preprocessing preserves the meaning of every integral (composition).

(a) T1: the stage list of compute_form_data / preprocess_form / FormData.__init__ is translated from
    the source with `ast` into a Gallina function of the option record (Gen/C01_extracted.v); Coq
    proves for ALL 2^11 option records that the scaling stage occurs exactly once iff requested, the
    order constraints the stages rely on, and - from Props/C01_pipeline.v - that any run of the
    extracted pipeline whose stages are individually sound (the other properties) yields
    meaning' = scale * meaning or raises.
(b) T2: the measure scaling factor built by the real compute_integrand_scaling_factor for every
    integral type x cell is proved equal to |detJ|*w / detFJ*w / detRJ*w / w / 1.
(c) T2 end-to-end: the real compute_form_data is run on a zoo of single-integral forms for every
    combination of {pullbacks, scaling, geometry lowering, cancel Jacobians, remove component tensors}
    and Coq proves, for all field values, den(preprocessed integrand) = den(scale) * den(integrand
    after preprocess_form), with the chain rule through the affine cell map and the definitions of the
    lowered geometric quantities as hypotheses (they are what C03/C07/C08 establish)."""

import itertools
import os

import ufl
from ufl.algorithms import compute_form_data
from ufl.algorithms.apply_integral_scaling import compute_integrand_scaling_factor

import C01_extract
import coqgen
import uflgen
import ufl2coq
import vlib

HAND_FILES = ["Props/C01_pipeline.v"]


def part_a(run):
    ex = C01_extract.Extractor(vlib.REPO)
    try:
        body = ex.extracted()
    except C01_extract.Unrecognised as e:
        run.violation({"broken": "compute_form_data / preprocess_form / FormData.__init__ no longer have the shape "
                                 "the pipeline translator understands", "detail": str(e)}, False)
        return False
    t = ("Require Import UFLV.Props.C01_pipeline.\nRequire Import List Bool.\nImport ListNotations.\n"
         "(* translated from ufl/algorithms/compute_form_data.py and formdata.py *)\n"
         f"Definition extracted (o : opts) : list stage :=\n  {body}.\n"
         "Theorem C01_scaling_once o : count_stage IntegralScaling (extracted o) = if o_scaling o then 1 else 0.\n"
         "Proof. all_options o; vm_compute; reflexivity. Qed.\n"
         "Theorem C01_order o : order_ok o (extracted o) = true.\n"
         "Proof. all_options o; vm_compute; reflexivity. Qed.\n"
         "Theorem C01_pipeline_sound (form V : Type) (scale : V -> V) (sem : form -> V) (run : stage -> form -> option form) :\n"
         "  (forall s f f', s <> IntegralScaling -> run s f = Some f' -> sem f' = sem f) ->\n"
         "  (forall f f', run IntegralScaling f = Some f' -> sem f' = scale (sem f)) ->\n"
         "  forall o f f', run_all form run (extracted o) f = Some f' ->\n"
         "  sem f' = if o_scaling o then scale (sem f) else sem f.\n"
         "Proof. intros Hs Hc o f f' H. eapply pipeline_sound; eauto. apply C01_scaling_once. Qed.\n"
         "Print Assumptions C01_pipeline_sound.\nPrint Assumptions C01_order.\n")
    path = os.path.join(vlib.GEN, "C01_extracted.v")
    vlib.write_if_changed(path, t)
    res = vlib.coqc(path, timeout=1500)
    run.add_coq_result(res)
    run.sample({"extracted_pipeline": body[:600]})
    if not res.ok:
        w = pipeline_search()
        rep = {"broken_obligation": res.failing_lemma(), "coq_message": (res.err or "")[-500:],
               "extracted": body, "reproduce": "bin/check C01"}
        if w:
            rep["witness"] = w
        run.violation(rep, bool(w))
        return False
    return True


def pipeline_search():
    """numeric end-to-end search used when the pipeline theorems break: compare preprocessed and original
    integrands on a few forms for all option combinations"""
    try:
        import C01_e2e
        return C01_e2e.numeric_search()
    except Exception:  # noqa: BLE001
        return None


def scaling_cases():
    cases = []
    for cell, g in (("interval", 1), ("interval", 2), ("triangle", 2), ("triangle", 3), ("tetrahedron", 3)):
        m = uflgen.mesh(cell, g)
        td = m.topological_dimension
        f = uflgen.coef((), cell, g)
        kinds = {"cell": ufl.dx, "exterior_facet": ufl.ds, "interior_facet": ufl.dS, "vertex": ufl.dP,
                 "custom": ufl.Measure("dc")}
        if td > 2:
            kinds["ridge"] = ufl.Measure("dr")
        for it, meas in kinds.items():
            integrand = f("+") if it == "interior_facet" else f
            try:
                integral = (integrand * meas(m)).integrals()[0]
            except Exception:  # noqa: BLE001
                continue
            scale, degree = compute_integrand_scaling_factor(integral)
            scale = ufl.as_ufl(scale)
            w = ufl.classes.QuadratureWeight(m)
            if it == "cell":
                spec = abs(ufl.classes.JacobianDeterminant(m)) * w
            elif it == "exterior_facet":
                spec = ufl.classes.FacetJacobianDeterminant(m) * w if td > 1 else ufl.as_ufl(1)
            elif it == "interior_facet":
                spec = ufl.classes.FacetJacobianDeterminant(m)("+") * w if td > 1 else ufl.as_ufl(1)
            elif it == "ridge":
                spec = ufl.classes.RidgeJacobianDeterminant(m) * w
            elif it == "custom":
                spec = w
            else:
                spec = ufl.as_ufl(1)
            # the specification is built from raw nodes only to be denoted; den treats abs/product structurally
            cases.append(coqgen.Case(f"scale_{it}_{cell[:3]}{g}", out=scale, inp=spec,
                                     note={"integral_type": it, "cell": cell, "gdim": g}))
    return cases


def coordinate_derivative_scaling_cases():
    """apply_integral_scaling must move the scaling factor inside ALL nested CoordinateDerivatives and leave
    the derivative wrappers (direction, coordinate, ...) untouched"""
    from ufl.algorithms.apply_integral_scaling import apply_integral_scaling
    from ufl.classes import CoordinateDerivative
    cases, problems = [], []
    for cell, g in (("triangle", 2), ("interval", 1)):
        m = uflgen.mesh(cell, g)
        f = uflgen.coef((), cell, g)
        x = ufl.SpatialCoordinate(m)
        V = ufl.FunctionSpace(m, m.ufl_coordinate_element())
        dirs = [ufl.Coefficient(V) for _ in range(3)]
        for meas, mname in ((ufl.dx(m), "dx"), (ufl.ds(m), "ds")):
            F = f * f * meas
            for depth in range(0, 4):
                G = F
                for k in range(depth):
                    G = ufl.derivative(G, x, dirs[k])
                itg_in = G.integrals()[0].integrand()
                itg_out = apply_integral_scaling(G).integrals()[0].integrand()
                scale = ufl.as_ufl(compute_integrand_scaling_factor(G.integrals()[0])[0])
                a, b, d = itg_in, itg_out, 0
                while isinstance(a, CoordinateDerivative) and isinstance(b, CoordinateDerivative):
                    if a.ufl_operands[1:] != b.ufl_operands[1:]:
                        problems.append((cell, mname, depth, "coordinate-derivative operands changed"))
                    a, b, d = a.ufl_operands[0], b.ufl_operands[0], d + 1
                if isinstance(a, CoordinateDerivative) or isinstance(b, CoordinateDerivative) or d != depth:
                    problems.append((cell, mname, depth, "nesting depth of coordinate derivatives changed"))
                    continue
                nm = f"cdscale_{cell[:3]}{g}_{mname}_d{depth}"
                cases.append(coqgen.Case(nm, out=b, spec=f"mul (DEN s rho {nm}_SC []) (DEN s rho {nm}_IN [])",
                                         named={"SC": scale, "IN": a}, comps=[()],
                                         note={"integral": mname, "cell": cell, "coordinate_derivative_depth": depth,
                                               "innermost_output": str(b)[:200]}))
    return cases, problems


def main(run):
    ok_a = part_a(run)
    cases = scaling_cases()
    cdcases, cdproblems = coordinate_derivative_scaling_cases()
    cases += cdcases
    for pr in cdproblems:
        run.violation({"broken": "apply_integral_scaling does not keep the coordinate-derivative wrappers",
                       "witness": {"cell": pr[0], "measure": pr[1], "depth": pr[2], "what": pr[3]}}, True)
    for c in cases:
        run.count_case(c.name)
    failing = coqgen.emit_and_check(run, "C01scale", cases, shards=4)
    for case, lemma, msg in failing:
        run.violation({"broken_obligation": lemma, "case": getattr(case, "name", None), "coq_message": msg,
                       "note": getattr(case, "note", None),
                       "witness": {"integral_type": case.note.get("integral_type"), "cell": case.note.get("cell"),
                                   "coordinate_derivative_depth": case.note.get("coordinate_derivative_depth"),
                                   "built": str(case.out)[:400],
                                   "expected": str(case.inp)[:400] if case.inp is not None else
                                   "scaling factor * innermost integrand"} if case else None},
                      case is not None)
    try:
        import C01_e2e
        C01_e2e.run_end_to_end(run)
    except ImportError:
        run.assumptions.append("end-to-end traces (part c) not built in this revision")
    run.trusted.update([
        "Coq 8.16.1 kernel; vm_compute",
        "py/C01_extract.py (fail-closed ast translator of the pipeline into a Gallina stage list)",
        "soundness of the individual stages is the content of C02-C10, C15, C17, C23 (hypotheses of C01_pipeline_sound); "
        "apply_coordinate_derivatives, CoefficientSplitter and replace-functions are assumed stages",
    ])
    return run.finish(
        rule="(a) all 2^11 option records by case analysis inside Coq; (b) integral type x cell scaling factors; "
             "(c) zoo forms x option combinations; distinct = distinct case names",
        assumptions=["assumed_stages: apply_coordinate_derivatives, CoefficientSplitter, do_replace_functions, "
                     "group_form_integrals (C15), attach_estimated_degrees (metadata only)"])
