"""C09 - Jacobian product cancellation preserves values.

Hand-written, unbounded (coq/Props/C09_algebra.v): the algebraic laws the three traversals rely on
(contraction with a left inverse is a Kronecker delta, delta elimination, sum interchange, pushing a
factor into a sum, power laws for natural exponents and reciprocals), for every UFL algebra; the
refutation of merging `(x**2)**(1/2) * (1/x)` into 1.  The index substitution of
IdentityEliminator is the IndexReplacer of C10 (theorem C10_irep_den applies).

Per run, tie T2: the REAL cancel_jacobian_products is run on expressions typical after pullback and
derivative expansion (K.J and J.K contractions in all operand orders and nestings, extra factors,
re-used indices, Identity tensors, powers/reciprocals of detJ and of general bases, Piola mapped
forms) on cells with gdim = tdim and gdim > tdim; Coq proves den(out) = den(in) for ALL values of
J and of the remaining factors, under the hypotheses that JacobianInverse denotes the
(pseudo-)inverse of Jacobian (entrywise: env K[i,j] = den (Inverse J)[i,j]) and that the (Gram)
determinant and the cancelled bases are non-zero.  Real (non-integer) exponents are outside the
provable fragment (kpow is an uninterpreted symbol): they are validated numerically only and
reported as such."""

import itertools
import random
from fractions import Fraction

import ufl
from ufl.algorithms.apply_algebra_lowering import apply_algebra_lowering
from ufl.algorithms.apply_derivatives import apply_derivatives
from ufl.algorithms.apply_function_pullbacks import apply_function_pullbacks
from ufl.algorithms.cancel_jacobian_products import cancel_jacobian_products
from ufl.algorithms.remove_component_tensors import remove_component_tensors
from ufl.classes import (Division, FixedIndex, FloatValue, Identity, Index, Indexed, IndexSum, IntValue,
                         Jacobian, JacobianDeterminant, JacobianInverse, MultiIndex, Power, Product, Sum)
from ufl.corealg.traversal import unique_pre_traversal

import C10_gen
import C10_lib
import coqgen
import pyden
import ufl2coq
import uflgen
import vlib
from elements import FiniteElement

HAND_FILES = ["Props/C10_model.v", "Props/C10_lemmas.v", "Props/C10_thm.v", "Props/C09_algebra.v"]
MAIN_THEOREMS = ["C09_algebra.C09_contraction_delta", "C09_algebra.C09_delta_elim",
                 "C09_algebra.C09_delta_elim_l", "C09_algebra.C09_sum_interchange",
                 "C09_algebra.C09_push_factor", "C09_algebra.C09_pow_merge", "C09_algebra.C09_pow_pow",
                 "C09_algebra.C09_recip_cancel", "C09_algebra.C09_recip_partial",
                 "C09_algebra.C09_recip_refuted", "C10_thm.C10_irep_den"]

KJ, KK, KD = ufl2coq.KIND_OF_GEOMETRY["Jacobian"], ufl2coq.KIND_OF_GEOMETRY["JacobianInverse"], \
    ufl2coq.KIND_OF_GEOMETRY["JacobianDeterminant"]

EXTRA_HEADER = r'''
Ltac norm_all :=
  repeat match goal with
         | H : ?L = ?R |- _ => progress norm_hyp H
         | H : ?L <> ?R |- _ => progress norm_hyp H
         end.
Ltac rew_env :=
  repeat match goal with
         | H : env _ _ _ _ = _ |- _ => rewrite !H; clear H
         end.
Ltac fin := first [ reflexivity | ring | field; nz_solve char0 ].
Ltac kjc := norm_all; norm_goal; first [ fin | rew_env; first [ fin | repeat unify1; fin ] ].
'''

DOMAINS_QUICK = [("triangle", 2), ("triangle", 3), ("interval", 1), ("interval", 2)]
DOMAINS_THOROUGH = DOMAINS_QUICK + [("tetrahedron", 3), ("interval", 3)]


class GeoEnv(pyden.Env):
    """random exact values: J cellwise constant full rank, K its (pseudo-)inverse, detJ > 0"""

    def t_Jacobian(self, t, comp, side):
        return self.field((ufl2coq.Ctx.term_key(t), tuple(comp)), constant=True)

    def _J(self, dom):
        J = Jacobian(dom)
        g, t = J.ufl_shape
        return [[self.t_Jacobian(J, (i, j), None).value() for j in range(t)] for i in range(g)], g, t

    def t_JacobianInverse(self, t, comp, side):
        M, g, td = self._J(t.ufl_domain())
        G = [[sum(M[k][i] * M[k][j] for k in range(g)) for j in range(td)] for i in range(td)]
        Gi = _inv(G)
        if Gi is None:
            raise ZeroDivisionError
        i, j = comp
        return self.const(sum(Gi[i][k] * M[j][k] for k in range(td)))

    def t_JacobianDeterminant(self, t, comp, side):
        return self.field((ufl2coq.Ctx.term_key(t), ()), constant=True)


def _inv(G):
    n = len(G)
    A = [[Fraction(x) for x in row] + [Fraction(int(i == j)) for j in range(n)] for i, row in enumerate(G)]
    for c in range(n):
        p = next((r for r in range(c, n) if A[r][c] != 0), None)
        if p is None:
            return None
        A[c], A[p] = A[p], A[c]
        piv = A[c][c]
        A[c] = [x / piv for x in A[c]]
        for r in range(n):
            if r != c and A[r][c] != 0:
                f = A[r][c]
                A[r] = [x - f * y for x, y in zip(A[r], A[c])]
    return [row[n:] for row in A]


def env_factory(seed):
    return GeoEnv(nv=2, order=0, seed=seed, positive=True)


def oracle(out, inp, trials=6, seed=0):
    return C10_lib.mismatch(out, inp, trials=trials, seed=seed, env_factory=env_factory)


# ------------------------------------------------------------------------------------------------
def MI(*ix):
    return MultiIndex(tuple(FixedIndex(i) if isinstance(i, int) else i for i in ix))


def IX(a, *ix):
    return Indexed(a, MI(*ix))


def SUM(body, k):
    return IndexSum(body, MultiIndex((k,)))


def prod(*fs):
    r = fs[0]
    for f in fs[1:]:
        r = Product(r, f)
    return r


def jacobian_cases(cell, gdim, rng, full):
    """(name, expression) list for one domain"""
    dom = uflgen.mesh(cell, gdim)
    J, K = Jacobian(dom), JacobianInverse(dom)
    g, t = J.ufl_shape
    i, j, k, l, m = (Index() for _ in range(5))
    x = uflgen.coef((), cell, gdim)
    vt, wt = uflgen.coef((t,), cell, gdim), uflgen.coef((t,), cell, gdim)
    vg = uflgen.coef((g,), cell, gdim)
    Att = uflgen.coef((t, t), cell, gdim)
    Agg = uflgen.coef((g, g), cell, gdim)
    out = []
    KJ_ = lambda a, kk, b: (IX(K, a, kk), IX(J, kk, b))  # noqa: E731
    JK_ = lambda a, kk, b: (IX(J, a, kk), IX(K, kk, b))  # noqa: E731
    # K.J -> delta on the reference side (valid for full rank J), all operand orders, extra factor
    a, b = KJ_(i, k, j)
    out.append(("KJ", SUM(prod(a, b), k)))
    out.append(("JK_order", SUM(prod(b, a), k)))
    out.append(("KJ_x1", SUM(prod(prod(a, b), x), k)))
    out.append(("KJ_x2", SUM(prod(a, prod(b, x)), k)))
    out.append(("KJ_x3", SUM(prod(prod(a, x), b), k)))
    out.append(("KJ_fixed", SUM(prod(*KJ_(0, k, t - 1)), k)))
    out.append(("KJ_diag", SUM(prod(*KJ_(i, k, i)), k)))
    # J.K -> delta on the physical side (only when the Jacobian is square)
    a2, b2 = JK_(i, k, j)
    out.append(("JK", SUM(prod(a2, b2), k)))
    out.append(("JK_x", SUM(prod(x, prod(a2, b2)), k)))
    if g == t:
        # contractions over the WRONG index pair (K^T.J^T, K^T.J): must not be cancelled
        out.append(("KJ_transposed", SUM(prod(IX(K, i, k), IX(J, j, k)), k)))
        out.append(("KtJ", SUM(prod(IX(K, k, i), IX(J, k, j)), k)))
        out.append(("KJt_v", SUM(SUM(prod(IX(K, i, k), IX(J, j, k), IX(vt, j)), k), j)))
    # contraction of the delta with further factors, nestings and sum interchange
    out.append(("KJv", SUM(SUM(prod(prod(a, b), IX(vt, j)), k), j)))
    out.append(("KJv_swap", SUM(SUM(prod(prod(a, b), IX(vt, j)), j), k)))
    out.append(("KJv_push", SUM(prod(IX(vt, j), SUM(prod(a, b), k)), j)))
    out.append(("KJv_push2", SUM(prod(SUM(prod(b, a), k), IX(vt, j)), j)))
    out.append(("vKJw", SUM(SUM(SUM(prod(IX(vt, i), a, b, IX(wt, j)), k), j), i)))
    out.append(("KJA_trace", SUM(SUM(SUM(prod(a, b, IX(Att, i, j)), k), j), i)))
    out.append(("KJ_trace", SUM(SUM(prod(*KJ_(i, k, i)), k), i)))
    out.append(("JKv", SUM(SUM(prod(prod(a2, b2), IX(vg, j)), k), j)))
    out.append(("JKA", SUM(SUM(SUM(prod(a2, b2, IX(Agg, j, i)), k), j), i)))
    # K.J.K.J chains
    c1, c2 = KJ_(j, l, m)
    out.append(("KJKJ", SUM(SUM(SUM(prod(a, b, c1, c2), k), l), j)))
    # a sum over an index that is re-used in an independent inner scope
    out.append(("reuse_inner", SUM(prod(a, b, SUM(prod(IX(vt, k), IX(wt, k)), k)), k)))
    out.append(("reuse_sibling", prod(SUM(prod(a, b), k), SUM(prod(*KJ_(j, k, i)), k))))
    # Identity tensors
    It, Ig = Identity(t), Identity(g)
    out.append(("I_v", SUM(prod(IX(It, i, j), IX(vt, j)), j)))
    out.append(("I_vw", SUM(prod(IX(vt, j), IX(It, j, i), IX(wt, j)), j)))
    out.append(("I_fixed_col", SUM(prod(IX(It, j, 0), IX(vt, j)), j)))
    out.append(("I_fixed_one", prod(IX(It, 0, 0), x)))
    out.append(("I_diag_kept", SUM(prod(IX(Ig, j, j), x), j)))
    out.append(("I_alone", SUM(IX(It, i, j), j)))
    out.append(("I_A", SUM(SUM(prod(IX(It, i, j), IX(Att, i, j)), j), i)))
    if t > 1:
        out.append(("I_fixed_zero", Sum(prod(IX(It, 0, 1), x), x)))
    out.append(("I_I", SUM(prod(IX(It, i, j), IX(It, j, l)), j)))
    # diagonal entries Identity[k,k] / trace-like contractions next to other k-dependent factors:
    # a diagonal entry is NOT a Kronecker delta
    out.append(("diag_v", SUM(prod(IX(It, j, j), IX(vt, j)), j)))
    out.append(("diag_vw", SUM(prod(IX(vt, j), IX(It, j, j), IX(wt, j)), j)))
    out.append(("diag_A", SUM(prod(IX(Att, j, j), IX(It, j, j)), j)))
    out.append(("trace_v", SUM(prod(IX(vt, i), SUM(prod(IX(K, i, k), IX(J, k, i)), k)), i)))
    out.append(("trace_v2", SUM(SUM(prod(IX(K, i, k), IX(J, k, i), IX(vt, i)), k), i)))
    out.append(("trace_JK_v", SUM(prod(IX(vg, i), SUM(prod(IX(J, i, k), IX(K, k, i)), k)), i)))
    out.append(("diag_free", prod(IX(It, i, i), IX(vt, i))))
    # an index that is free in one factor is bound inside a sibling factor (not hygienic, legal UFL)
    out.append(("nh_push_K", SUM(prod(IX(K, j, k), SUM(prod(IX(J, k, j), IX(vt, j)), j)), k)))
    out.append(("nh_push_K2", SUM(prod(SUM(prod(IX(vt, j), IX(J, k, j)), j), IX(K, j, k)), k)))
    out.append(("nh_push_I", SUM(prod(IX(It, j, k), SUM(prod(IX(Att, k, j), IX(vt, j)), j)), k)))
    out.append(("nh_elim", SUM(prod(IX(It, i, k), SUM(IX(Att, i, k), i)), k)))
    if g == t:
        out.append(("nh_push_J", SUM(prod(IX(J, j, k), SUM(prod(IX(K, k, j), IX(vt, j)), j)), k)))
    # several contractions in ONE expression that share their dummy index OBJECTS but pair them with
    # different free indices (the substitution k -> a of one elimination must not leak into the next)
    a_, b_ = Index(), Index()
    tmpl = {
        "Iv": lambda fr, v: SUM(prod(IX(It, fr, j), IX(v, j)), j),
        "Ivl": lambda fr, v: SUM(prod(IX(v, j), IX(It, j, fr)), j),
        "KJv": lambda fr, v: SUM(SUM(prod(IX(K, fr, k), IX(J, k, j), IX(v, j)), k), j),
        "push": lambda fr, v: SUM(prod(IX(v, j), SUM(prod(IX(K, fr, k), IX(J, k, j)), k)), j),
    }
    names = list(tmpl)
    combos = [(p_, q_) for p_ in names for q_ in names]
    if not full:
        rng.shuffle(combos)
        combos = combos[:5]
    for p_, q_ in combos:
        out.append((f"pair_{p_}_{q_}", prod(tmpl[p_](a_, vt), tmpl[q_](b_, wt))))
    out.append(("pair_sum", SUM(prod(Sum(tmpl["Iv"](a_, vt), tmpl["KJv"](a_, wt)), tmpl["Iv"](b_, wt), IX(vt, b_)), b_)))
    out.append(("triple", prod(tmpl["Iv"](a_, vt), tmpl["Ivl"](b_, wt), tmpl["KJv"](i, vt))))
    return [(f"{cell[:3]}{gdim}_{n}", e) for n, e in out]


def reciprocal_cases(rng):
    dom = uflgen.mesh("triangle", 2)
    d = JacobianDeterminant(dom)
    x, y = uflgen.coef(()), uflgen.coef(())
    v = uflgen.coef((2,))
    i = Index()
    one = IntValue(1)
    P = lambda b, n: Power(b, IntValue(n))  # noqa: E731
    R = lambda b: Division(one, b)          # noqa: E731
    out = []
    out.append(("d2_rd2", prod(P(d, 2), P(R(d), 2)), [d]))
    out.append(("d3_rd2", prod(P(d, 3), P(R(d), 2)), [d]))
    out.append(("d_rd", prod(d, R(d)), [d]))
    out.append(("rd_y_d", prod(prod(R(d), y), d), [d]))
    out.append(("d_d_rd2", prod(prod(d, d), R(P(d, 2))), [d]))
    out.append(("d_rd3", prod(d, R(P(d, 3))), [d]))
    out.append(("rrd_rd", prod(R(R(d)), R(d)), [d]))
    out.append(("pp_x", prod(P(P(x, 2), 3), R(P(x, 5))), [x]))
    s = Sum(x, y)
    out.append(("base_sum", prod(P(s, 2), R(s)), [s]))
    out.append(("two_bases", prod(prod(prod(x, R(y)), y), R(P(x, 2))), [x, y]))
    out.append(("free_factor", prod(prod(IX(v, i), d), R(d)), [d]))
    out.append(("no_mixed", prod(P(d, 2), P(d, 3)), []))
    out.append(("only_recip", prod(R(d), R(P(d, 2))), [d]))
    out.append(("nested_prod", prod(prod(x, prod(d, y)), prod(R(d), R(x))), [d, x]))
    # reciprocals whose numerator is a constant other than 1, or not a constant
    C = lambda c, b: Division(c if isinstance(c, ufl.core.expr.Expr) else ufl.as_ufl(c), b)  # noqa: E731
    out.append(("num2_d", prod(C(2, d), d), [d]))
    out.append(("num2_d_f", prod(prod(C(2, d), d), y), [d]))
    out.append(("num3_sq", prod(P(C(3, d), 2), P(d, 2)), [d]))
    out.append(("num_neg", prod(C(-1, d), P(d, 2)), [d]))
    out.append(("num_half", prod(d, C(0.5, P(d, 2))), [d]))
    out.append(("num_float1", prod(C(1.0, d), d), [d]))
    out.append(("num_expr", prod(C(y, d), d), [d]))
    out.append(("num2_both", prod(prod(C(2, x), C(3, x)), P(x, 2)), [x]))
    out.append(("num_rr", prod(R(C(2, d)), R(d)), [d]))
    out += random_reciprocals(rng, 10)
    return [("rc_" + n, e, nz) for n, e, nz in out]


def random_reciprocals(rng, count):
    """random products of powers / reciprocals (with arbitrary constant numerators) of a few bases"""
    dom = uflgen.mesh("triangle", 2)
    d = JacobianDeterminant(dom)
    x, y = uflgen.coef(()), uflgen.coef(())
    bases = [d, x, Sum(x, y)]
    out = []
    for q in range(count):
        fs, used = [], []
        bs = rng.sample(bases, rng.choice([1, 1, 2]))
        for _ in range(rng.randint(2, 4)):
            b = rng.choice(bs)
            n = rng.choice([1, 1, 2, 3])
            c = ufl.as_ufl(rng.choice([1, 1, 2, 3, -1, 0.5, 1.0]))
            pw = lambda z, m: z if m == 1 else Power(z, IntValue(m))   # noqa: E731
            form = rng.choice(["pow", "pow", "c/b^n", "(c/b)^n", "1/(c/b)", "other"])
            if form == "pow":
                f = pw(b, n)
            elif form == "c/b^n":
                f = Division(c, pw(b, n))
            elif form == "(c/b)^n":
                f = pw(Division(c, b), n)
            elif form == "1/(c/b)":
                f = Division(IntValue(1), Division(c, b))
            else:
                f = y
            fs.append(f)
            if b not in used:
                used.append(b)
        rng.shuffle(fs)
        try:
            e = prod(*fs) if rng.random() < 0.5 else Product(fs[0], prod(*fs[1:]))
        except ValueError:
            continue
        if isinstance(e, Product):
            out.append((f"rnd{q}", e, used))
    return out


def real_exponent_cases(rng, count):
    """Products with real (non-integer) exponents, including nested powers (x**a)**b with every
    combination of even / odd inner and fractional / integral outer exponent.  kpow is an
    uninterpreted symbol of the abstract algebra, so these are validated numerically only, with
    the float oracle `real_mismatch` that also samples NEGATIVE bases."""
    dom = uflgen.mesh("triangle", 2)
    d = JacobianDeterminant(dom)
    x = uflgen.coef(())
    one = IntValue(1)
    F = FloatValue
    out = [("d15_rd05", prod(Power(d, F(1.5)), Division(one, Power(d, F(0.5))))),
           ("d05_rd05", prod(Power(d, F(0.5)), Division(one, Power(d, F(0.5))))),
           ("d20_rd", prod(Power(d, F(2.0)), Division(one, d))),
           ("x25_rx05", prod(Power(x, F(2.5)), Power(Division(one, x), F(0.5))))]
    inner = [1, 2, 3, 4, 6]
    outer = [0.5, 1.5, 0.25, 2.0, 2, 3, 1.0 / 3]
    recips = [lambda b: Division(one, b), lambda b: Power(Division(one, b), IntValue(2)),
              lambda b: Division(one, Power(b, IntValue(3))), lambda b: b]
    combos = [(b, ai, co, r) for b in (d, x) for ai in inner for co in outer for r in range(len(recips))]
    rng.shuffle(combos)
    for q, (b, ai, co, r) in enumerate(combos[:count]):
        ib = b if ai == 1 else Power(b, IntValue(ai))
        e = prod(Power(ib, F(co) if isinstance(co, float) else IntValue(co)), recips[r](b))
        out.append((f"pp{q}_{ai}_{co:.3g}_{r}", e))
    return [("rx_" + n, e) for n, e in out if isinstance(e, Product)]


def real_mismatch(o, e):
    """float oracle for closed scalar expressions over scalar coefficients / detJ / literals with
    Product, Division, Power, Sum: every scalar terminal ranges over positive AND negative values;
    a sample where the input is undefined over the reals (negative base, fractional exponent) is
    skipped; the output must be defined and equal wherever the input is."""
    import math

    terms = []
    for z in list(unique_pre_traversal(e)) + list(unique_pre_traversal(o)):
        if z._ufl_is_terminal_ and not isinstance(z, ufl.classes.ScalarValue | MultiIndex) and z not in terms:
            if z.ufl_shape != ():
                return None
            terms.append(z)

    def ev(z, val):
        n = type(z).__name__
        if z in val:
            return val[z]
        if isinstance(z, ufl.classes.ScalarValue):
            return float(z._value)
        a = [ev(q, val) for q in z.ufl_operands]
        if n == "Product":
            return a[0] * a[1]
        if n == "Sum":
            return a[0] + a[1]
        if n == "Division":
            return a[0] / a[1]
        if n == "Power":
            return math.pow(a[0], a[1])
        raise KeyError(n)
    for vals in itertools.product([-2.0, 0.5, -0.75, 3.0], repeat=len(terms)):
        val = dict(zip(terms, vals))
        try:
            want = ev(e, val)
        except (ValueError, ZeroDivisionError, OverflowError):
            continue
        except KeyError:
            return None
        try:
            got = ev(o, val)
        except (ValueError, ZeroDivisionError, OverflowError) as ex:
            return {"kind": "value", "terminal_values": {str(k): v for k, v in val.items()},
                    "expected_value": want, "implementation_value": f"undefined ({ex})"}
        except KeyError:
            return None
        if abs(got - want) > 1e-9 * (1 + abs(want)):
            return {"kind": "value", "terminal_values": {str(k): v for k, v in val.items()},
                    "expected_value": want, "implementation_value": got}
    return None


def witness_recip():
    x = uflgen.coef(())
    return prod(Power(Power(x, IntValue(2)), FloatValue(0.5)), Division(IntValue(1), x))


def witness_capture():
    dom = uflgen.mesh("triangle", 2)
    A = uflgen.coef((2, 2))
    i, j = Index(), Index()
    It = Identity(2)
    return SUM(prod(IX(It, i, j), SUM(IX(A, i, j), i)), j)


def witness_push():
    dom = uflgen.mesh("triangle", 2)
    J, K = Jacobian(dom), JacobianInverse(dom)
    gv = uflgen.coef((2,))
    j, k = Index(), Index()
    return SUM(prod(IX(K, j, k), SUM(prod(IX(J, k, j), IX(gv, j)), j)), k)


def push_capture_class(e):
    """class predicate of the finding indexsum-push-capture (decidable on the input): some IndexSum
    over k has, among the factors of its summand, an Indexed factor f1 and an IndexSum over j such
    that j is a free index of f1 (pushing f1 under the inner sum captures j)"""
    from ufl.algorithms.cancel_jacobian_products import _flatten_product
    for x in unique_pre_traversal(e):
        if isinstance(x, IndexSum):
            fs = _flatten_product(x.ufl_operands[0], [])
            for f2 in fs:
                if isinstance(f2, IndexSum):
                    (j,) = f2.ufl_operands[1]
                    if any(isinstance(f1, Indexed) and j.count() in f1.ufl_free_indices for f1 in fs if f1 is not f2):
                        return True
    return False


def pow_of_pow_noninteger(e):
    """class predicate of the known finding: a Power with a non-integer constant exponent whose
    base is (after stripping 1/.) a Power -- decidable on the input"""
    def strip(b):
        while isinstance(b, Division) and isinstance(b.ufl_operands[0], ufl.classes.ScalarValue) \
                and b.ufl_operands[0]._value == 1:
            b = b.ufl_operands[1]
        return b
    for x in unique_pre_traversal(e):
        if isinstance(x, Power):
            b, ex = x.ufl_operands
            if isinstance(ex, ufl.classes.ScalarValue) and not isinstance(ex._value, complex) \
                    and float(ex._value) != int(ex._value):
                if isinstance(strip(b), Power):
                    return True
    return False


def piola_cases(tier):
    from ufl.pullback import contravariant_piola, covariant_piola
    from ufl.sobolevspace import HCurl, HDiv
    out = []
    cfgs = [("triangle", 2)] + ([("triangle", 3)] if tier == "thorough" else [])
    for cell, gdim in cfgs:
        dom = uflgen.mesh(cell, gdim)
        c = dom.ufl_cell()
        t = c.topological_dimension
        RT = FiniteElement("Raviart-Thomas", c, 1, (t,), contravariant_piola, HDiv)
        N1 = FiniteElement("N1curl", c, 1, (t,), covariant_piola, HCurl)
        for nm, el, mk in (("rt_divdiv", RT, lambda u, v: ufl.inner(ufl.div(u), ufl.div(v))),
                           ("rt_mass", RT, lambda u, v: ufl.inner(u, v)),
                           ("n1_mass", N1, lambda u, v: ufl.inner(u, v)),
                           ("n1_gradgrad", N1, lambda u, v: ufl.inner(ufl.grad(u), ufl.grad(v)))):
            V = ufl.FunctionSpace(dom, el)
            u, v = ufl.TrialFunction(V), ufl.TestFunction(V)
            f = mk(u, v) * ufl.dx
            f = apply_function_pullbacks(apply_algebra_lowering(f))
            f = apply_derivatives(f)
            f = remove_component_tensors(f)
            out.append((f"piola_{cell[:3]}{gdim}_{nm}", f.integrals()[0].integrand()))
    return out


# ------------------------------------------------------------------------------------------------
def geo_hyps(case, e):
    """hypotheses tying JacobianInverse to Jacobian, for every domain that occurs in e"""
    hyps = []
    doms = {}
    for x in unique_pre_traversal(e):
        if isinstance(x, (Jacobian, JacobianInverse)):
            doms[x.ufl_domain().ufl_id()] = x.ufl_domain()
    for x in unique_pre_traversal(e):
        if isinstance(x, JacobianDeterminant):
            _, da, _, _ = case.ctx.term(x)
            h = f"env s {KD} {da} [] <> z0"
            if h not in hyps:
                hyps.append(h)
    for dom in doms.values():
        J, K = Jacobian(dom), JacobianInverse(dom)
        g, t = J.ufl_shape
        _, ja, _, _ = case.ctx.term(J)
        _, ka, _, _ = case.ctx.term(K)
        Jt = f"(Term {KJ} {ja} [{g}; {t}])"
        if g == t:
            hyps.append(f"DET {t} (MAT (DEN s rho {Jt})) <> z0")
        else:
            hyps.append(f"DET {t} (GRAM {g} (MAT (DEN s rho {Jt}))) <> z0")
        if any(isinstance(x, JacobianInverse) for x in unique_pre_traversal(e)):
            for i in range(t):
                for j in range(g):
                    hyps.append(f"env s {KK} {ka} [{i}; {j}] = DEN s rho (Inverse {Jt}) [{i}; {j}]")
    return hyps


def make_case(name, e, o, nonzero=(), note=None):
    case = C10_lib.PassCase(name, o, e, tactic="kjc", note=note or {})
    hyps = geo_hyps(case, e)
    if nonzero:
        names = []

        def pre(c, ser):
            txt = ""
            for k, b in enumerate(nonzero):
                txt += f"Definition {c.name}_nz{k} : expr := {ser.expr(b)}.\n"
            return txt
        case.preamble = pre
        for k, _ in enumerate(nonzero):
            hyps.append(f"DEN s rho {name}_nz{k} [] <> z0")
    case.hyps = hyps
    return case


def main(run):
    known = {k["id"]: k for k in vlib.load_known_findings("C09")}
    live = set()
    # ---- known findings replayed on the real code
    if "reciprocal-power-of-power" in known:
        e = witness_recip()
        o = cancel_jacobian_products(e)
        w = C10_lib.mismatch(o, e, trials=12, seed=3, env_factory=lambda sd: pyden.Env(nv=2, order=0, seed=sd))
        wneg = _neg_base_mismatch(o, e)
        if wneg:
            live.add("reciprocal-power-of-power")
            run.known(f"id=reciprocal-power-of-power cancel_jacobian_products({e}) = {o}; at x = -2 the input is "
                      f"{wneg['expected_value']}, the output {wneg['implementation_value']}")
    if "identity-eliminator-capture" in known:
        e = witness_capture()
        try:
            o = cancel_jacobian_products(e)
            w = oracle(o, e, trials=4, seed=1)
        except Exception as ex:  # noqa: BLE001
            o, w = None, {"kind": "exception", "exception": repr(ex)}
        if w:
            live.add("identity-eliminator-capture")
            run.known(f"id=identity-eliminator-capture cancel_jacobian_products({e}) = {o}: {w['kind']} differs")

    if "indexsum-push-capture" in known:
        e = witness_push()
        try:
            o = cancel_jacobian_products(e)
            w = oracle(o, e, trials=4, seed=1)
        except Exception as ex:  # noqa: BLE001
            o, w = None, {"kind": "exception", "exception": repr(ex)}
        if w:
            live.add("indexsum-push-capture")
            run.known(f"id=indexsum-push-capture cancel_jacobian_products({e}) = {o}: {w['kind']} differs "
                      f"(implementation {w.get('implementation')}, expected {w.get('expected')})")

    rng = random.Random(f"{run.seed}-C09")
    full = run.tier == "thorough"
    todo = []
    for cell, gdim in (DOMAINS_THOROUGH if full else DOMAINS_QUICK):
        for nm, e in jacobian_cases(cell, gdim, rng, full):
            todo.append((nm, e, (), {"family": "jacobian/identity", "cell": cell, "gdim": gdim}))
    for nm, e, nz in reciprocal_cases(rng):
        todo.append((nm, e, nz, {"family": "reciprocal"}))
    try:
        for nm, e in piola_cases(run.tier):
            todo.append((nm, e, (), {"family": "piola form integrand"}))
    except Exception as ex:  # noqa: BLE001
        run.extra["piola_cases_error"] = repr(ex)[:300]
    # random index-notation expressions with Identity / K / J leaves mixed in (hygienic + reuse)
    todo += random_cases(run, rng)

    def known_class(e):
        if "indexsum-push-capture" in live and push_capture_class(e):
            return "indexsum-push-capture"
        if "identity-eliminator-capture" in live and not C10_gen.hygienic(e):
            return "identity-eliminator-capture"
        return None

    cases = []
    stats = {"cases": 0, "changed_by_pass": 0, "known_instances": {}, "numeric_only": 0}
    for nm, e, nz, note in todo:
        stats["cases"] += 1
        note = dict(note, input=str(e)[:300])
        try:
            o = cancel_jacobian_products(e)
        except Exception as ex:  # noqa: BLE001
            kc = known_class(e)
            if kc:
                stats["known_instances"][kc] = stats["known_instances"].get(kc, 0) + 1
                continue
            run.violation({"case": nm, "note": note, "input": str(e), "input_repr": repr(e)[:3000],
                           "witness": {"kind": "exception", "exception": repr(ex)}, "reproduce": "bin/check C09"}, True)
            continue
        if o != e:
            stats["changed_by_pass"] += 1
        w = oracle(o, e, trials=4, seed=run.seed)
        if w:
            kc = known_class(e)
            if kc:
                stats["known_instances"][kc] = stats["known_instances"].get(kc, 0) + 1
                continue
            run.violation({"case": nm, "note": note, "input": str(e), "input_repr": repr(e)[:3000],
                           "output": str(o)[:3000], "witness": w, "reproduce": "bin/check C09"}, True)
            continue
        n = 1
        for dd in e.ufl_index_dimensions + e.ufl_shape:
            n *= dd
        if n > 27:
            continue
        cases.append(make_case(nm, e, o, nz, note))
        run.count_case((nm, str(e)))
    # real exponents: numeric validation only
    for nm, e in real_exponent_cases(rng, 40 if not full else 200):
        o = cancel_jacobian_products(e)
        w = real_mismatch(o, e) or C10_lib.mismatch(o, e, trials=4, seed=run.seed, env_factory=env_factory)
        stats["numeric_only"] += 1
        run.count_case((nm, str(e)))
        if w:
            run.violation({"case": nm, "input": str(e), "output": str(o), "witness": w,
                           "note": "real exponent (numeric validation)", "reproduce": "bin/check C09"}, True)
    # the witness of the known finding must be inside its class, and nothing outside the class may fail
    if "reciprocal-power-of-power" in live and not pow_of_pow_noninteger(witness_recip()):
        run.violation({"broken": "class predicate of the known finding does not hold on its witness"}, False)

    run.extra["input_distribution"] = stats
    for c in cases[:6]:
        run.sample({"case": c.name, "input": str(c.inp)[:200], "output": str(c.out)[:200]})
    failing = coqgen.emit_and_check(run, "C09", cases, extra_header=EXTRA_HEADER,
                                    timeout=600 if run.tier == "quick" else 1500)
    C10_lib.record_hand_files(run, "C09", HAND_FILES, MAIN_THEOREMS)
    seen = set()
    for case, lemma, msg in failing:
        if case is None:
            run.violation({"broken": "generated obligations file does not compile", "message": msg}, False)
            continue
        if case.name in seen:
            continue
        seen.add(case.name)
        w = oracle(case.out, case.inp, trials=80, seed=run.seed + 1)
        rep = {"broken_obligation": lemma, "case": case.name, "note": case.note, "coq_message": msg,
               "input_expr": str(case.inp), "input_repr": repr(case.inp)[:3000],
               "output_expr": str(case.out)[:2000], "reproduce": "bin/check C09"}
        if w:
            rep["witness"] = w
        run.violation(rep, bool(w))
    run.trusted.update([
        "Coq 8.16.1 kernel (coqc); vm_compute used for normalisation, no native_compute",
        "py/ufl2coq.py serializer (node-for-node, fail-closed)",
        "hypothesis of every obligation: JacobianInverse = den (Inverse Jacobian) entrywise (adj/det for square, "
        "(J^T J)^-1 J^T for gdim > tdim), (Gram) determinant <> 0, cancelled bases <> 0",
        "real (non-integer) exponents: numeric validation with exact rational environments only",
        "py/pyden.py numeric mirror of den, used to route known-class inputs and to search failing inputs",
    ])
    return run.finish(
        rule="one case per (family member, cell, gdim); one obligation per valuation of the free indices and "
             "component, proved for all values of J and of the other operands",
        assumptions=["K is the (pseudo-)inverse of J and J has full rank", "bases of cancelled powers are non-zero",
                     "characteristic zero"])


def _neg_base_mismatch(o, e):
    """evaluate with the scalar coefficient x = -2 (floats; kpow = real power of the positive x**2)"""
    import math

    def ev(z, xv):
        n = type(z).__name__
        if n == "Coefficient":
            return xv
        if n in ("IntValue", "FloatValue"):
            return float(z._value)
        a = [ev(q, xv) for q in z.ufl_operands]
        if n == "Product":
            return a[0] * a[1]
        if n == "Division":
            return a[0] / a[1]
        if n == "Power":
            return math.pow(a[0], a[1])
        raise ValueError(n)
    try:
        a, b = ev(o, -2.0), ev(e, -2.0)
    except (ValueError, ZeroDivisionError):
        return None
    if abs(a - b) > 1e-9:
        return {"implementation_value": a, "expected_value": b}
    return None


def random_cases(run, rng):
    """index-notation expressions from the C10 generator (no component tensors: the pass assumes
    remove_component_tensors ran) multiplied / contracted with Identity and K.J factors"""
    out = []
    n = 25 if run.tier == "quick" else 250
    dom = uflgen.mesh("triangle", 2)
    J, K, It = Jacobian(dom), JacobianInverse(dom), Identity(2)
    for q in range(n):
        r = random.Random(f"{run.seed}-C09-r{q}")
        g = C10_gen.Gen(r, hygienic=(q % 2 == 0), max_dim=2,
                        knobs=dict(variables=0.0, lists=0.0, zeros=0.0, nested=0.0))
        g.s_ct = g.s_leaf          # no component tensors
        g.s_cond = g.s_leaf
        g.s_math = g.s_leaf
        i, j, k = Index(), Index(), Index()
        if q % 2 == 1:
            i = g.pool[0]
        try:
            body = g.scalar({j: 2}, 2)
            kind = r.choice(["I", "KJ", "I_l", "KJ_push", "pair", "pair", "diag", "trace", "nh_push"])
            if kind == "I":
                e = SUM(prod(IX(It, i, j), body), j)
            elif kind == "I_l":
                e = SUM(prod(body, IX(It, j, i)), j)
            elif kind == "KJ":
                e = SUM(SUM(prod(IX(K, i, k), IX(J, k, j), body), k), j)
            elif kind == "diag":
                e = SUM(prod(IX(It, j, j), body), j)
            elif kind == "trace":
                e = SUM(prod(body, SUM(prod(IX(K, j, k), IX(J, k, j)), k)), j)
            elif kind == "nh_push":
                # the pushed factor's free index is the dummy of the inner sum
                e = SUM(prod(IX(K, j, k), SUM(prod(IX(J, k, j), body), j)), k)
            elif kind == "pair":
                # two eliminations over the same dummy object j with different free partners
                i2 = Index()
                body2 = g.scalar({j: 2}, 1)
                e = prod(SUM(prod(IX(It, i, j), body), j), SUM(prod(body2, IX(It, j, i2)), j))
            else:
                e = SUM(prod(body, SUM(prod(IX(J, k, j), IX(K, i, k)), k)), j)
        except (C10_gen.GenError, ValueError, KeyError, IndexError):
            continue
        out.append((f"rnd{q}_{kind}", e, (), {"family": "random", "n": q, "hygienic": bool(C10_gen.hygienic(e))}))
    return out
