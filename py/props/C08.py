"""C08 - Function pullbacks implement each element's declared push-forward.

Hand-written (coq/Props/C08_spec.v): the specification `pf` (leaf Piola formulas, rank generic;
mixed = concatenation at the physical offsets; symmetric = push-forward of sub-element
symmetry(block)), a value-level model `apply_m` of MixedPullback.apply / SymmetricPullback.apply and
the theorem `C08_mixed_symmetric` (all element trees, all reference values, all J, K, detJ).

Tie T2 (this file, every run): the REAL `apply_function_pullbacks` is run on a Coefficient/Argument
of every enumerated element (pullback kind x cell x gdim x value rank, nested mixed/symmetric
trees), the result is serialised node for node, and Coq proves for every physical component c

    forall algebra env s rho,  detJ <> 0 ->  den out c = pf tree (RefValue f) J K detJ c

(J, K, detJ are unrelated symbols), plus the shape obligations: the model's `shape` of the output,
the reported ufl_shape, FunctionSpace.value_shape and the specification's `pshape tree` agree."""

import itertools
import random

import ufl
from ufl.algorithms.apply_function_pullbacks import apply_function_pullbacks
from ufl.classes import Jacobian, JacobianDeterminant, JacobianInverse

import C08_oracle as O
import coqgen
import ufl2coq
import uflgen
import vlib

HAND_FILES = ["Props/C08_spec.v"]

CELL_GDIMS = [("interval", 1, 1), ("interval", 1, 2), ("interval", 1, 3),
              ("triangle", 2, 2), ("triangle", 2, 3), ("tetrahedron", 3, 3)]

EXTRA_HEADER = "Set Warnings \"-require-in-section\".\nRequire Import UFLV.Props.C08_spec.\n"


class PCase(coqgen.Case):
    """A traced case whose specification is `pf tree` (or `pf_meshseq` for a mixed element on a
    MeshSequence); adds the shape-agreement obligations."""

    def __init__(self, name, out, descr, g, t, fterm, mesh, value_shape, ref_shape, note):
        ctx = ufl2coq.Ctx()
        meshes = list(mesh) if isinstance(mesh, (list, tuple)) else [mesh]
        geo = []
        for m in meshes:
            kJ, iJ = ctx.term(Jacobian(m))[:2]
            kK, iK = ctx.term(JacobianInverse(m))[:2]
            kD, iD = ctx.term(JacobianDeterminant(m))[:2]
            geo.append((kJ, iJ, kK, iK, kD, iD))
        kf, jf = ctx.term(fterm)[:2]
        self.seq = descr[0] == "seq"
        if self.seq:
            assert len(descr[1]) == len(meshes)
            self.tree = "[" + "; ".join(
                f"(@Build_geo A (env s {kJ} {iJ}) (env s {kK} {iK}) (env s {kD} {iD} []), {O.tree_text(x)})"
                for (kJ, iJ, kK, iK, kD, iD), x in zip(geo, descr[1])) + "]"
            spec = f"@pf_meshseq A {g} {t} {self.tree} (env s {kf} {jf}) {{c}}"
        else:
            kJ, iJ, kK, iK, kD, iD = geo[0]
            self.tree = O.tree_text(descr)
            spec = (f"@pf A {g} {t} (env s {kJ} {iJ}) (env s {kK} {iK}) (env s {kD} {iD} []) "
                    f"{self.tree} (env s {kf} {jf}) {{c}}")
        hyps = [f"env s {q[4]} {q[5]} [] <> z0" for q in geo]
        super().__init__(name, out=out, spec=spec, hyps=hyps, note=note, ctx=ctx)
        self.descr, self.g, self.t, self.fterm, self.mesh = descr, g, t, fterm, mesh
        self.value_shape, self.ref_shape = tuple(value_shape), tuple(ref_shape)

    def emit(self):
        txt = super().emit()
        if self.seq:
            # the list mentions the bound side variable s: state the sizes for every s
            tree = self.tree
            extra = (
                f"Example {self.name}_pshape : forall s : side, [seq_psize A {self.g} {tree}] = "
                f"{ufl2coq.natlist(self.value_shape)}. Proof. reflexivity. Qed.\n"
                f"Example {self.name}_rshape : forall s : side, [seq_rsize A {tree}] = "
                f"{ufl2coq.natlist(self.ref_shape)}. Proof. reflexivity. Qed.\n")
        else:
            extra = (
                f"Example {self.name}_pshape : pshape {self.g} {self.tree} = {ufl2coq.natlist(self.value_shape)}. "
                f"Proof. reflexivity. Qed.\n"
                f"Example {self.name}_rshape : rshape {self.tree} = {ufl2coq.natlist(self.ref_shape)}. "
                f"Proof. reflexivity. Qed.\n")
        extra += (f"Example {self.name}_vshape : shape {self.name}_out = {ufl2coq.natlist(self.value_shape)}. "
                  f"Proof. reflexivity. Qed.\n")
        self.lemmas = [f"{self.name}_pshape", f"{self.name}_rshape", f"{self.name}_vshape"] + self.lemmas
        return txt.replace(f"Example {self.name}_shape ", extra + f"Example {self.name}_shape ", 1)


def leaf_descriptors(t, tier):
    lead = [(), (2,)] + ([(2, 3)] if tier == "thorough" else [])
    out = []
    for k in [(), (2,)] + ([(2, 3), (3, 2, 2)] if tier == "thorough" else []):
        out.append(("leaf", "id", k))
        out.append(("leaf", "l2", k))
    for k in lead:
        out.append(("leaf", "contra", k + (t,)))
        out.append(("leaf", "cov", k + (t,)))
    for k in (lead[:2] if tier == "thorough" else lead[:1]):
        for kind in ("dcontra", "dcov", "covcontra"):
            out.append(("leaf", kind, k + (t, t)))
    return out


def nested_descriptors(t, g):
    """Fixed nested mixed/symmetric compositions (depth <= 3)."""
    L = lambda k, sh: ("leaf", k, sh)    # noqa: E731
    vec, ten = (t,), (t, t)
    sym22 = [0, 1, 1, 2]
    out = [
        ("mixed", [L("contra", vec), L("id", ())]),
        ("mixed", [L("id", (2,)), L("cov", vec), L("l2", ())]),
        ("mixed", [L("dcov", ten), L("contra", vec), L("id", ())]),
        ("mixed", [L("id", ()), L("id", (2,))], True),
        ("mixed", [L("id", ()), L("id", (2,))]),
        ("mixed", [L("covcontra", ten), L("dcontra", ten)]),
        ("mixed", [("mixed", [L("cov", vec), L("l2", ())]), L("contra", vec)]),
        ("mixed", [L("id", ()), ("mixed", [L("contra", (2,) + vec), ("mixed", [L("l2", (2,)), L("cov", vec)])])]),
        ("symm", (2, 2), sym22, [L("id", ()), L("id", ()), L("id", ())]),
        ("symm", (2, 2), [0, 1, 2, 0], [L("l2", ()), L("id", ()), L("l2", ())]),
        ("symm", (2, 3), [0, 1, 2, 2, 0, 1], [L("cov", vec), L("contra", vec), L("cov", vec)]),
        ("symm", (2,), [1, 0], [L("contra", vec), L("cov", vec)]),
        ("symm", (2, 2), [0, 1, 1, 0], [L("cov", vec), L("contra", vec)]),
        ("mixed", [("symm", (2, 2), sym22, [L("l2", ()), L("id", ()), L("id", ())]), L("contra", vec)]),
        ("symm", (2,), [0, 1],
         [("mixed", [L("contra", vec), L("id", ())]), ("mixed", [L("cov", vec), L("l2", ())])]),
        ("mixed", [L("id", ()),
                   ("symm", (2,), [1, 1], [("mixed", [L("cov", vec), L("l2", ())]),
                                           ("mixed", [L("contra", vec), L("id", ())])])]),
    ]
    if t >= 2:
        out.append(("symm", (2,), [0, 1], [L("dcov", ten), L("dcontra", ten)]))
    return out


def random_descriptor(rng, t, g, depth, budget=24):
    """Random element tree of depth <= `depth` with physical size <= budget."""
    def leaf():
        kind = rng.choice(list(O.KINDS))
        if kind in ("id", "l2"):
            sh = rng.choice([(), (2,), (3,), (2, 2)])
        elif kind in ("contra", "cov"):
            sh = rng.choice([(), (2,)]) + (t,)
        else:
            sh = (t, t)
        return ("leaf", kind, sh)

    def gen(d):
        if d <= 1 or rng.random() < 0.25:
            return leaf()
        if rng.random() < 0.65:
            return ("mixed", [gen(d - 1) for _ in range(rng.choice([2, 2, 3]))], rng.random() < 0.3)
        bs = rng.choice([(2,), (2, 2), (3,)])
        n = rng.choice([1, 2, 3])
        base = gen(d - 1)
        group = {"contra": ["contra", "cov"], "cov": ["contra", "cov"], "id": ["id", "l2"], "l2": ["id", "l2"],
                 "dcontra": ["dcontra", "dcov", "covcontra"], "dcov": ["dcontra", "dcov", "covcontra"],
                 "covcontra": ["dcontra", "dcov", "covcontra"]}
        ss = []
        for _ in range(n):
            if base[0] == "leaf":
                ss.append(("leaf", rng.choice(group[base[1]]), base[2]))
            else:
                ss.append(base)
        sym = [rng.randrange(n) for _ in range(O.prod(bs))]
        return ("symm", bs, sym, ss)

    for _ in range(200):
        d = gen(depth)
        if d[0] != "leaf" and O.prod(O.pshape(O.normalise(d), g)) <= budget:
            return d
    return ("mixed", [leaf(), leaf()])


SYM_ORDERS = ["rowmajor", "reversed", "diagfirst", "colmajor"]


def build_case(name, descr, cellname, t, g, argkind, note, sym_order="rowmajor"):
    nd = O.normalise(descr)
    O.SYM_ORDER = sym_order
    try:
        if nd[0] == "seq":
            # one fresh mesh per sub-element (same cell type and gdim, different Jacobians)
            cell = uflgen.CELLS[cellname]
            mesh = [ufl.Mesh(uflgen.LagrangeElement(cell, 1, (g,))) for _ in nd[1]]
            element = O.make_element(descr, cell)
            V = ufl.FunctionSpace(ufl.MeshSequence(mesh), element)
        else:
            mesh = uflgen.mesh(cellname, g)
            element = O.make_element(descr, mesh.ufl_cell())
            V = ufl.FunctionSpace(mesh, element)
    finally:
        O.SYM_ORDER = "rowmajor"
    f = ufl.Coefficient(V) if argkind == "C" else ufl.Argument(V, 0)
    out = apply_function_pullbacks(f)
    note = dict(note, element=O.short(nd), cell=cellname, gdim=g, tdim=t, form_argument=argkind,
                symmetry_dict_order=sym_order,
                value_shape=list(V.value_shape), reference_value_shape=list(element.reference_value_shape))
    return PCase(name, out, nd, g, t, f, mesh, V.value_shape, element.reference_value_shape, note)


def nested_sequence_probe():
    """Known finding meshsequence-nested-subdomain-dropped: replay the witnesses on the real code.
    Returns None if nested sub-elements of a MeshSequence element are pushed forward correctly, else a
    description of what fails (such elements are then left out of the enumerations)."""
    L = lambda k, sh: ("leaf", k, sh)    # noqa: E731
    M = ("mixed", [L("contra", (2,)), L("l2", ())])
    for d in [("seq", [("symm", (2,), [0, 1], [M, M]), L("id", ())]),
              ("seq", [("mixed", [L("contra", (2,)), L("id", ())])] * 2)]:
        try:
            c = build_case("probe", d, "triangle", 2, 2, "C", {})
            w = O.find_mismatch(c.out, c.descr, 2, 2, c.fterm, c.mesh, trials=4)
        except Exception as ex:
            return {"element": O.short(d), "raised": f"{type(ex).__name__}: {ex}"}
        if w:
            return {"element": O.short(d), "witness": w}
    return None


def sequence_descriptors(t, nested_ok=True):
    """mixed elements on a MeshSequence, with REPEATED equal sub-elements on different meshes"""
    L = lambda k, sh: ("leaf", k, sh)    # noqa: E731
    vec, ten = (t,), (t, t)
    if not nested_ok:
        return [
            ("seq", [L("contra", vec), L("contra", vec)]),
            ("seq", [L("cov", vec), L("id", ()), L("contra", vec), L("cov", vec)]),
            ("seq", [L("contra", vec), L("cov", vec)]),
            ("seq", [L("l2", ()), L("id", ()), L("l2", ())]),
            ("seq", [L("dcov", ten), L("covcontra", ten), L("dcov", ten)]),
            ("seq", [L("contra", (2,) + vec), L("l2", (2,)), L("contra", (2,) + vec)]),
        ]
    return [
        ("seq", [L("contra", vec), L("contra", vec)]),
        ("seq", [L("cov", vec), L("id", ()), L("contra", vec), L("cov", vec)]),
        ("seq", [L("contra", vec), L("cov", vec)]),
        ("seq", [L("l2", ()), L("id", ()), L("l2", ())]),
        ("seq", [("mixed", [L("contra", vec), L("id", ())]), L("dcov", ten),
                 ("mixed", [L("contra", vec), L("id", ())])]),
        ("seq", [("symm", (2,), [1, 0], [L("cov", vec), L("contra", vec)]), L("l2", (2,)),
                 ("symm", (2,), [1, 0], [L("cov", vec), L("contra", vec)])]),
    ]


def safe(s):
    return "".join(ch if ch.isalnum() else "_" for ch in s)


NESTED_SEQ_PROBE = {"result": None}


def build_cases(run):
    cases, skipped = [], []
    NESTED_SEQ_PROBE["result"] = nested_sequence_probe()
    tier = run.tier
    for cellname, t, g in CELL_GDIMS:
        for k, d in enumerate(leaf_descriptors(t, tier)):
            for ak in ("C", "A") if tier == "thorough" else ("A" if k % 3 == 0 else "C",):
                nm = safe(f"L_{cellname[:3]}{g}_{O.short(d)}_{ak}")
                cases.append((nm, d, cellname, t, g, ak, {"class": "leaf"}))
    nested_cells = CELL_GDIMS if tier == "thorough" else [("interval", 1, 2), ("triangle", 2, 3),
                                                          ("tetrahedron", 3, 3)]
    for cellname, t, g in nested_cells:
        for k, d in enumerate(nested_descriptors(t, g)):
            nm = safe(f"N_{cellname[:3]}{g}_{k}")
            cases.append((nm, d, cellname, t, g, "C" if k % 2 == 0 else "A", {"class": "nested"}))
    seq_cells = CELL_GDIMS if tier == "thorough" else [("interval", 1, 2), ("triangle", 2, 2), ("triangle", 2, 3),
                                                       ("tetrahedron", 3, 3)]
    nested_ok = NESTED_SEQ_PROBE["result"] is None
    for cellname, t, g in seq_cells:
        for k, d in enumerate(sequence_descriptors(t, nested_ok)):
            if tier == "quick" and cellname != "triangle" and k >= 3:
                continue
            nm = safe(f"Q_{cellname[:3]}{g}_{k}")
            cases.append((nm, d, cellname, t, g, "C" if k % 2 == 0 else "A", {"class": "mesh-sequence"}))
    rng = random.Random(1000 + run.seed)
    nrand = 8 if tier == "quick" else 80
    for k in range(nrand):
        cellname, t, g = rng.choice(CELL_GDIMS)
        d = random_descriptor(rng, t, g, depth=rng.choice([2, 3]))
        if rng.random() < 0.35:      # put it (twice, with something in between) on a MeshSequence
            other = random_descriptor(rng, t, g, depth=1, budget=6)
            if not nested_ok:        # known finding: only leaves can live on a MeshSequence
                leaves = [x for x in (d[1] if d[0] == "mixed" else d[3]) if x[0] == "leaf"] or [("leaf", "contra", (t,))]
                d, other = leaves[0], rng.choice(leaves + [("leaf", "l2", ()), ("leaf", "cov", (t,))])
            d = ("seq", rng.choice([[d, d], [d, other, d], [other, d]]))
        nm = safe(f"R_{cellname[:3]}{g}_{k}")
        cases.append((nm, d, cellname, t, g, rng.choice("CA"), {"class": "random", "seed": run.seed}))
    built = []
    for idx, (nm, d, cellname, t, g, ak, note) in enumerate(cases):
        nd = O.normalise(d)
        # the insertion order of the symmetry dict is the user's business: cycle through several orders
        order = SYM_ORDERS[idx % len(SYM_ORDERS)] if "Symm" in O.tree_text(nd) else "rowmajor"
        # symmetric elements whose sub-elements have different physical shapes are outside the
        # statement (pullback.py computes the shape from sub_elements[0]); never generated here
        try:
            built.append(build_case(nm, d, cellname, t, g, ak, note, order))
        except Exception as ex:     # the real code raised on a valid element: a failing input
            skipped.append({"case": nm, "element": O.short(nd), "element_tree": O.tree_text(nd), "cell": cellname,
                            "gdim": g, "form_argument": ak, "symmetry_dict_order": order,
                            "raised": f"{type(ex).__name__}: {ex}"})
    return built, skipped


def composite_cases():
    """The applier itself: every form argument inside an operator tree is replaced by its own
    push-forward (compared with substituting the separately traced push-forwards)."""
    out = []
    for cellname, t, g in [("triangle", 2, 2), ("triangle", 2, 3), ("tetrahedron", 3, 3)]:
        mesh = uflgen.mesh(cellname, g)
        cell = mesh.ufl_cell()
        mk = lambda d: ufl.FunctionSpace(mesh, O.make_element(d, cell))   # noqa: E731
        u = ufl.Coefficient(mk(("leaf", "contra", (t,))))
        w = ufl.Coefficient(mk(("leaf", "cov", (t,))))
        v = ufl.Argument(mk(("leaf", "cov", (t,))), 0)
        p = ufl.Coefficient(mk(("leaf", "l2", ())))
        q = ufl.Coefficient(mk(("leaf", "id", ())))
        m = ufl.Coefficient(mk(("mixed", [("leaf", "contra", (t,)), ("leaf", "id", ())])))
        i = ufl.Index()
        exprs = [
            u[i] * v[i] * p + q * w[i] * v[i],
            ufl.inner(u, v) * ufl.sin(q) + p * ufl.dot(w, u) * v[0],
            ufl.as_vector([m[g] * u[0], p]) [0] * v[g - 1] + m[0] * m[g],
            ufl.conditional(ufl.lt(p, q), u[0], w[g - 1]) * v[0],
        ]
        for k, e in enumerate(exprs):
            res = apply_function_pullbacks(e)
            mapping = {x: apply_function_pullbacks(x) for x in (u, w, v, p, q, m)}
            expected = ufl.replace(e, mapping)
            out.append(coqgen.Case(f"X_{cellname[:3]}{g}_{k}", out=res, inp=expected,
                                   note={"class": "composite", "expr": str(e)[:200], "cell": cellname, "gdim": g}))
    # form level: map_integrand_dags reaches every integrand
    mesh = uflgen.mesh("triangle", 3)
    cell = mesh.ufl_cell()
    V = ufl.FunctionSpace(mesh, O.make_element(("leaf", "contra", (2,)), cell))
    u, v = ufl.Coefficient(V), ufl.Argument(V, 0)
    form = ufl.inner(u, v) * ufl.dx + u[0] * v[1] * ufl.ds
    res = apply_function_pullbacks(form)
    mapping = {x: apply_function_pullbacks(x) for x in (u, v)}
    for k, (a, b) in enumerate(zip(res.integrals(), form.integrals())):
        out.append(coqgen.Case(f"X_form_{k}", out=a.integrand(), inp=ufl.replace(b.integrand(), mapping),
                               note={"class": "composite-form", "integral_type": a.integral_type()}))
    return out


def shape_rejections(run):
    """FunctionPullbackApplier must reject a pulled-back expression whose shape is not the space's
    value shape; checked on the real code with an element that declares a wrong physical shape."""
    import ufl.pullback as P

    class WrongShape(P.ContravariantPiola):
        def physical_value_shape(self, element, domain):
            return element.reference_value_shape[:-1] + (domain.geometric_dimension + 1,)

        def __repr__(self):
            return "WrongShape()"

    mesh = uflgen.mesh("triangle", 2)
    import elements
    from ufl.sobolevspace import HDiv
    el = elements.FiniteElement("W", mesh.ufl_cell(), 1, (2,), WrongShape(), HDiv)
    f = ufl.Coefficient(ufl.FunctionSpace(mesh, el))
    try:
        apply_function_pullbacks(f)
    except (ValueError, AssertionError):
        return True
    return False


def main(run):
    cases, skipped = build_cases(run)
    probe = NESTED_SEQ_PROBE["result"]
    if probe is not None:
        kf = next((k for k in vlib.load_known_findings("C08")
                   if k.get("id") == "meshsequence-nested-subdomain-dropped"), None)
        if kf is not None:
            run.known("mixed element on a MeshSequence with a mixed/symmetric sub-element: the component mesh is not "
                      f"passed down to the nested pullbacks ({probe['element']}: "
                      f"{probe.get('raised') or 'silently wrong J/detJ, component ' + str(probe['witness']['component'])})")
        else:
            run.violation(dict(probe, what="nested sub-element of a MeshSequence element is not pushed forward with "
                                           "its component mesh"), True)
    for sk in skipped[:5]:
        run.violation(dict(sk, what="apply_function_pullbacks raised on a Coefficient/Argument of a valid element "
                                    "(expected: the declared push-forward)",
                           reproduce="py/C08_oracle.make_element(tree) on uflgen.mesh(cell, gdim); "
                                     "apply_function_pullbacks(Coefficient(FunctionSpace(mesh, element)))"), True)
    try:
        comp = composite_cases()
    except Exception as ex:
        comp = []
        run.violation({"what": "apply_function_pullbacks raised on a composite expression",
                       "raised": f"{type(ex).__name__}: {ex}"}, True)
    for c in cases[:3] + cases[-3:]:
        run.sample({"case": c.name, "note": c.note, "output": str(c.out)[:240]})
    failing = coqgen.emit_and_check(run, "C08", cases + comp, extra_header=EXTRA_HEADER, timeout=500)
    spec = vlib.coqc("Props/C08_spec.v")
    run.add_coq_result(spec)
    for c in cases:
        run.count_case((c.note["element"], c.note["cell"], c.note["gdim"], c.note["form_argument"]))
    for c in comp:
        run.count_case(c.name)
    if not shape_rejections(run):
        run.violation({"broken": "FunctionPullbackApplier accepted a pulled-back expression whose shape differs "
                                 "from FunctionSpace.value_shape (element with contravariant apply and a wrong "
                                 "declared physical_value_shape on a triangle)",
                       "reproduce": "py/props/C08.py: shape_rejections"}, True)
    if not spec.ok:
        run.violation({"broken": "hand-written Props/C08_spec.v does not compile", "message": spec.err[-800:]}, False)
    seen = set()
    for case, lemma, msg in failing:
        if case is None:
            run.violation({"broken": "generated obligations file does not compile", "message": msg}, False)
            continue
        if case.name in seen:
            continue
        seen.add(case.name)
        rep = {"broken_obligation": lemma, "case": case.name, "note": case.note, "coq_message": msg,
               "implementation_output": str(case.out)[:3000], "reproduce": "bin/check C08"}
        w = None
        if isinstance(case, PCase):
            rep["element_tree"] = case.tree
            rep["specification"] = "pf of coq/Props/C08_spec.v (declared push-forward)"
            if lemma and (lemma.endswith("shape") or lemma.endswith("_fidx")):
                rep["shape_disagreement"] = {"implementation_ufl_shape": list(case.out.ufl_shape),
                                             "value_shape": list(case.value_shape),
                                             "specified_pshape": list(O.pshape(case.descr, case.g))}
                w = rep["shape_disagreement"] if tuple(case.out.ufl_shape) != O.pshape(case.descr, case.g) else None
            if w is None:
                w = O.find_mismatch(case.out, case.descr, case.g, case.t, case.fterm, case.mesh,
                                    trials=20 if run.tier == "quick" else 100, seed=run.seed)
        else:
            import search
            w = search.value_mismatch(case.out, case.inp, trials=20, seed=run.seed)
        if w and "search_error" not in w:
            rep["witness"] = w
        elif w:
            rep["search_error"] = w["search_error"]
        run.violation(rep, bool(w and "search_error" not in w))
    run.trusted.update([
        "Coq 8.16.1 kernel (coqc); vm_compute used for normalisation, no native_compute",
        "py/ufl2coq.py serializer (node-for-node, fail-closed)",
        "specification pf / pshape of coq/Props/C08_spec.v (leaf Piola formulas, concatenation, symmetry map) "
        "is what 'declared push-forward' means; element descriptors are built by the harness, not read from the code",
        "py/elements.py element classes (vendored test elements) carry the pullback objects of ufl.pullback",
        "den (RefValue f) c = env f c: the reference value components are free symbols, as are J, K, detJ",
    ])
    return run.finish(
        rule="one case per (element tree, cell, gdim, Coefficient/Argument); every physical component is one "
             "obligation proved for all reference values and all J, K, detJ; distinct = distinct "
             "(normalised tree, cell, gdim, argument kind) or composite expression",
        assumptions=["detJ <> 0 (field division)",
                     "symmetric elements: all sub-elements have the physical shape of the first one (wf in "
                     "C08_spec.v; pullback.py does not check it)",
                     "configurations bounded: simplex cells interval/triangle/tetrahedron, tdim<=gdim<=3, leading "
                     "rank <= 2, nesting depth <= 3; the mixed/symmetric model theorem is unbounded"])
