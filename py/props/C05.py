"""C05 - Operators build expressions with the mathematically intended value.

Hand-written theorems (coq/Props/C05_*.v): Gallina models mk_* of the constructor simplifications,
each proved equal (shape, free indices, value in every UFL algebra) to the raw node for ALL operands.

Tie, on every run against the current working tree:
 T2  every request of an exhaustive small-scope enumeration (py/C05_gen.py) is executed on the real
     constructor/operator; result and operands are serialised node for node; the *raw request* is
     built at serializer level (Gallina text of the raw node, never the Python constructor) and Coq
     proves shape/fidx equalities and, for all operand values, index valuations and algebras,
     den(result) c = den(raw) c for every component.
 T3  the Gallina models are evaluated on the same serialised operands and compared structurally
     with the implementation's result (modulo the operand order of Sum/Product, which is
     ufl/sorting.py's business, C29); error behaviour is compared with the models' wf predicates.
Known findings (known/C05.json) are replayed on the real code and reported as KNOWN-FINDING; any other
failing input is a VIOLATION."""

import concurrent.futures as cf
import itertools
import json
import os
import random
import shutil

import ufl
import ufl.classes as C
from ufl.classes import ComponentTensor, FixedIndex, Index, Indexed, IndexSum, ListTensor, MultiIndex, Zero

import C05_cplx
import C05_gen as G5
import coqgen
import pyden
import ufl2coq
import vlib

HAND_FILES = ["Props/C05_model.v", "Props/C05_findings.v", "Props/C05_rec.v", "Props/C05_wf.v"]

EXTRA_HEADER = r'''
(* laws of the complex structure / conditional / power used by the folding shortcuts; each is a law
   of the complex numbers.  They are the weakest hypotheses under which the corresponding shortcut
   of ufl/algebra.py, ufl/conditional.py is value preserving (see Props/C05_model.v). *)
Hypothesis conj_conj : forall x, conj (conj x) = x.
Hypothesis conj_abs : forall x, conj (abs x) = abs x.
Hypothesis conj_re : forall x, conj (re x) = re x.
Hypothesis conj_im : forall x, conj (im x) = im x.
Hypothesis abs_conj : forall x, abs (conj x) = abs x.
Hypothesis abs_abs : forall x, abs (abs x) = abs x.
Hypothesis im_re : forall x, im (re x) = z0.
Hypothesis im_im : forall x, im (im x) = z0.
Hypothesis im_abs : forall x, im (abs x) = z0.
Hypothesis abs_0 : abs z0 = z0.
Hypothesis conj_0 : conj z0 = z0.
Hypothesis conj_1 : conj z1 = z1.
Hypothesis conj_opp : forall x, conj (opp x) = opp (conj x).
Hypothesis re_0 : re z0 = z0.
Hypothesis im_0 : im z0 = z0.
Hypothesis conj_add : forall x y, conj (add x y) = add (conj x) (conj y).
Hypothesis conj_mul : forall x y, conj (mul x y) = mul (conj x) (conj y).
Hypothesis cond_same : forall b x, cond_ b x x = x.
Hypothesis pow_0 : forall x, pow x z0 = z1.
Hypothesis pow_1 : forall x, pow x z1 = x.

Ltac nz_neg_p p :=
  match goal with
  | |- ?X <> _ =>
      let E := fresh "E" in
      intro E; apply (char0 p); cbn; (transitivity (opp X); [ ring | rewrite E; ring ])
  end.
Ltac nz_all :=
  repeat match goal with |- _ /\ _ => split end;
  first [ assumption | nz_from_hyps | nz_char0 char0
        | nz_neg_p 1%positive | nz_neg_p 2%positive | nz_neg_p 3%positive | nz_neg_p 4%positive
        | nz_neg_p 5%positive | nz_neg_p 8%positive | nz_neg_p 10%positive ].
Ltac fin := first [ reflexivity | ring | (rewrite ?(Fdiv_def Fth); ring) | field; nz_all ].
Ltac c_plain := norm_goal; fin.
Ltac cplx_simp :=
  rewrite ?conj_conj, ?conj_abs, ?conj_re, ?conj_im, ?abs_conj, ?abs_abs, ?im_re, ?im_im, ?im_abs,
          ?abs_0, ?conj_0, ?re_0, ?im_0.
Ltac c_cplx := norm_goal;
  first [ reflexivity
        | cplx_simp; fin
        | cplx_simp; repeat (rewrite conj_add || rewrite conj_mul || rewrite conj_opp || rewrite conj_0 || rewrite conj_1);
          cplx_simp; fin ].
Ltac c_cond := norm_goal; rewrite ?cond_same; fin.
Ltac pow_norm :=
  rewrite ?pow_0, ?pow_1;
  repeat match goal with
  | |- context [pow ?x ?y] =>
      first [ replace y with z0 by (first [ ring | field; nz_all ]); rewrite pow_0
            | replace y with z1 by (first [ ring | field; nz_all ]); rewrite pow_1 ]
  end.
Ltac c_power := norm_goal; try pow_norm; fin.
Ltac c_division := c_plain.
'''

TACTIC = {"plain": "c_plain", "cplx": "c_cplx", "cond": "c_cond", "power": "c_power", "division": "c_division"}


# ----------------------------------------------------------------------------------------------
# structure helpers


def has_cycle(e, limit=100000):
    """True if the operand graph reachable from e is not a finite DAG."""
    state = {}
    stack = [(e, False)]
    n = 0
    while stack:
        x, done = stack.pop()
        n += 1
        if n > limit:
            return True
        if done:
            state[id(x)] = 2
            continue
        st = state.get(id(x))
        if st == 1:
            return True
        if st == 2:
            continue
        state[id(x)] = 1
        stack.append((x, True))
        if not x._ufl_is_terminal_:
            for o in x.ufl_operands:
                if state.get(id(o)) == 1:
                    return True
                stack.append((o, False))
    return False


def index_counts(e, acc):
    seen = set()
    stack = [e]
    while stack:
        x = stack.pop()
        if id(x) in seen:
            continue
        seen.add(id(x))
        if isinstance(x, MultiIndex):
            acc.update(i.count() for i in x if isinstance(i, Index))
            continue
        acc.update(getattr(x, "ufl_free_indices", ()))
        if not x._ufl_is_terminal_:
            stack.extend(x.ufl_operands)


def known_class(req):
    """Decidable class predicates of the known findings (on the REQUEST, not on the outcome)."""
    g = req.group
    if g == "ListTensor":
        es = req.info.get("es", [])
        if es and all(isinstance(e, ComponentTensor) and isinstance(e.ufl_operands[0], Indexed) for e in es):
            base = es[0].ufl_operands[0].ufl_operands[0]
            if all(e.ufl_operands[0].ufl_operands[0] is base for e in es):
                for e in es:
                    inner = e.ufl_operands[0].ufl_operands[1].indices()
                    if tuple(e.ufl_operands[1].indices()) != tuple(inner[1:]):
                        return "listtensor-ct-shortcut"
    if g in ("Indexed",):
        A, mi = req.info["A"], req.info["mi"]
        if isinstance(A, IndexSum) and A.ufl_operands[1][0] in tuple(mi):
            return "indexsum-simplify-capture"
        if isinstance(A, ComponentTensor):
            B, jj = A.ufl_operands
            if isinstance(B, Indexed):
                Cc, kk = B.ufl_operands
                if isinstance(Cc, ListTensor) and len(kk) == 1 and kk[0] not in tuple(jj):
                    return "ct-simplify-keyerror"
    # binder shortcuts applied to operands that depend on the bound indices
    if g in ("ComponentTensor", "as_tensor") and isinstance(req.operands[0], Indexed):
        A0, ii0 = req.operands[0].ufl_operands
        ii = tuple(req.extra_indices)
        if tuple(ii0.indices()) == ii and {x.count() for x in ii} & set(A0.ufl_free_indices):
            return "componenttensor-shortcut-dependent" if g == "ComponentTensor" else "as-tensor-shortcut-dependent"
    if g in ("Indexed", "getitem"):
        A = req.info.get("A", req.operands[0])
        if isinstance(A, ComponentTensor) and isinstance(A.ufl_operands[0], Indexed):
            Cc = A.ufl_operands[0].ufl_operands[0]
            if {x.count() for x in A.ufl_operands[1]} & set(Cc.ufl_free_indices):
                return "ct-simplify-indexed-dependent"
    if g == "ListTensor":
        es = req.info.get("es", [])
        if es and all(isinstance(e, Indexed) for e in es) and all(e.ufl_operands[0] is es[0].ufl_operands[0] for e in es):
            base = es[0].ufl_operands[0]
            pre = [x.count() for x in es[0].ufl_operands[1].indices()[:-1] if isinstance(x, Index)]
            if len(set(pre)) != len(pre) or set(pre) & set(base.ufl_free_indices):
                return "listtensor-slice-shortcut-bound-prefix"
    if g == "Abs" and isinstance(req.operands[0], (C.Abs, C.Conj)):
        return "abs-abs-self-loop"      # Abs.__new__ returns an Abs instance: __init__ runs on it again
    if g == "getitem" and isinstance(req.operands[0], (C.Identity, C.PermutationSymbol)) \
            and req.info.get("bare_key"):
        return "identity-getitem-bare-key"
    return None


# ----------------------------------------------------------------------------------------------
# numeric search oracle (pyden): den(result) vs raw semantics


def raw_value(req, env, rho, c, memo):
    ev = lambda x, cc=(): pyden.evaluate(x, env, rho, cc, None, memo)  # noqa: E731
    info = req.info
    if req.pycraw is not None:
        return ev(req.pycraw(tuple(c)))
    if "pyraw_transposed" in info:
        return ev(info["pyraw_transposed"], tuple(c)[::-1])
    if "pyraw_inner" in info or info.get("pyraw_cls") == "Inner":
        a, b = info.get("pyraw_inner") or info["ab"]
        tot = env.zero()
        for I in itertools.product(*[range(d) for d in a.ufl_shape]):
            tot = tot + ev(a, I) * ev(b, I)
        return tot
    if info.get("pyraw_cls") == "Outer":
        a, b = info["ab"]
        ra = len(a.ufl_shape)
        return ev(a, c[:ra]) * ev(b, c[ra:])
    if info.get("pyraw_cls") == "Dot":
        a, b = info["ab"]
        if not a.ufl_shape:
            return ev(a) * ev(b)
        ra = len(a.ufl_shape) - 1
        tot = env.zero()
        for k in range(a.ufl_shape[-1]):
            tot = tot + ev(a, tuple(c[:ra]) + (k,)) * ev(b, (k,) + tuple(c[ra:]))
        return tot
    if "pyraw_math" in info:
        nm, a = info["pyraw_math"]
        x = ev(a)
        return x.compose(pyden.taylor_coeffs(nm, x.value(), x.order))
    if "pyraw_restricted" in info:
        a, sd = info["pyraw_restricted"]
        return pyden.evaluate(a, env, rho, c, sd, memo)
    raw = req.pyraw() if req.pyraw else None
    if raw is None:
        raise pyden.Unsupported("no raw")
    req._rawobj = raw
    return ev(raw, c)


def numeric_mismatch(req, trials, seed):
    """search for operand values / index values / component with den(out) != raw value: first over exact
    rationals (py/pyden.py), then over complex numbers (py/C05_cplx.py; conj/real/imag are visible there)"""
    out = req.out
    rng = random.Random(seed)
    counts = set()
    for o in req.operands + [out]:
        index_counts(o, counts)
    counts.update(i.count() for i in req.extra_indices)
    comps = list(itertools.product(*[range(d) for d in out.ufl_shape]))
    dead = False
    for t in range(trials):
        if dead:
            break
        env = pyden.Env(nv=2, order=1, seed=rng.randrange(10**9), positive=True)
        for _ in range(2):
            if dead:
                break
            rho = {c: rng.randrange(2) for c in counts}
            for c in comps:
                memo = {}
                try:
                    a = pyden.evaluate(out, env, rho, c, None, memo)
                    b = raw_value(req, env, rho, c, memo)
                except ZeroDivisionError:
                    continue
                except (pyden.Unsupported, ValueError, OverflowError, KeyError, TypeError, IndexError,
                        RecursionError, AttributeError):
                    dead = True
                    break
                if not a.close_to(b):
                    return {"component": list(c), "free_index_values": {f"Index({k})": v for k, v in rho.items()},
                            "implementation_value": str(a.value()), "expected_value": str(b.value()),
                            "terminal_values": {str(k): str(v.value()) for k, v in list(env.cache.items())[:30]}}
    # complex stage
    for t in range(max(4, trials // 4)):
        env = C05_cplx.CEnv(seed=rng.randrange(10**9))
        rho = {c: rng.randrange(2) for c in counts}
        for c in comps:
            try:
                raw = req.pycraw(tuple(c)) if req.pycraw is not None else (req.pyraw() if req.pyraw else None)
                if raw is None:
                    return None
                a = C05_cplx.ceval(out, env, rho, c)
                b = C05_cplx.ceval(raw, env, rho, () if req.pycraw is not None else c)
            except (ZeroDivisionError, OverflowError):
                continue
            except (C05_cplx.Unsupported, pyden.Unsupported, ValueError, KeyError, TypeError, IndexError,
                    RecursionError, AttributeError):
                return None
            if not C05_cplx.close(a, b):
                return {"component": list(c), "free_index_values": {f"Index({k})": v for k, v in rho.items()},
                        "implementation_value": str(a), "expected_value": str(b), "values": "complex",
                        "terminal_values": {str(k): str(v) for k, v in list(env.cache.items())[:30]}}
    return None


def quick_screen(req, seed):
    """cheap numeric pre-screen (complex values, 2 trials): requests whose result looks wrong are compiled in
    small files of their own, so that their failing obligations do not force re-checking the big shards.
    Coq stays the arbiter: a suspect whose obligations are proved is not reported."""
    if attr_mismatch(req):
        return True
    out = req.out
    rng = random.Random(seed)
    counts = set()
    for o in req.operands + [out]:
        index_counts(o, counts)
    counts.update(i.count() for i in req.extra_indices)
    try:
        for _ in range(2):
            env = C05_cplx.CEnv(seed=rng.randrange(10**9))
            rho = {c: rng.randrange(2) for c in counts}
            for c in itertools.product(*[range(d) for d in out.ufl_shape]):
                raw = req.pycraw(tuple(c)) if req.pycraw is not None else (req.pyraw() if req.pyraw else None)
                if raw is None:
                    return False
                a = C05_cplx.ceval(out, env, rho, c)
                b = C05_cplx.ceval(raw, env, rho, () if req.pycraw is not None else c)
                if not C05_cplx.close(a, b):
                    return True
    except Exception:  # noqa: BLE001
        return False
    return False


def expected_attrs(req):
    """(shape, {index count: dim}) of the request, from the harness-level specification"""
    if req.exp_shape is not None or req.craw is not None:
        return tuple(req.exp_shape or ()), dict(req.exp_fi or {})
    return None


def attr_mismatch(req):
    out = req.out
    got = (tuple(out.ufl_shape), G5.fi_of(out))
    exp = expected_attrs(req)
    if exp is None:
        try:
            raw = req.pyraw() if req.pyraw else None
        except Exception:  # noqa: BLE001
            raw = None
        if raw is None:
            return None
        try:
            exp = (tuple(raw.ufl_shape), G5.fi_of(raw))
        except Exception:  # noqa: BLE001
            return None
    if got != exp:
        return {"expected_shape": list(exp[0]), "observed_shape": list(got[0]),
                "expected_free_indices": {f"Index({k})": v for k, v in exp[1].items()},
                "observed_free_indices": {f"Index({k})": v for k, v in got[1].items()}}
    return None



# ----------------------------------------------------------------------------------------------
# T3: the Gallina models of Props/C05_model.v on the serialised operands


def contains_nonint_literal(e):
    stack, seen = [e], set()
    while stack:
        x = stack.pop()
        if id(x) in seen:
            continue
        seen.add(id(x))
        if isinstance(x, (C.FloatValue, C.ComplexValue)):
            return True
        if not x._ufl_is_terminal_:
            stack.extend(x.ufl_operands)
    return False


FIX = {"abs": False, "is": False, "ct": False, "lt": False, "cn": False, "at": False, "cs": False, "l2": False}
# flag -> id of the finding whose repair it detects.  A flag that is False although the finding is not listed as
# OPEN means the defect is (back) in the tree: VIOLATION with the probe as failing input.
FLAG_FINDING = {"abs": "abs-abs-self-loop", "is": "indexsum-simplify-capture", "ct": "ct-simplify-keyerror",
                "lt": "listtensor-ct-shortcut", "cn": "componenttensor-shortcut-dependent",
                "at": "as-tensor-shortcut-dependent", "cs": "ct-simplify-indexed-dependent",
                "l2": "listtensor-slice-shortcut-bound-prefix"}
PROBE_TEXT = {}


def probe_fixes():
    """Which of the repairs of the known findings does the tree under test contain?  Each flag is decided on
    one witness of the class; the models (Props/C05_model.v) take the flags as parameters, the structural
    correspondence T3 then checks the WHOLE class against the selected variant and T2 checks its soundness."""
    import uflgen
    from ufl.classes import Abs, Conj
    f, v = uflgen.coef(()), uflgen.coef((2,))
    M, T = uflgen.coef((2, 2)), uflgen.coef((2, 2, 2))
    i, j, k, m = Index(), Index(), Index(), Index()
    mi = G5.mi_of
    out = {}
    out["abs"] = not isinstance(Abs(Conj(f)).ufl_operands[0], Conj)
    is1 = IndexSum(ComponentTensor(Indexed(M, mi((i, k))), mi((k,))), mi((i,)))
    out["is"] = isinstance(Indexed(is1, mi((i,))), Indexed)
    L = ListTensor(Indexed(v, mi((j,))), C.Product(ufl.as_ufl(2), Indexed(v, mi((j,)))))
    try:
        Indexed(ComponentTensor(Indexed(L, mi((m,))), mi((j,))), mi((0,)))
        out["ct"] = True
    except KeyError:
        out["ct"] = False
    rows = [ComponentTensor(Indexed(T, mi((r, i, j))), mi((j, i))) for r in (0, 1)]
    out["lt"] = ListTensor(*rows) is not T
    w = uflgen.coef((2,))
    Ld = ListTensor(Indexed(v, mi((i,))), Indexed(w, mi((i,))))            # free index i
    dL = G5.raw_node(Indexed, Ld, mi((i,)))                                # Ld[i]: depends on i
    out["cn"] = ComponentTensor(dL, mi((i,))) is not Ld
    out["at"] = ufl.as_tensor(dL, (i,)) is not Ld
    ctd = G5.raw_node(ComponentTensor, G5.raw_node(Indexed, G5.raw_node(Conj, Ld), mi((i,))), mi((i,)))
    out["cs"] = Indexed(ctd, mi((0,))).ufl_free_indices == ()
    out["l2"] = ListTensor(G5.raw_node(Indexed, T, mi((i, i, 0))),
                           G5.raw_node(Indexed, T, mi((i, i, 1)))).ufl_free_indices == (i.count(),)
    PROBE_TEXT.update({
        "abs": "Abs(Conj(f)) keeps the operand Conj(f) after the second __init__ / Abs(Abs(f)) re-initialises",
        "is": "Indexed(IndexSum(as_tensor(M[i,k],(k,)), i), (i,)) moves the indexing inside the sum (capture)",
        "ct": "Indexed(as_tensor(L[m],(j,)), (0,)) raises KeyError",
        "lt": "ListTensor(as_tensor(T[0,i,j],(j,i)), as_tensor(T[1,i,j],(j,i))) returns T",
        "cn": "ComponentTensor(L[i], (i,)) with L = ListTensor(v[i], w[i]) returns L (free index i)",
        "at": "as_tensor(L[i], (i,)) with L = ListTensor(v[i], w[i]) returns L (free index i)",
        "cs": "Indexed(ComponentTensor(conj(L)[i], (i,)), (0,)) returns conj(L)[0] with free index i",
        "l2": "ListTensor(T[i,i,0], T[i,i,1]) returns as_tensor(sum_i T[i,i,:]) without the free index i"})
    return out


def coqb(b):
    return "true" if b else "false"


def model_call(req, s):
    """Gallina text of the model applied to the serialised operands: (text, is_option) or None"""
    g = req.group
    ops = req.operands
    if any(contains_nonint_literal(o) for o in ops):
        return None
    if g in ("Sum", "Product"):
        return f"(mk_{g.lower()} le_any ff_none {s.e(ops[0])} {s.e(ops[1])})", True
    if g == "Division":
        if G5.is_literal(ops[0]) and G5.is_literal(ops[1]):
            return None
        return f"(mk_division ff_none {s.e(ops[0])} {s.e(ops[1])})", True
    if g == "Power":
        a, b = ops
        if G5.is_literal(a) and G5.is_literal(b) and int(b._value) < 0:
            return None
        return f"(mk_power ff_none {s.e(a)} {s.e(b)})", True
    if g == "Abs":
        return f"(mk_abs_sel ff_none {coqb(FIX['abs'])} {s.e(ops[0])})", False
    if g in ("Conj", "Real", "Imag"):
        return f"(mk_{g.lower()} ff_none {s.e(ops[0])})", False
    if g == "Indexed":
        A, mi = req.info["A"], req.info["mi"]
        return (f"(mk_indexed le_any ff_none {coqb(FIX['is'])} {coqb(FIX['ct'])} {coqb(FIX['cs'])} 24 "
                f"{s.e(A)} {s.mi(tuple(mi))})"), True
    if g == "IndexSum":
        x = req.extra_indices[0]
        d = G5.fi_of(ops[0]).get(x.count(), 0)
        return f"(mk_index_sum le_any ff_none 24 {s.e(ops[0])} {s.i(x)} {d})", True
    if g in ("ComponentTensor", "as_tensor"):
        fi = G5.fi_of(ops[0])
        pairs = [(x, fi.get(x.count(), 0)) for x in req.extra_indices]
        if g == "as_tensor":
            return f"(mk_as_tensor {coqb(FIX['cn'])} {coqb(FIX['at'])} {s.e(ops[0])} {s.ixd(pairs)})", True
        return f"(mk_component_tensor {coqb(FIX['cn'])} {s.e(ops[0])} {s.ixd(pairs)})", True
    if g == "ListTensor":
        return f"(mk_list_tensor {coqb(FIX['lt'])} [" + "; ".join(s.e(e) for e in req.info["es"]) + "])", True
    if g == "conditional":
        c = req.info.get("cond")
        if c is None:
            return None
        return f"(mk_conditional {s.cond(c)} {s.e(ops[0])} {s.e(ops[1])})", False
    return None


def fresh_index_in(req):
    """the implementation created a new Index (slicing): not modelled by the T3 models"""
    have = set()
    for o in req.operands:
        index_counts(o, have)
    have.update(i.count() for i in req.extra_indices)
    got = set()
    index_counts(req.out, got)
    return bool(got - have)

# ----------------------------------------------------------------------------------------------
# Coq emission


class RCase:
    """One request as a block of Coq obligations (interface of coqgen.emit_and_check)."""

    def __init__(self, name, req, value=True, t3=True, t2=True):
        self.name, self.req, self.value, self.t3, self.t2 = name, req, value, t3, t2
        self.lemmas = []
        self.note = {"request": req.label}

    def emit_t3_only(self):
        """requests without a result (rejected, or failing with an exception): the model must say None"""
        req, nm = self.req, self.name
        ctx = ufl2coq.Ctx()
        counts = set()
        for o in req.operands:
            index_counts(o, counts)
        counts.update(i.count() for i in req.extra_indices)
        for c in sorted(counts):
            ctx.index(c)
        ser = ufl2coq.Ser(ctx, prefix=f"{nm}_n")
        s = G5.S(ser)
        self.lemmas = []
        mc = model_call(req, s)
        if mc is None or not mc[1]:
            return ""
        self.lemmas.append(f"{nm}_t3")
        return (f"(* {nm}: {req.label} (no result) *)\n" + ser.definitions_text() +
                f"Example {nm}_t3 : {mc[0]} = None. Proof. vm_compute. reflexivity. Qed.\n")

    def emit(self):
        req, nm = self.req, self.name
        out = req.out
        if out is None:
            return self.emit_t3_only()
        ctx = ufl2coq.Ctx()
        counts = set()
        for o in req.operands + [out]:
            index_counts(o, counts)
        counts.update(i.count() for i in req.extra_indices)
        for c in sorted(counts):
            ctx.index(c)
        ser = ufl2coq.Ser(ctx, prefix=f"{nm}_n")
        s = G5.S(ser)
        t_out = ser.expr(out)
        comps = list(itertools.product(*[range(d) for d in out.ufl_shape]))
        body = []
        self.lemmas = []
        sh = ufl2coq.natlist(out.ufl_shape)
        fit = "[" + "; ".join(f"({ctx.index(i)}, {d})" for i, d in
                              sorted(zip(out.ufl_free_indices, out.ufl_index_dimensions))) + "]"
        body.append(f"Definition {nm}_out : expr := {t_out}.\n")
        tac = TACTIC[req.hyp]
        if self.t3 and not fresh_index_in(req):
            mc = model_call(req, s)
            if mc is not None:
                lhs = mc[0] if mc[1] else f"(Some {mc[0]})"
                body.append(f"Example {nm}_t3 : same_modc {lhs} {nm}_out = true. Proof. vm_compute. reflexivity. Qed.\n")
                self.lemmas.append(f"{nm}_t3")
        if not self.t2:
            pass
        elif req.raw is not None:
            body.append(f"Definition {nm}_raw : expr := {req.raw(s)}.\n")
            # reported attributes = model attributes of the result = attributes of the raw request
            body.append(f"Example {nm}_attrs : shape {nm}_out = {sh} /\\ fidx {nm}_out = {fit} /\\ "
                        f"shape {nm}_raw = {sh} /\\ fidx {nm}_raw = {fit}.\n"
                        f"Proof. repeat split; reflexivity. Qed.\n")
            self.lemmas.append(f"{nm}_attrs")
            if self.value:
                for c in comps:
                    ln = f"{nm}_c{'_'.join(map(str, c))}"
                    cl = ufl2coq.natlist(c)
                    body.append(f"Lemma {ln} s rho : DEN s rho {nm}_out {cl} = DEN s rho {nm}_raw {cl}.\n"
                                f"Proof. {tac}. Qed.\n")
                    self.lemmas.append(ln)
        else:
            esh = ufl2coq.natlist(req.exp_shape or ())
            efi = "[" + "; ".join(f"({ctx.index(i)}, {d})" for i, d in sorted((req.exp_fi or {}).items())) + "]"
            raws = []
            for c in comps:
                cn = "_".join(map(str, c))
                body.append(f"Definition {nm}_raw{cn} : expr := {req.craw(s, c)}.\n")
                raws.append(f"{nm}_raw{cn}")
            extra = f" /\\ fidx {raws[0]} = {efi} /\\ shape {raws[0]} = []" if raws else ""
            body.append(f"Example {nm}_attrs : shape {nm}_out = {sh} /\\ fidx {nm}_out = {fit} /\\ "
                        f"shape {nm}_out = {esh} /\\ fidx {nm}_out = {efi}{extra}.\n"
                        f"Proof. repeat split; reflexivity. Qed.\n")
            self.lemmas.append(f"{nm}_attrs")
            if self.value:
                for c in comps:
                    cn = "_".join(map(str, c))
                    ln = f"{nm}_c{cn}"
                    body.append(f"Lemma {ln} s rho : DEN s rho {nm}_out {ufl2coq.natlist(c)} = "
                                f"DEN s rho {nm}_raw{cn} [].\nProof. {tac}. Qed.\n")
                    self.lemmas.append(ln)
        head = f"(* {nm}: {req.label} *)\n" + ser.definitions_text()
        return head + "".join(body)


# ----------------------------------------------------------------------------------------------
# validation (not proof) of literal folding that is floating point


def validate_literal_fold(req):
    import cmath
    import math
    info = req.info
    out = req.out
    if "unary_literal" in info:
        x = info["pyvalue"]
        exp = {"Abs": abs(x), "Conj": x.conjugate() if isinstance(x, complex) else x,
               "Real": x.real if isinstance(x, complex) else x,
               "Imag": x.imag if isinstance(x, complex) else 0}[info["unary_literal"]]
    elif "fold_ref" in info:
        exp = info["fold_ref"]
    elif "math_literal" in info:
        nm, x = info["math_literal"]
        fn = {"ln": "log"}.get(nm, nm)
        try:
            exp = getattr(math, fn)(float(x))
        except ValueError:
            exp = getattr(cmath, fn)(complex(x))
    else:
        return True
    got = complex(out) if not isinstance(out, Zero) else 0j
    return abs(got - complex(exp)) <= 1e-14 * (1 + abs(complex(exp)))


# ----------------------------------------------------------------------------------------------


def coqc_scratch(rel, timeout=900):
    """type-check a hand-written file without touching its .vo (output goes to a scratch directory)"""
    import tempfile
    import time
    d = tempfile.mkdtemp(prefix="c05vo")
    ap = os.path.join(vlib.COQ, rel)
    t0 = time.time()
    rc, out, err = vlib.sh(["timeout", str(timeout), "coqc", "-Q", vlib.COQ, "UFLV", "-o",
                            os.path.join(d, os.path.basename(rel)[:-2] + ".vo"), ap], timeout=timeout + 30, cwd=vlib.COQ)
    shutil.rmtree(d, ignore_errors=True)
    return vlib.CoqResult(ap, rc == 0, out, err, time.time() - t0)


def replay(run, data):
    """bin/check C05 --replay <file>: re-run the request named in a replay file on the current tree"""
    label = data.get("request")
    P, reqs = G5.all_requests("thorough", random.Random(1000))
    todo = [r for r in reqs if r.label == label]
    if not todo:
        print(f"replay: no request labelled {label!r} in the enumeration")
        return 2
    bad = 0
    for req in todo:
        before = [(o, o.ufl_operands if not o._ufl_is_terminal_ else None) for o in req.operands]
        req.run()
        if req.exc is None and has_cycle(req.out):
            for o, ops in before:
                if ops is not None:
                    o.ufl_operands = ops
            print(f"replay {label}: FAILS - the call corrupts an operand (cyclic operand graph)")
            bad += 1
        elif req.must_raise:
            print(f"replay {label}: " + ("ok - rejected" if req.exc is not None else f"FAILS - accepted: {req.out}"))
            bad += req.exc is None
        elif req.exc is not None:
            print(f"replay {label}: FAILS - raises {type(req.exc).__name__}: {req.exc}")
            bad += 1
        else:
            w = attr_mismatch(req) or (numeric_mismatch(req, 60, 0) if req.value is not False else None)
            print(f"replay {label}: result {str(req.out)[:200]}")
            print("  " + (f"FAILS - {json.dumps(w, default=str)[:600]}" if w else "no mismatch found (numeric oracle)"))
            bad += bool(w)
    return 1 if bad else 0


def main(run):
    rng = random.Random(1000 + run.seed)
    known = {k["id"]: k for k in vlib.load_known_findings("C05")}
    FIX.update(probe_fixes())
    run.extra["repairs_detected_in_tree"] = dict(FIX)
    for flag, fid in FLAG_FINDING.items():
        if not FIX[flag] and fid not in known:
            # the tree shows the defective behaviour of a finding that is not (or no longer) listed as open: the models
            # would follow the defective variant, so report it here, with the probe as failing input
            run.violation({"what": "defect of a finding that is not listed as open is present in the tree "
                                   "(regression of a repaired finding, or a new instance)",
                           "finding": fid, "failing_input": PROBE_TEXT.get(flag, flag),
                           "reproduce": "bin/check C05 (py/props/C05.py: probe_fixes)"}, True)
    groups = [g for g in os.environ.get("VERIF_C05_GROUPS", "").split(",") if g]    # self-tests only
    P, reqs = G5.all_requests(run.tier, rng, groups=groups, seed=run.seed)
    if groups:
        run.extra["restricted_to_groups"] = groups
    if run.seed:
        rng.shuffle(reqs)          # construction order influences Index counters / operand order
    known_hits = {}
    cases = []
    suspects = []
    stats = {}
    nviol = 0

    def bump(k):
        stats[k] = stats.get(k, 0) + 1

    def violation(req, what, extra, found=True):
        nonlocal nviol
        nviol += 1
        if nviol > 12:
            return
        rep = {"what": what, **req.describe(), **extra,
               "reproduce": "bin/check C05 --replay <this file>   (re-runs the request on $UFL_REPO, default /repo)"}
        run.violation(rep, found)

    def known_or_violation(req, what, extra):
        kc = known_class(req)
        if kc and kc in known:
            known_hits.setdefault(kc, []).append((req.label, what))
            bump("known:" + kc)
        else:
            violation(req, what, extra)

    for n, req in enumerate(reqs):
        # operands must not be changed by the call
        before = [(id(o), o.ufl_operands if not o._ufl_is_terminal_ else None) for o in req.operands]
        req.run()
        run.count_case((req.group, req.label))
        bump("requests")
        bump("group:" + req.group)
        mutated = any((not o._ufl_is_terminal_) and o.ufl_operands is not ops and
                      any(x is not y for x, y in zip(o.ufl_operands, ops))
                      for o, (_, ops) in zip(req.operands, before) if ops is not None)
        if req.exc is None and (has_cycle(req.out) or mutated):
            # repair the operand first (so that it can be printed and later requests are not affected)
            for o, (_, ops) in zip(req.operands, before):
                if ops is not None:
                    o.ufl_operands = ops
            known_or_violation(req, "the call corrupts an operand: the result is not a finite expression "
                                    "(an existing node was re-initialised with itself as operand)",
                               {"observed": "cyclic operand graph / operand tuple of an existing node overwritten"})
            continue
        if req.must_raise:
            if req.exc is None:
                violation(req, "ill-formed request accepted (mismatching shapes / free indices / ranks)",
                          {"observed": str(req.out)[:300]})
            else:
                bump("rejected-ill-formed")
                if req.group not in ("Indexed",):        # the models do not model Indexed.__init__'s checks
                    cases.append(RCase(f"q{n}", req))
            continue
        if req.exc is not None:
            known_or_violation(req, f"well-formed request raises {type(req.exc).__name__}: {req.exc}"[:300],
                               {"observed": repr(req.exc)[:300]})
            if known_class(req) == "ct-simplify-keyerror":
                cases.append(RCase(f"q{n}", req))            # the faithful model fails as well
            continue
        # literal folds: the value obligation is emitted whenever the exact result of the REQUEST (computed
        # from the operands, not from the implementation's answer) is a literal ufl2coq reads back exactly;
        # genuinely floating-point folds are validated numerically (validation, not proof)
        value = req.value
        if req.info.get("lit_fold"):
            a, b = req.operands[0], req.operands[1] if len(req.operands) > 1 else None
            if req.info.get("neg"):
                a, b = ufl.as_ufl(-1), req.operands[0]
            exact, approx = G5.fold_expect(req.info["op"], a, b)
            got = complex(req.out) if not isinstance(req.out, Zero) else 0j
            if approx is not None and isinstance(req.out, (C.ScalarValue, Zero)) and \
                    abs(got - complex(approx)) > 1e-13 * (1 + abs(complex(approx))):
                violation(req, "literal folding returns a wrong literal",
                          {"observed": str(req.out), "expected": str(approx)})
                continue
            if value is None:
                value = exact is not None
            if not value:
                bump("fp-fold-excluded")
        if value is False:
            bump("value-excluded(floating point)")
            if not validate_literal_fold(req):
                violation(req, "literal folding returns a wrong literal",
                          {"observed": str(req.out), "expected": str(req.info.get("fold_ref", ""))})
                continue
        # requests in the class of a known finding: replayed on the real code.  A request that still fails is a
        # KNOWN-FINDING while the finding is listed as open (the defect-faithful model must reproduce the wrong
        # result: T3 only) and goes through the normal obligations otherwise (=> VIOLATION: regression of a
        # repaired finding).  A request that no longer fails is checked like every other request, T3 included:
        # the model variant is selected by the repair flags detected above.
        kc = known_class(req)
        if kc and kc in known:
            am = attr_mismatch(req)
            w = am or (numeric_mismatch(req, 6, run.seed + n) if value else None)
            if w:
                known_hits.setdefault(kc, []).append((req.label, "wrong shape/free indices" if am else "wrong value"))
                bump("known:" + kc)
                cases.append(RCase(f"q{n}", req, value=False, t2=False))   # model reproduces the wrong result
                continue
        rc = RCase(f"q{n}", req, value=bool(value))
        if value and quick_screen(req, run.seed + n):
            suspects.append(rc)
        else:
            cases.append(rc)

    for c in cases[:: max(1, len(cases) // 10)]:
        run.sample({"request": c.req.label, "result": str(c.req.out)[:160]})
    cases = [c for c in cases if c.emit() != ""]
    pool = cf.ThreadPoolExecutor(max_workers=len(HAND_FILES))
    hand_futures = [pool.submit(coqc_scratch, hf) for hf in HAND_FILES]
    header0 = coqgen.HEADER
    coqgen.HEADER = "Require Import UFLV.Props.C05_model.\n" + header0
    try:
        failing = coqgen.emit_and_check(run, "C05", cases, timeout=900, extra_header=EXTRA_HEADER)
        run.extra["suspects_from_numeric_prescreen"] = [c.req.label for c in suspects][:50]
        failing += coqgen.emit_and_check(run, "C05s", suspects[:48], timeout=300, extra_header=EXTRA_HEADER,
                                         shards=max(1, min(vlib.NCPU, len(suspects[:48]))))
    finally:
        coqgen.HEADER = header0
    seen = set()
    for case, lemma, msg in failing:
        if case is None:
            run.violation({"broken": "generated obligations file does not compile", "message": msg}, False)
            continue
        if case.name in seen:
            continue
        seen.add(case.name)
        req = case.req
        extra = {"broken_obligation": lemma, "coq_message": msg, "result": str(req.out)[:600]}
        if req.out is None:
            violation(req, "error behaviour of the implementation differs from the model (tie T3): the request "
                           "is rejected by the implementation but accepted by the Gallina model, or vice versa",
                      extra, False)
            continue
        if nviol > 12:
            continue
        am = attr_mismatch(req)
        w = am or numeric_mismatch(req, 40 if run.tier == "quick" else 200, run.seed)
        if w:
            extra["witness"] = w
        t3 = (lemma or "").endswith("_t3")
        violation(req, "constructed expression differs from the requested operation" if w else
                  ("the implementation's result differs structurally from the Gallina model mk_* (tie T3 broken)"
                   if t3 else "obligation den(result)=den(raw request) no longer provable"), extra, bool(w))

    # hand-written theorems (compiled concurrently with the shards, into a scratch directory so that the
    # shared .vo files are never rewritten while another check reads them)
    for hf, r in zip(HAND_FILES, hand_futures):
        r = r.result()
        run.add_coq_result(r)
        if not r.ok:
            run.violation({"broken": f"hand-written theorems {hf} do not check", "error": r.err[-1500:]}, False)

    # known findings: replayed above on the real code
    for kid, k in known.items():
        hits = known_hits.get(kid, [])
        if hits:
            run.known(f"{kid}: {k['what']} [{len(hits)} requests of the enumeration in this class fail, e.g. "
                      f"{hits[0][0]} -> {hits[0][1]}]")
    run.extra["request_statistics"] = stats
    run.extra["known_class_hits"] = {k: [h[0] for h in v][:8] for k, v in known_hits.items()}
    run.trusted.update([
        "Coq 8.16.1 kernel (coqc); vm_compute used for normalisation, no native_compute",
        "py/ufl2coq.py serializer (node-for-node, fail-closed); float literals read as the small rational they round",
        "shape/fidx/den of the RAW nodes in coq/Core as the specification of 'the requested operation'",
        "py/C05_gen.py: the enumeration of requests and the raw-node text built from serialised operands; "
        "harness-level request semantics for a*b, A[...], A/b, -A (component-wise raw nodes)",
        "floating-point folding of non-integer literals is excluded from value obligations unless exact "
        "(checked numerically in Python: validation, not proof); Abs/Conj/Real/Imag of literals validated in Python",
        "laws of the complex structure (conj involutive additive multiplicative, abs/re/im fixed points), "
        "cond b x x = x, pow x 0 = 1, pow x 1 = x as hypotheses of the obligations that use the folding shortcuts",
        "py/pyden.py only as search oracle / for known-finding replay",
    ])
    return run.finish(
        rule="one case per request (constructor/operator, operand pattern, index pattern) of the small-scope "
             "enumeration; per case: shape/fidx obligations (model vs reported vs raw) and one value obligation "
             "per component, for all operand values, index valuations and UFL algebras; distinct = distinct request labels",
        assumptions=["characteristic zero for rational literals",
                     "complex-structure / conditional / power laws listed in trusted_base (hypotheses of the generated Section)"])
