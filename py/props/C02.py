"""C02 - Gateaux derivatives are the true directional derivatives.

Specification (coq, C02_common.LAWS and Props/C02_gateaux.v): d/dtau F(w + tau v)|_0 is a
*derivation* G of the UFL algebra (additive, Leibniz, quotient rule, chain rule for every function
symbol, commuting with conj/re/im, conditionals and d/dx_j) with G(w) = v, G(f) = df.v for
user-supplied relations and G(t) = 0 for every other terminal.

Tie T2, regenerated on every run: for each rule x operand pattern x form of (w, v) the REAL
`expand_derivatives(derivative(F, w, v, cd))` is run, F and the result are serialised node for node
and Coq proves  den(result) c = G(den(F) c)  for all field values by pushing G through den(F) with
the derivation laws and closing with ring/field.  Nested expressions from a seeded typed generator
tie rule *application* (DAG traversal, argument handling), not only single rules.
Hand-written, unbounded: Props/C02_gateaux.v proves by induction on `expr` that a Gallina model of
the rule table computes G(den e) for every expression, every algebra, every such derivation.
"""

import json
import os
import random

import ufl
import ufl.classes as C
from ufl import (
    as_tensor,
    as_vector,
    conditional,
    derivative,
    div,
    dot,
    grad,
    gt,
    inner,
    lt,
    split,
    variable,
)
from ufl.algorithms import expand_derivatives
from ufl.algorithms.analysis import extract_arguments

import C02_common as K
import coqgen
import uflgen
import vlib
from elements import LagrangeElement, MixedElement

HAND_FILES = ["Props/C02_gateaux.v"]
PID = "C02"


# ----------------------------------------------------------------------------------------------
# configurations

class Cfg:
    """One traced differentiation."""

    def __init__(self, name, F, w, v, variation, cd=None, second=None, spatial=False, note=None,
                 expect_raise=False, known_class=None, part2=None, form=None):
        """second = (w2, v2, variation2[, cd2]): derivative of the derivative.
        part2 = (F2, w2, v2, cd2, variation2, "sum"|"prod"): a second derivative node in the SAME
        expression (one expand_derivatives call, one DerivativeRuleDispatcher).
        form = (measure1, F2, w2, v2, cd2, variation2, measure2, which): two integrals of one Form
        expanded in one call; the case is about the integrand of integral `which` (0 or 1)."""
        self.name, self.F, self.w, self.v, self.variation = name, F, w, v, variation
        self.cd, self.second, self.spatial = cd, second, spatial
        self.note = dict(note or {})
        self.expect_raise = expect_raise
        self.known_class = known_class
        self.part2, self.form = part2, form
        self.out = None
        self.raised = None

    def run(self):
        try:
            d = derivative(self.F, self.w, self.v, coefficient_derivatives=self.cd)
            if self.second is not None:
                w2, v2 = self.second[:2]
                cd2 = self.second[3] if len(self.second) > 3 else None
                d = derivative(d, w2, v2, coefficient_derivatives=cd2)
            if self.part2 is not None:
                F2, w2, v2, cd2, _, mode = self.part2
                d2 = derivative(F2, w2, v2, coefficient_derivatives=cd2)
                d = d + d2 if mode == "sum" else d * d2
            if self.form is not None:
                m1, F2, w2, v2, cd2, var2, m2, which = self.form
                form = derivative(self.F * m1, self.w, self.v, coefficient_derivatives=self.cd) \
                    + derivative(F2 * m2, w2, v2, coefficient_derivatives=cd2)
                ex = expand_derivatives(form)
                want = (m1, m2)[which].integral_type()
                itg = [i for i in ex.integrals() if i.integral_type() == want]
                if len(itg) != 1:
                    raise RuntimeError(f"expected one {want} integral in the expanded form, got {len(itg)}")
                self.out = itg[0].integrand()
                if which == 1:      # the case is about the second integral
                    self.F, self.variation = F2, var2
                return self
            self.out = expand_derivatives(d)
        except Exception as ex:  # noqa: BLE001  (any exception is "raises")
            self.raised = f"{type(ex).__name__}: {ex}"[:200]
        return self

    def case(self):
        nz = K.definedness(self.F)
        if self.part2 is not None:
            nz = nz + [e for e in K.definedness(self.part2[0]) if e not in nz]
        return K.DCase(self.name, self.F, self.out, self.variation,
                       variation2=self.second[2] if self.second else None, nonzero=nz,
                       note=dict(self.note, F=str(self.F)[:160]), spatial=self.spatial,
                       part2=self.oracle_part2())

    def oracle_part2(self):
        return (self.part2[0], self.part2[4], self.part2[5]) if self.part2 is not None else None


def math_unary():
    return [("sqrt", ufl.sqrt), ("exp", ufl.exp), ("ln", ufl.ln), ("cos", ufl.cos), ("sin", ufl.sin),
            ("tan", ufl.tan), ("cosh", ufl.cosh), ("sinh", ufl.sinh), ("tanh", ufl.tanh),
            ("acos", ufl.acos), ("asin", ufl.asin), ("atan", ufl.atan), ("erf", ufl.erf)]


def scalar_rule_exprs(w, f, g, tier):
    """(name, F) for every rule x operand pattern (operand depends on w / does not)."""
    dep, ind = w * f, g
    L = [
        ("term", w), ("other", f), ("lit", ufl.as_ufl(3.5) * w),
        ("sum_dd", w + w * w), ("sum_di", w + f), ("sum_id", f + w),
        ("mul_dd", w * w), ("mul_di", w * f), ("mul_id", f * w), ("mul_deep", (w * f) * (w + g)),
        ("div_di", w / f), ("div_id", f / w), ("div_dd", w / (w + f)), ("div_deep", (w * f) / (g * w)),
        ("pow_int2", w ** 2), ("pow_int3", dep ** 3), ("pow_int1", w ** 1), ("pow_neg", w ** (-2)),
        ("pow_flt", w ** 2.5), ("pow_gp0", w ** f), ("pow_fp0", f ** w), ("pow_both", w ** w),
        ("pow_deep", (w + f) ** (w * g)), ("pow_ind", f ** g),
        ("abs_d", abs(dep)), ("abs_i", abs(ind) * w),
        ("conj", ufl.conj(dep)), ("real", ufl.real(dep)), ("imag", ufl.imag(dep)),
        ("atan2_di", ufl.atan2(w, f)), ("atan2_id", ufl.atan2(f, w)), ("atan2_dd", ufl.atan2(w, w * f)),
        ("cond_dd", conditional(gt(w, f), w * w, f * w)), ("cond_di", conditional(lt(g, f), w * w, f)),
        ("cond_00", conditional(gt(w, f), f, g) * w), ("cond_nest", conditional(ufl.And(gt(w, f), lt(f, g)), dep, w)),
        ("max_dd", ufl.max_value(dep, w)), ("max_di", ufl.max_value(dep, g)), ("min_id", ufl.min_value(g, dep)),
        ("min_dd", ufl.min_value(w, dep)),
        ("bj1", ufl.bessel_J(1, dep)), ("bj0", ufl.bessel_J(0, dep)), ("by2", ufl.bessel_Y(2, dep)),
        ("by0", ufl.bessel_Y(0, dep)), ("bi1", ufl.bessel_I(1, dep)), ("bi0", ufl.bessel_I(0, dep)),
        ("bk1", ufl.bessel_K(1, dep)), ("bk0", ufl.bessel_K(0, dep)),
        ("var", variable(dep) ** 2 * w), ("restr", w("+") * f("-") + (w * w)("-")),
        ("sign", ufl.sign(f) * w),
    ]
    for nm, fn in math_unary():
        L.append((nm + "_d", fn(dep)))
        L.append((nm + "_w", fn(w)))
        if tier == "thorough":
            L.append((nm + "_i", fn(ind) * w))
            L.append((nm + "_deep", fn(w * w + f)))
    return L


def vector_exprs(w, h, f, A):
    """F over a vector coefficient w (2,), other vector h, scalar f, matrix A."""
    i, j = ufl.indices(2)
    return [
        ("comp", w[0] * w[1]), ("isum", w[i] * w[i]), ("inner", inner(w, w)), ("dot", dot(w, h) * ufl.sin(w[0])),
        ("ct", as_vector(w[i] * f, i)), ("ct2", as_tensor(w[i] * h[j] * w[j], (i,))),
        ("lt", as_vector([w[0] * w[1], f])), ("lt_nested", as_tensor([[w[0], f], [w[1] * w[1], w[0] * h[1]]])),
        ("matvec", dot(A, w)), ("outer", ufl.outer(w, w)), ("idx_slice", ufl.outer(w, h)[:, 1]),
        ("gradc", grad(w)[0, 1] * w[1]), ("gradinner", inner(grad(w), grad(w))), ("div", div(w) * w[0]),
        ("gradgrad", grad(grad(w))[i, j, j] * w[i]), ("grad_other", inner(grad(h), grad(w))),
        ("nabla", ufl.nabla_grad(w)[0, 1] + ufl.nabla_div(w)), ("curl2", ufl.curl(w) * f),
    ]


def tensor_exprs(w, f):
    i, j = ufl.indices(2)
    return [
        ("det", w[0, 0] * w[1, 1] - w[0, 1] * w[1, 0]), ("inner", inner(w, w)), ("tr", ufl.tr(w) * f),
        ("detop", ufl.det(w)), ("transp", ufl.transpose(w) * f), ("sym", ufl.sym(w)[0, 1] * w[1, 0]),
        ("gradt", grad(w)[0, 1, 1] * w[i, i]), ("inv", ufl.inv(w)[0, 1]),
    ]


def mixed_space(cell="triangle"):
    m = uflgen.mesh(cell)
    c = m.ufl_cell()
    el = MixedElement([LagrangeElement(c, 1, ()), LagrangeElement(c, 1, (2,))])
    return ufl.FunctionSpace(m, el)


def configurations(tier, seed):
    cfgs = []
    sc = uflgen.coef
    # A. scalar w, direction an Argument / a Coefficient ---------------------------------------
    w, f, g = sc(()), sc(()), sc(())
    v = uflgen.arg(0, ())
    for nm, F in scalar_rule_exprs(w, f, g, tier):
        cfgs.append(Cfg(f"a_{nm}", F, w, v, {w: v}, note={"w": "scalar", "v": "argument", "rule": nm}))
    vc = sc(())
    for nm, F in [("mul", w * f), ("sin", ufl.sin(w * w)), ("pow", w ** f), ("div", f / w),
                  ("grad", inner(grad(w), grad(w * f)))]:
        cfgs.append(Cfg(f"b_{nm}", F, w, vc, {w: vc}, spatial=True,
                        note={"w": "scalar", "v": "coefficient", "rule": nm}))
    # other terminals are constant: Constant, geometry
    kc = uflgen.const(())
    x = ufl.SpatialCoordinate(uflgen.mesh("triangle"))
    n = ufl.FacetNormal(uflgen.mesh("triangle"))
    cfgs.append(Cfg("a_const", kc * w * w + x[0] * w + n[1] * ufl.sin(w), w, v, {w: v},
                    note={"w": "scalar", "rule": "constant/geometry"}))
    # grad of w / grad of compound expressions (grad is expanded first, then the Gateaux rules)
    for nm, F in [("gradw", inner(grad(w), grad(w))), ("gradwf", grad(w)[0] * f + grad(f)[1] * w),
                  ("gradgrad", grad(grad(w))[0, 1] * w), ("gradmul", grad(w * f)[0]),
                  ("gradsq", inner(grad(w * w), grad(f))), ("dx", (w * w).dx(1) * w),
                  ("lap", div(grad(w)) * w)]:
        cfgs.append(Cfg(f"a_{nm}", F, w, v, {w: v}, spatial=True, note={"w": "scalar", "rule": nm}))
    # C. vector w, D. tensor w -------------------------------------------------------------------
    wv, hv, A = sc((2,)), sc((2,)), sc((2, 2))
    vv = uflgen.arg(0, (2,))
    for nm, F in vector_exprs(wv, hv, f, A):
        cfgs.append(Cfg(f"c_{nm}", F, wv, vv, {wv: vv}, spatial=True, note={"w": "vector", "rule": nm}))
    wt = sc((2, 2))
    vt = uflgen.arg(0, (2, 2))
    for nm, F in tensor_exprs(wt, f):
        cfgs.append(Cfg(f"d_{nm}", F, wt, vt, {wt: vt}, spatial=True, note={"w": "tensor", "rule": nm}))
    # E. component of w -------------------------------------------------------------------------
    vs = uflgen.arg(0, ())
    Fs = [("comp", wv[0] * wv[1] * wv[1]), ("inner", inner(wv, wv) * f),
          ("grad", inner(grad(wv), grad(wv))), ("gradc", grad(wv)[1, 0] * wv[0] + grad(wv)[0, 1]),
          ("gradgrad", grad(grad(wv))[1, 0, 1] * wv[1])]
    for nm, F in Fs:
        cfgs.append(Cfg(f"e1_{nm}", F, wv[1], vs, {wv: as_vector([0, vs])}, spatial=True,
                        note={"w": "w[1]", "v": "scalar argument", "rule": nm}))
        cfgs.append(Cfg(f"e0_{nm}", F, wv[0], vv[1], {wv: as_vector([vv[1], 0])}, spatial=True,
                        note={"w": "w[0]", "v": "component v[1] of a vector argument", "rule": nm}))
    for nm, F in [("det", wt[0, 0] * wt[1, 1] - wt[0, 1] * wt[1, 0]), ("grad", grad(wt)[0, 1, 0] * wt[0, 1])]:
        # the Grad rule raises IndexError (unwrap_list_tensor on the all-zero row of the merged
        # direction) for a component of a rank-2 coefficient: raising is allowed by the property
        cfgs.append(Cfg(f"e01_{nm}", F, wt[0, 1], vs, {wt: as_tensor([[0, vs], [0, 0]])}, spatial=True,
                        expect_raise=(nm == "grad"), note={"w": "w[0,1]", "v": "scalar argument", "rule": nm}))
    # list-tensor direction for the whole coefficient
    cfgs.append(Cfg("e_lt", inner(grad(wv), grad(wv)) + wv[0] * wv[1], wv, as_vector([vs, 0]),
                    {wv: as_vector([vs, 0])}, spatial=True, note={"w": "vector", "v": "as_vector([v,0])"}))
    # F. tuples --------------------------------------------------------------------------------
    w1, w2 = sc(()), sc((2,))
    v1, v2 = uflgen.arg(0, ()), uflgen.arg(0, (2,))
    for nm, F in [("mul", w1 * w2[0] * w2[1]), ("grad", inner(grad(w1), w2) + div(w2) * w1),
                  ("sin", ufl.sin(w1 * w2[1]) + inner(w2, w2))]:
        cfgs.append(Cfg(f"f_{nm}", F, (w1, w2), (v1, v2), {w1: v1, w2: v2}, spatial=True,
                        note={"w": "tuple (scalar, vector)", "rule": nm}))
    s1, s2 = sc(()), sc(())
    cfgs.append(Cfg("f_shape_n", s1 * s2 * s2 + inner(grad(s1), grad(s2)), (s1, s2), vv, {s1: vv[0], s2: vv[1]},
                    spatial=True, note={"w": "tuple of 2 scalars", "v": "vector argument of shape (2,)"}))
    cfgs.append(Cfg("f_listtensor", s1 * s2 * s2, as_vector([s1, s2]), vv, {s1: vv[0], s2: vv[1]},
                    note={"w": "as_vector([s1, s2])", "v": "vector argument"}))
    # tuples / list tensors / components of SEVERAL coefficients listed in every order (the pairing of
    # coefficients with directions must not depend on creation order); same-shaped members
    import itertools
    s3 = sc(())
    c1, c2, c3 = sc(()), sc(()), sc(())           # coefficient directions
    Fs3 = s1 * s2 * s2 + s3 * s3 * s3 * s1 + inner(grad(s1), grad(s2)) * s3
    mem = [(s1, c1), (s2, c2), (s3, c3)]
    for k, perm in enumerate(itertools.permutations(mem)):
        if k == 0:
            continue                                  # creation order: covered above
        ws, ds = tuple(m[0] for m in perm), tuple(m[1] for m in perm)
        cfgs.append(Cfg(f"f_perm3_{k}", Fs3, ws, ds, {a: b for a, b in perm}, spatial=True,
                        note={"w": "tuple of 3 scalars, order " + "".join(str(mem.index(m)) for m in perm),
                              "v": "tuple of coefficients"}))
    cfgs.append(Cfg("f_perm2_args", s1 * s2 * s2 + inner(grad(s1), grad(s2)), (s2, s1), (vv[0], vv[1]),
                    {s2: vv[0], s1: vv[1]}, spatial=True,
                    note={"w": "(s2, s1): reverse creation order", "v": "(v[0], v[1])"}))
    cfgs.append(Cfg("f_perm2_shape_n", s1 * s2 * s2 + s1, (s2, s1), vv, {s2: vv[0], s1: vv[1]},
                    note={"w": "(s2, s1): reverse creation order", "v": "vector argument of shape (2,)"}))
    cfgs.append(Cfg("f_perm2_listtensor", s1 * s2 * s2 + s1, as_vector([s2, s1]), vv, {s2: vv[0], s1: vv[1]},
                    note={"w": "as_vector([s2, s1])", "v": "vector argument"}))
    dv1, dv2 = sc((2,)), sc((2,))
    cfgs.append(Cfg("f_perm2_vec", inner(wv, hv) * wv[0] + inner(grad(hv), grad(hv)), (hv, wv), (dv1, dv2),
                    {hv: dv1, wv: dv2}, spatial=True,
                    note={"w": "(h, w): two vectors in reverse creation order", "v": "coefficients"}))
    cfgs.append(Cfg("f_perm_comp", wv[1] * hv[0] * hv[0] + wv[0] * hv[1] + grad(hv)[0, 1] * wv[1], (hv[0], wv[1]), (c1, c2),
                    {hv: as_vector([c1, 0]), wv: as_vector([0, c2])}, spatial=True,
                    note={"w": "(h[0], w[1]): components of two coefficients, reverse creation order"}))
    cfgs.append(Cfg("f_perm_comp2", wv[1] * hv[0] * wv[0] + hv[1], (hv[0], wv[1], wv[0]), (c1, c2, c3),
                    {hv: as_vector([c1, 0]), wv: as_vector([c3, c2])},
                    note={"w": "(h[0], w[1], w[0]): components, mixed order"}))
    # G. mixed element ---------------------------------------------------------------------------
    W = mixed_space()
    wm = ufl.Coefficient(W)
    vm = ufl.Argument(W, 0)
    u, p = split(wm)
    Fm = [("mul", u * p[0] * p[1]), ("grad", inner(grad(u), p) + div(p) * u * u)]
    for nm, F in Fm:
        cfgs.append(Cfg(f"g_whole_{nm}", F, wm, vm, {wm: vm}, spatial=True, note={"w": "mixed (whole)", "rule": nm}))
        cfgs.append(Cfg(f"g_auto_{nm}", F, wm, None, "auto", spatial=True,
                        note={"w": "mixed (whole)", "v": "created by derivative()", "rule": nm}))
        cfgs.append(Cfg(f"g_sub0_{nm}", F, u, vs, {wm: as_vector([vs, 0, 0])}, spatial=True,
                        note={"w": "split(w)[0]", "rule": nm}))
        cfgs.append(Cfg(f"g_sub1_{nm}", F, p, vv, {wm: as_vector([0, vv[0], vv[1]])}, spatial=True,
                        note={"w": "split(w)[1]", "rule": nm}))
    # H. second derivatives ----------------------------------------------------------------------
    va, vb = uflgen.arg(0, ()), uflgen.arg(1, ())
    for nm, F in [("cube", w ** 3 * f), ("sin", ufl.sin(w * f)), ("div", f / w), ("pow", w ** f),
                  ("grad", inner(grad(w), grad(w)) * w), ("sqrt", ufl.sqrt(w * w + f))]:
        cfgs.append(Cfg(f"h_{nm}", F, w, va, {w: va}, second=(w, vb, {w: vb}), spatial=True,
                        note={"w": "scalar", "second derivative": True, "rule": nm}))
    va2, vb2 = uflgen.arg(0, (2,)), uflgen.arg(1, (2,))
    cfgs.append(Cfg("h_vec", inner(wv, wv) * wv[0] + inner(grad(wv), grad(wv)) * wv[1], wv, va2, {wv: va2},
                    second=(wv, vb2, {wv: vb2}), spatial=True, note={"w": "vector", "second derivative": True}))
    cfgs.append(Cfg("h_mixed", w1 * w1 * w2[0], w1, va, {w1: va}, second=(w2, vb2, {w2: vb2}),
                    note={"w": "scalar then vector", "second derivative": True}))
    # I. user-supplied coefficient derivatives ---------------------------------------------------
    df = sc(())
    for nm, F in [("mul", f * w), ("sin", ufl.sin(f) * w + f * f), ("div", w / f)]:
        cfgs.append(Cfg(f"i_{nm}", F, w, v, {w: v, f: df * v}, cd={f: df},
                        note={"w": "scalar", "coefficient_derivatives": "{f: df}", "rule": nm}))
    cfgs.append(Cfg("i_lit", f * f * w, w, v, {w: v, f: 2.0 * v}, cd={f: 2.0},
                    note={"w": "scalar", "coefficient_derivatives": "{f: 2.0}"}))
    cfgs.append(Cfg("i_self", f * w, w, v, {w: v, f: w * v}, cd={f: w},
                    note={"w": "scalar", "coefficient_derivatives": "{f: w}"}))
    dF = sc((2, 2))
    cfgs.append(Cfg("i_vec", inner(hv, wv) + hv[0] * hv[1], wv, vv,
                    {wv: vv, hv: as_vector([dF[0, 0] * vv[0] + dF[0, 1] * vv[1], dF[1, 0] * vv[0] + dF[1, 1] * vv[1]])},
                    cd={hv: dF}, note={"w": "vector", "coefficient_derivatives": "{h: dF (2x2)}"}))
    dfa, dfb = sc(()), sc((2,))
    cfgs.append(Cfg("i_tuple", f * w1 * w2[1], (w1, w2), (v1, v2),
                    {w1: v1, w2: v2, f: dfa * v1 + dfb[0] * v2[0] + dfb[1] * v2[1]}, cd={f: (dfa, dfb)}, expect_raise=True,   # derivative() rejects tuple relations (as_ufl)
                    note={"w": "tuple", "coefficient_derivatives": "{f: (dfa, dfb)}"}))
    # the Grad rule with a user relation: KNOWN DEFECT class (see known/C02.json)
    cfgs.append(Cfg("i_grad", inner(grad(f), grad(f)) * w, w, v, {w: v, f: 2.0 * v}, cd={f: 2.0}, spatial=True,
                    known_class="grad-of-related-coefficient",
                    note={"w": "scalar", "coefficient_derivatives": "{f: 2.0}", "rule": "Grad"}))
    cfgs.append(Cfg("i_grad2", grad(f)[0] * w, w, v, {w: v, f: df * v}, cd={f: df}, spatial=True,
                    known_class="grad-of-related-coefficient",
                    note={"w": "scalar", "coefficient_derivatives": "{f: df}", "rule": "Grad"}))
    # L. several derivative nodes expanded in ONE call (shared dispatcher / ruleset caches) ---------
    df2 = sc(())
    vb1 = uflgen.arg(1, ())
    P = [  # (name, F1, w1, v1, cd1, var1, F2, w2, v2, cd2, var2)
        ("cd_cd", ufl.sin(f) * w, w, v, {f: df}, {w: v, f: df * v}, ufl.exp(f) * w, w, v, {f: df2}, {w: v, f: df2 * v}),
        ("cd_lit", ufl.sin(f) * w, w, v, {f: 2}, {w: v, f: 2 * v}, ufl.exp(f), w, v, {f: 5}, {w: v, f: 5 * v}),
        ("sameF", f * f * w, w, v, {f: df}, {w: v, f: df * v}, f * f * w, w, v, {f: df2}, {w: v, f: df2 * v}),
        ("cd_none", f * w, w, v, {f: df}, {w: v, f: df * v}, f * w * w, w, v, None, {w: v}),
        ("none_cd", f * w * w, w, v, None, {w: v}, f * w, w, v, {f: df}, {w: v, f: df * v}),
        ("cd_keys", f * g * w, w, v, {f: df}, {w: v, f: df * v}, f * g * w, w, v, {g: df}, {w: v, g: df * v}),
        ("dir", w * w * f, w, v, None, {w: v}, ufl.sin(w) * f, w, vb1, None, {w: vb1}),
        ("dirc", w * w * f, w, v, None, {w: v}, w * w * f, w, vc, None, {w: vc}),
        ("coef", w * w * f, w, v, None, {w: v}, w * f * f, f, v, None, {f: v}),
        ("grad", inner(grad(w), grad(w)) * f, w, v, None, {w: v}, inner(grad(w), grad(f)), f, v, None, {f: v}),
    ]
    for nm, F1, w1_, v1_, cd1, var1, F2, w2_, v2_, cd2, var2 in P:
        for mode in ("sum", "prod"):
            cfgs.append(Cfg(f"l_{nm}_{mode}", F1, w1_, v1_, var1, cd=cd1, spatial=True,
                            part2=(F2, w2_, v2_, cd2, var2, mode),
                            note={"two derivative nodes in one expression": mode, "pair": nm}))
    dxm, dsm = ufl.dx(uflgen.mesh("triangle")), ufl.ds(uflgen.mesh("triangle"))
    for nm, F1, w1_, v1_, cd1, var1, F2, w2_, v2_, cd2, var2 in P[:6]:
        for which in (0, 1):
            cfgs.append(Cfg(f"l_{nm}_form{which}", F1, w1_, v1_, var1, cd=cd1, spatial=True,
                            form=(dxm, F2, w2_, v2_, cd2, var2, dsm, which),
                            note={"two integrals of one form": f"integrand {which}", "pair": nm}))
    # derivative of a derivative with different relations at the two levels
    cfgs.append(Cfg("l_nested_cd", ufl.sin(f) * w * w, w, va, {w: va, f: df * va}, cd={f: df},
                    second=(w, vb, {w: vb, f: df2 * vb}, {f: df2}),
                    note={"second derivative": True, "relations": "{f: df} inside, {f: df2} outside"}))
    # J. must raise (or be right): unsupported directions / operands -----------------------------
    cfgs.append(Cfg("r_dir_expr", inner(grad(w), grad(w)), w, f * v, {w: f * v}, spatial=True, expect_raise=True,
                    note={"v": "f*v (not an argument) under Grad"}))
    cfgs.append(Cfg("r_dir_expr_nograd", w * w * f, w, f * v, {w: f * v}, note={"v": "f*v (not an argument)"}))
    cfgs.append(Cfg("r_refval", C.ReferenceValue(w) * w, w, v, {w: v}, expect_raise=True, note={"rule": "ReferenceValue"}))
    cfgs.append(Cfg("r_refgrad", C.ReferenceGrad(w)[0] * w, w, v, {w: v}, expect_raise=True, note={"rule": "ReferenceGrad"}))
    # K. nested compositions from a typed generator (rule application / traversal) ---------------
    rng = random.Random(1000 + seed)
    nrand = 10 if tier == "quick" else 40
    for k in range(nrand):
        kind = rng.choice(["s", "s", "v", "c"])
        if kind == "s":
            F = gen_scalar(rng, 3, {"w": w, "f": f, "g": g, "vec": None})
            cfgs.append(Cfg(f"k{k}_s", F, w, v, {w: v}, spatial=True, note={"generated": True, "w": "scalar"}))
        elif kind == "v":
            F = gen_scalar(rng, 3, {"w": None, "f": f, "g": g, "vec": wv, "vec2": hv})
            cfgs.append(Cfg(f"k{k}_v", F, wv, vv, {wv: vv}, spatial=True, note={"generated": True, "w": "vector"}))
        else:
            F = gen_scalar(rng, 3, {"w": None, "f": f, "g": g, "vec": wv, "vec2": hv})
            cfgs.append(Cfg(f"k{k}_c", F, wv[1], vs, {wv: as_vector([0, vs])}, spatial=True,
                            note={"generated": True, "w": "w[1]"}))
    return cfgs


def gen_scalar(rng, depth, T):
    """Random well-typed scalar expression (no free indices)."""
    def leaf():
        opts = [T["f"], T["g"], T["f"] * rng.choice([2, 3, -1]), T["g"] + rng.choice([0.5, 1.5])]
        if T.get("w") is not None:
            opts += [T["w"]] * 4 + [grad(T["w"])[rng.randrange(2)]]
        if T.get("vec") is not None:
            vec = T["vec"]
            gvec = T.get("gvec", vec)      # grad is applied to this (a terminal)
            opts += [vec[0], vec[1], vec[rng.randrange(2)], grad(gvec)[rng.randrange(2), rng.randrange(2)]]
            if T.get("vec2") is not None:
                opts += [inner(vec, T["vec2"]), dot(vec, vec)]
        return rng.choice(opts)

    if depth == 0:
        return leaf()
    op = rng.choice(["add", "mul", "mul", "div", "sin", "exp", "pow", "cond", "sqrt", "leaf", "isum", "var", "abs"])
    # quotients and square roots only of leaves: their definedness conditions (denominator, sqrt
    # value non-zero) then stay simple enough for `field`; the results still flow through every rule
    # applied above them.  Deep quotient/sqrt operands are covered by the enumerated rule cases.
    if op in ("div", "sqrt") and depth != 1:
        op = {"div": "mul", "sqrt": "sin"}[op]
    a = gen_scalar(rng, depth - 1, T)
    if op == "leaf":
        return a
    if op == "sin":
        return rng.choice([ufl.sin, ufl.cos])(a)
    if op == "exp":
        return ufl.exp(a)
    if op == "sqrt":
        return ufl.sqrt(a)
    if op == "abs":
        # abs(abs(x)) corrupts the inner node in /repo (Abs.__new__ returns it, __init__ re-runs on it
        # with itself as operand: a cyclic expression) -- a constructor defect outside this property
        return a if isinstance(a, C.Abs) else abs(a)
    if op == "pow":
        return a ** rng.choice([2, 3])
    if op == "var":
        va = variable(a)
        return va * va
    b = gen_scalar(rng, depth - 1, T)
    if op == "add":
        return a + b
    if op == "mul":
        return a * b
    if op == "div":
        return a / b
    if op == "cond":
        return conditional(gt(a, T["f"]), a, b)
    if op == "isum":
        vec = T.get("vec")
        if vec is None:
            return a * b
        i = ufl.Index()
        return (vec[i] * vec[i]) * a + b
    raise AssertionError(op)


# ----------------------------------------------------------------------------------------------

def resolve_auto(cfg):
    """derivative() created the direction itself: recover it from the result."""
    if cfg.variation == "auto":
        args = [a for a in extract_arguments(cfg.out)]
        if len(args) != 1 or args[0].ufl_shape != cfg.w.ufl_shape:
            raise RuntimeError("expected exactly one created argument")
        cfg.variation = {cfg.w: args[0]}


def in_known_class(cfg, known):
    return cfg.known_class is not None and any(k.get("class_id") == cfg.known_class for k in known)


def main(run):
    known = vlib.load_known_findings(PID)
    cfgs = [c.run() for c in configurations(run.tier, run.seed)]
    cases, by_name = [], {}
    n_raised = 0
    for c in cfgs:
        run.count_case((c.name, str(c.F)))
        if c.raised is not None:
            n_raised += 1
            if not c.expect_raise and c.known_class is None:
                # a supported differentiation raises: not a wrong value, but the tie is broken
                run.violation({"broken": "derivative of a supported configuration raised", "case": c.name,
                               "F": str(c.F), "exception": c.raised, "note": c.note}, True)
            continue
        resolve_auto(c)
        if c.known_class is not None:
            continue            # replayed below
        try:
            cs = c.case()
        except Exception as ex:  # noqa: BLE001
            run.violation({"broken": "cannot serialise the traced derivative (tie not established)",
                           "case": c.name, "F": str(c.F), "out": str(c.out)[:500], "error": repr(ex)[:300]}, False)
            continue
        cases.append(cs)
        by_name[cs.name] = c
    for c in cfgs[:8]:
        if c.out is not None:
            run.sample({"case": c.name, "F": str(c.F)[:120], "derivative": str(c.out)[:200]})
    run.extra["raised_as_expected"] = [c.name for c in cfgs if c.raised is not None and c.expect_raise]
    run.extra["returned_although_raise_expected"] = [c.name for c in cfgs if c.raised is None and c.expect_raise]

    failing = coqgen.emit_and_check(run, PID, cases, extra_header=K.LAWS, timeout=600)
    hand = vlib.coqc("Props/C02_gateaux.v")
    run.add_coq_result(hand)
    if not hand.ok:
        run.violation({"broken": "hand-written theorem file does not check", "file": hand.path,
                       "error": (hand.err or "")[-1500:]}, False)

    seen = set()
    for case, lemma, msg in failing:
        if case is None:
            run.violation({"broken": "generated obligations file does not compile", "message": msg}, False)
            continue
        if case.name in seen:
            continue
        seen.add(case.name)
        c = by_name[case.name]
        w = K.derivative_oracle(c.F, c.out, c.variation, trials=30 if run.tier == "quick" else 200,
                                seed=run.seed, variation2=c.second[2] if c.second else None,
                                part2=c.oracle_part2())
        rep = {"broken_obligation": lemma, "case": case.name, "note": c.note, "coq_message": msg,
               "F": str(c.F), "w": str(c.w), "v": str(c.v), "coefficient_derivatives": str(c.cd),
               "second": str(c.second[:2]) if c.second else None,
               "second_node_in_same_expression": str(c.part2[:4] + c.part2[5:]) if c.part2 else None,
               "form": str(c.form) if c.form else None,
               "implementation_result": str(c.out)[:2000],
               "reproduce": "expand_derivatives(derivative(F, w, v, coefficient_derivatives)) ; bin/check C02"}
        if w:
            rep["witness"] = w
        run.violation(rep, bool(w))

    # known finding: Grad of a coefficient that has a user-supplied derivative -------------------
    # The behaviour is detected, not assumed: the configurations of this class may (a) raise -- the
    # "raises instead of a wrong value" half of the property holds and C02_raises_refuted does not
    # apply to this tree (its premise `gradable k id = false` for a related coefficient, i.e. "the
    # Grad rule returns 0 for it", is false); (b) return the right value -- proved like any case;
    # (c) return a wrong value -- KNOWN-FINDING if the finding is open and the behaviour is the
    # recorded one, VIOLATION otherwise.
    behaviour = {}
    for c in cfgs:
        if c.known_class is None:
            continue
        if c.raised is not None:
            behaviour[c.name] = "raises: " + c.raised[:120]
            continue
        w = K.derivative_oracle(c.F, c.out, c.variation, trials=30, seed=run.seed)
        behaviour[c.name] = "returns the true derivative" if w is None else "returns a wrong value"
        if w is None:
            # not (or no longer) wrong: it has to be provable like every other case
            cs = c.case()
            fl = coqgen.emit_and_check(run, PID + "k_" + c.name, [cs], extra_header=K.LAWS, timeout=300)
            if fl:
                run.violation({"broken_obligation": fl[0][1], "case": c.name, "F": str(c.F),
                               "implementation_result": str(c.out)[:1000]}, False)
            continue
        # wrong value: known only if it is exactly the recorded behaviour (grad(f) treated as constant)
        import pyden
        norel = expand_derivatives(derivative(c.F, c.w, c.v))
        same_as_without_relation = (norel == c.out) or pyden.find_mismatch(c.out, norel, trials=10,
                                                                           seed=run.seed) is None
        if in_known_class(c, known) and same_as_without_relation:
            run.known(f"case={c.name} derivative(F, w, v, coefficient_derivatives) with grad(f) in F silently "
                      f"ignores the relation for f (returns a value instead of raising); witness component "
                      f"{w['component']}: implementation {w['implementation_value']} true {w['true_derivative']}")
        else:
            run.violation({"case": c.name, "F": str(c.F), "coefficient_derivatives": str(c.cd),
                           "implementation_result": str(c.out)[:1000], "witness": w,
                           "reproduce": "expand_derivatives(derivative(F, w, v, coefficient_derivatives=cd))"}, True)

    wrong = any(b.startswith("returns a wrong") for b in behaviour.values())
    run.extra["grad_of_related_coefficient_behaviour"] = behaviour
    run.extra["C02_raises_refuted_applies_to_this_tree"] = wrong
    run.extra["C02_raises_refuted_note"] = (
        "the Grad rule returns 0 for grad(f) of a coefficient with a user relation: the model parameter "
        "`gradable f = false` describes this tree and C02_raises_refuted exhibits the defect" if wrong else
        "not applicable: the Grad rule of this tree does not return a value for grad(f) of a coefficient with "
        "a user relation (it raises, or differentiates it correctly), so the premise of C02_raises_refuted "
        "(`gradable f = false`, result Zero) does not describe the code; the raise-or-correct half holds and "
        "C02_gateaux_partial covers every expression the rule table accepts")
    run.trusted.update([
        "Coq 8.16.1 kernel (coqc); vm_compute used for normalisation, no native_compute",
        "py/ufl2coq.py serializer (node-for-node, fail-closed); float literals read as the small rational they round",
        "den of coq/Core/Den.v as the meaning of expressions (Grad = Dx applied componentwise)",
        "specification = derivation laws of C02_common.LAWS (Record deriv_laws + identities tan_id, tanh_id, "
        "cond_sel, Bessel reflection) stated as Section hypotheses; erf' uses the binary64 literal 2/sqrt(pi)",
        "py/C02_common.py: per-case statement of G on terminals (variation map written by hand per configuration)",
        "algebra lowering of compound operators (inner, dot, det, ...) is part of the traced pipeline (C06)",
    ])
    return run.finish(
        rule="one case per (rule, operand dependence pattern, form of (w, v), relation) + generated nested "
             "expressions; every component of the result is one obligation den(result) c = G(den F c) proved "
             "for all field values; distinct = distinct (name, F)",
        assumptions=["G is a derivation obeying the chain-rule laws (deriv_laws) and commuting with Dx/DX",
                     "characteristic zero; denominators of the differentiation laws non-zero (definedness)",
                     "conditions of conditionals are not differentiated (derivative where F is smooth)"])
