"""C28 - Base-form algebra has the semantics of the linear maps it denotes.

Unbounded part (coq/Props/C28_model.v): Gallina models of FormSum.__new__/__init__, Action.__new__,
Adjoint.__new__, BaseForm/Form __add__/__sub__/__neg__/__rmul__ and of the reported number of
arguments; theorems that every simplification preserves `assemble` in an abstract multilinear-map
algebra, for all compositions (C28_build_partial, induction on the composition syntax).

Tie T3 (this file, every run): seeded, well-typed compositions of REAL Forms (0-2 arguments),
Matrix, Cofunction, Coefficient, Coargument, ZeroBaseForm, FormSum with integer weights, Action and
Adjoint are built with the real constructors; the resulting object tree (types, weights, leaves,
len(arguments())) is mapped to the Gallina syntax and compared structurally, inside Coq, with what the
model builds from the same composition (`Example ... : build e = <real>. vm_compute. reflexivity.`).
Search oracle when an obligation breaks: a numeric assembler over random integer tensors."""

import os
import random

import numpy as np

import ufl
from ufl import Action, Adjoint, Argument, Coargument, Coefficient, Cofunction, FormSum, Matrix, ZeroBaseForm
from ufl.classes import Constant, Form, IntValue, Product, ScalarValue, Sum

import uflgen
import vlib

HAND_FILES = ["Props/C28_model.v"]



DIMS = {0: 2, 1: 2, 2: 3, 3: 3}   # numeric dimension of the spaces V, V*, U, U*


class World:
    """Fresh leaves for one case (constructors may mutate their operands: see the known finding).
    Space codes: 0 = V (P1), 1 = V*, 2 = U (P2), 3 = U*."""

    def __init__(self, rng):
        self.rng = rng
        self.mesh = uflgen.mesh("triangle")
        V = uflgen.space((), "triangle")
        U = uflgen.space((), "triangle", degree=2)
        self.spaces = [V, V.dual(), U, U.dual()]
        self.V, self.Vd = self.spaces[0], self.spaces[1]
        self.dx = ufl.dx(domain=self.mesh)
        self.base_integrands = []     # id -> (integrand of the base form, sig)
        self.leaves, self.coefs = [], []
        self.num = {}

    def code(self, space):
        for i, sp in enumerate(self.spaces):
            if sp == space:
                return i
        raise ValueError("unknown function space")

    def sig_of(self, o):
        return [self.code(a.ufl_function_space()) for a in o.arguments()]

    def tensor(self, key, sig):
        if key not in self.num:
            shape = tuple(DIMS[c] for c in sig)
            n = int(np.prod(shape)) if shape else 1
            self.num[key] = np.array([self.rng.randint(-3, 3) for _ in range(n)], dtype=object).reshape(shape)
        return self.num[key]

    def form(self, sig):
        e = Constant(self.mesh)
        for i, c in enumerate(sig):
            e = e * Argument(self.spaces[c], i)
        f = e * self.dx
        self.base_integrands.append((f.integrals()[0].integrand(), tuple(sig)))
        return f

    def matrix(self, sig):
        m = Matrix(self.spaces[sig[0]], self.spaces[sig[1]])
        self.leaves.append(m)
        return m

    def cofunction(self, c):
        cf = Cofunction(self.spaces[c ^ 1])
        self.leaves.append(cf)
        return cf

    def coefficient(self, c):
        f = Coefficient(self.spaces[c])
        self.coefs.append(f)
        return f

    def zero(self, sig):
        return ZeroBaseForm(tuple(Argument(self.spaces[c], i) for i, c in enumerate(sig)))


# ----------------------------------------------------------------------------------------------
# typed generation of compositions.  A composition is a tuple tree; leaves carry the real object.

WEIGHTS = [1, 1, 2, 3, -1, -2]


def leaf_kinds(sig):
    ks = []
    if all(c % 2 == 0 for c in sig) and len(sig) <= 2:
        ks.append("form")
    if len(sig) == 1 and sig[0] % 2 == 0:
        ks.append("cof")
    if len(sig) == 2:
        ks.append("mat")
        if tuple(sig) == (0, 1):
            ks.append("coarg")
    return ks


def gen(w, sig, depth):
    rng = w.rng
    sig = tuple(sig)
    opts = []
    if leaf_kinds(sig):
        opts += ["leaf"] * (3 if depth > 0 else 1)
    if len(sig) <= 2 and rng.random() < 0.15:
        opts.append("zero")
    if depth > 0:
        opts += ["add", "sub", "neg", "mul", "fs1", "fs2", "fs3", "actf", "actf", "actc", "actc", "adj", "adj",
                 "addz", "subz", "rsubz", "rsubz"]
        if tuple(sig[-1:]) == (1,) and rng.random() < 0.5:
            opts.append("actid")
        if tuple(sig[:1]) == (0,) and rng.random() < 0.3:
            opts.append("idact")
    rng.shuffle(opts)
    for o in opts:
        r = gen_opt(w, sig, depth, o)
        if r is not None:
            return r
    return None


def gen_opt(w, sig, depth, o):
    rng = w.rng
    d = depth - 1
    if o == "leaf":
        k = rng.choice(leaf_kinds(sig))
        if k == "form":
            return ("obj", w.form(sig))
        if k == "cof":
            return ("obj", w.cofunction(sig[0]))
        if k == "mat":
            return ("obj", w.matrix(sig))
        return ("obj", Coargument(w.Vd, 1))
    if o == "zero":
        return ("obj", w.zero(sig))
    if o in ("add", "sub"):
        a, b = gen(w, sig, d), gen(w, sig, d)
        return None if a is None or b is None else (o, a, b)
    if o == "neg":
        a = gen(w, sig, d)
        return None if a is None else ("neg", a)
    if o == "mul":
        a = gen(w, sig, d)
        return None if a is None else ("mul", rng.choice(WEIGHTS), a)
    if o in ("addz", "subz", "rsubz"):
        # a literal zero as the other operand: a + 0, 0 + a, a - 0, 0 - a (reflected operators)
        a = gen(w, sig, depth if rng.random() < 0.5 else d)
        return None if a is None else (o, rng.choice(["int", "float", "Zero"]), rng.random() < 0.5, a)
    if o in ("fs1", "fs2", "fs3"):
        n = int(o[2])
        parts = [gen(w, sig, d) for _ in range(n)]
        if any(p is None for p in parts):
            return None
        return ("fs", [(p, rng.choice(WEIGHTS)) for p in parts])
    if o == "actf":          # contraction with a base form: last space of left = dual of first of right
        k = rng.randint(0, len(sig))
        s1, s2 = sig[:k], sig[k:]
        if len(s1) > 1 or len(s2) > 1:
            return None
        x = rng.choice([1, 1, 3, 3, 0, 2])
        l, r = gen(w, s1 + (x,), d), gen(w, (x ^ 1,) + s2, d)
        return None if l is None or r is None else ("act", l, r)
    if o == "actc":          # contraction with a Coefficient / sum of two Coefficients
        if len(sig) > 1:
            return None
        x = rng.choice([0, 0, 2])
        l = gen(w, sig + (x,), d)
        if l is None:
            return None
        if rng.random() < 0.3:
            return ("act", l, ("obj", w.coefficient(x) + w.coefficient(x)))
        return ("act", l, ("obj", w.coefficient(x)))
    if o == "actid":         # identity on the right: Action(l, Coargument) -> l
        l = gen(w, sig, d)
        return None if l is None else ("act", l, ("obj", Coargument(w.Vd, 1)))
    if o == "idact":         # identity on the left: Action(Coargument, r) -> r
        r = gen(w, sig, d)
        return None if r is None else ("act", ("obj", Coargument(w.Vd, 1)), r)
    if o == "adj":
        if len(sig) != 2:
            return None
        a = gen(w, sig[::-1], d)
        return None if a is None else ("adj", a)
    return None


# ----------------------------------------------------------------------------------------------
# real evaluation and mapping of real objects to the Gallina syntax (python tuples)

class Skip(Exception):
    """The composition leaves the modelled vocabulary (an Expr where a BaseForm is needed)."""


def need_baseform(*objs):
    from ufl.form import BaseForm
    for o in objs:
        if not isinstance(o, BaseForm):
            raise Skip()


class CyclicFound(Exception):
    def __init__(self, sub, inclass=False):
        self.sub = sub
        self.inclass = inclass


class Rejected(Exception):
    """A well-typed composition was refused by a constructor."""

    def __init__(self, e, exc):
        self.e, self.exc = e, exc


LAST = {"inclass": False}


def py_reinit(l, r):
    """Mirror of C28_model.reinit on real objects: the known-finding class."""
    def ident(x):
        return isinstance(x, (Argument, Coargument))

    def act(x):
        return isinstance(x, Action)

    def rr(c, r):
        if ident(c):
            return act(r)
        if isinstance(r, FormSum):
            return any(ident(c2) and act(c) for c2 in r.components())
        return False
    if isinstance(l, ZeroBaseForm) or isinstance(r, ZeroBaseForm):
        return False
    if ident(l):
        return act(r)
    if ident(r):
        return act(l)
    if isinstance(l, FormSum):
        return any(rr(c, r) for c in l.components())
    return rr(l, r)


def is_cyclic(o, seen=None):
    seen = set() if seen is None else seen
    if id(o) in seen:
        return False
    seen.add(id(o))
    if isinstance(o, Action):
        if o._left is o or o._right is o:
            return True
        return is_cyclic(o._left, seen) or is_cyclic(o._right, seen)
    if isinstance(o, Adjoint):
        return o._form is o or is_cyclic(o._form, seen)
    if isinstance(o, FormSum):
        return any(is_cyclic(c, seen) for c in o.components())
    return False


def evaluate(e):
    """Build the real object of a composition bottom-up; a re-initialised Action ends the case."""
    if e[0] == "obj":
        return e[1]
    LAST["inclass"] = False
    try:
        return evaluate1(e)
    except RecursionError:
        # the re-initialised Action was created and then used inside the same constructor call
        raise CyclicFound((e, None), LAST["inclass"])


def evaluate1(e):
    k = e[0]
    if k == "fs":
        vals = [(evaluate(p), wt) for p, wt in e[1]]
        need_baseform(*[v for v, _ in vals])
        r = FormSum(*vals)
    elif k in ("add", "sub"):
        a, b = evaluate(e[1]), evaluate(e[2])
        need_baseform(a, b)
        r = a + b if k == "add" else a - b
    elif k in ("addz", "subz", "rsubz"):
        from ufl.classes import Zero
        a = evaluate(e[3])
        need_baseform(a)
        z = {"int": 0, "float": 0.0, "Zero": Zero()}[e[1]]
        if k == "addz":
            r = (z + a) if e[2] else (a + z)
        elif k == "subz":
            r = a - z
        else:
            r = z - a
    elif k == "neg":
        a = evaluate(e[1])
        need_baseform(a)
        r = -a
    elif k == "mul":
        a = evaluate(e[2])
        need_baseform(a)
        r = e[1] * a
    elif k == "act":
        l, rr = evaluate(e[1]), evaluate(e[2])
        if isinstance(rr, Sum) and isinstance(l, ZeroBaseForm):
            raise Skip()     # Action(ZeroBaseForm, u1 + u2) raises TypeError (not a value question)
        if isinstance(l, (Coefficient, Sum)):
            raise Skip()     # Coefficient as LEFT operand: outside the modelled vocabulary
        LAST["inclass"] = py_reinit(l, rr)
        try:
            r = Action(l, rr)
        except (TypeError, ValueError) as ex:
            raise Rejected(e, ex)
    elif k == "adj":
        a = evaluate(e[1])
        need_baseform(a)
        LAST["inclass"] = False
        try:
            r = Adjoint(a)
        except (TypeError, ValueError) as ex:
            raise Rejected(e, ex)
    else:
        raise ValueError(k)
    if isinstance(r, FormSum) and any(isinstance(c, Argument) for c in r.components()):
        raise Skip()         # FormSum holding the Argument that Adjoint(Coargument) returns: arguments() breaks
    if is_cyclic(r):
        raise CyclicFound((e, r), LAST["inclass"] if k == "act" else False)
    if numbering_class(r):
        LAST["numclass"] = True      # known finding action-argument-numbering reached by an operand
    return r


def peel(e):
    wt = 1
    while isinstance(e, Product) and isinstance(e.ufl_operands[0], ScalarValue):
        wt *= int(e.ufl_operands[0]._value)
        e = e.ufl_operands[1]
    return wt, e


def struct(w, o):
    """Real object -> Gallina bform as a python tuple."""
    if o is None:
        return ("Cyclic",)
    if isinstance(o, Action):
        if o._left is o or o._right is o:
            return ("Cyclic",)
        return ("Act", struct(w, o._left), struct(w, o._right))
    if isinstance(o, Adjoint):
        if o._form is o:
            return ("Cyclic",)
        return ("Adj", struct(w, o._form))
    if isinstance(o, FormSum):
        ws = o.weights()
        if not all(isinstance(x, int) for x in ws):
            raise ValueError(f"non-integer FormSum weight {ws!r}")
        return ("FSum", [(struct(w, c), int(x)) for c, x in zip(o.components(), ws)])
    if isinstance(o, ZeroBaseForm):
        return ("ZeroF", w.sig_of(o))
    if isinstance(o, Form):
        terms = []
        for itg in o.integrals():
            wt, e = peel(itg.integrand())
            for i, (b, _) in enumerate(w.base_integrands):
                if b == e:
                    terms.append((wt, i))
                    break
            else:
                raise ValueError(f"integrand is not a scaled base form: {itg.integrand()!r}")
        return ("FormL", w.sig_of(o), terms)
    if isinstance(o, (Matrix, Cofunction)):
        return ("Leaf", w.sig_of(o), [x is o for x in w.leaves].index(True))
    if isinstance(o, Coargument):
        return ("CoArg",)
    if isinstance(o, Argument):
        return ("Arg",)
    if isinstance(o, Coefficient):
        return ("Coef", [x is o for x in w.coefs].index(True))
    if isinstance(o, Sum):
        ops = o.ufl_operands
        if all(isinstance(x, Coefficient) for x in ops):
            return ("CoefSum", [[y is x for y in w.coefs].index(True) for x in ops])
    raise ValueError(f"object outside the modelled vocabulary: {type(o).__name__}")


def qz(n):
    return str(n) if n >= 0 else f"({n})"


def qn(xs):
    return "[" + "; ".join(f"{int(x)}%nat" for x in xs) + "]"


def q(st):
    k = st[0]
    if k == "FormL":
        return f"(FormL {qn(st[1])} [" + "; ".join(f"({qz(wt)}, {i}%nat)" for wt, i in st[2]) + "])"
    if k == "Leaf":
        return f"(Leaf {qn(st[1])} {st[2]}%nat)"
    if k == "Coef":
        return f"(Coef {st[1]}%nat)"
    if k == "CoefSum":
        return "(CoefSum [" + "; ".join(f"{i}%nat" for i in st[1]) + "])"
    if k == "ZeroF":
        return f"(ZeroF {qn(st[1])})"
    if k == "FSum":
        return "(FSum [" + "; ".join(f"({q(c)}, {qz(wt)})" for c, wt in st[1]) + "])"
    if k == "Act":
        return f"(Act {q(st[1])} {q(st[2])})"
    if k == "Adj":
        return f"(Adj {q(st[1])})"
    return k


def qexp(w, e):
    k = e[0]
    if k == "obj":
        return f"(EObj {q(struct(w, e[1]))})"
    if k == "fs":
        ps = e[1]
        body = " ".join(f"{qexp(w, p)} {qz(wt)}" for p, wt in ps)
        return f"(EFormSum{len(ps)} {body})"
    if k == "add":
        return f"(EAdd {qexp(w, e[1])} {qexp(w, e[2])})"
    if k == "sub":
        return f"(ESub {qexp(w, e[1])} {qexp(w, e[2])})"
    if k == "neg":
        return f"(ENeg {qexp(w, e[1])})"
    if k in ("addz", "subz", "rsubz"):
        return f"({ {'addz': 'EAddZero', 'subz': 'ESubZero', 'rsubz': 'ERSubZero'}[k]} {qexp(w, e[3])})"
    if k == "mul":
        return f"(EMul {qz(e[1])} {qexp(w, e[2])})"
    if k == "act":
        return f"(EAction {qexp(w, e[1])} {qexp(w, e[2])})"
    if k == "adj":
        return f"(EAdjoint {qexp(w, e[1])})"
    raise ValueError(k)


def show(e):
    k = e[0]
    if k == "obj":
        o = e[1]
        return type(o).__name__ + (f"[{len(o.arguments())}]" if hasattr(o, "arguments") and not isinstance(o, Argument) else "")
    if k == "fs":
        return "FormSum(" + ", ".join(f"({show(p)}, {wt})" for p, wt in e[1]) + ")"
    if k in ("add", "sub"):
        return f"({show(e[1])} {'+' if k == 'add' else '-'} {show(e[2])})"
    if k == "neg":
        return f"-{show(e[1])}"
    if k in ("addz", "subz", "rsubz"):
        z = {"int": "0", "float": "0.0", "Zero": "Zero()"}[e[1]]
        if k == "addz":
            return f"({z} + {show(e[3])})" if e[2] else f"({show(e[3])} + {z})"
        return f"({show(e[3])} - {z})" if k == "subz" else f"({z} - {show(e[3])})"
    if k == "mul":
        return f"{e[1]}*{show(e[2])}"
    if k == "act":
        return f"Action({show(e[1])}, {show(e[2])})"
    return f"Adjoint({show(e[1])})"


# ----------------------------------------------------------------------------------------------
# numeric oracle (search only)

def tensors_differ(a, b):
    a, b = np.asarray(a, dtype=object), np.asarray(b, dtype=object)
    if a.shape != b.shape:
        # an empty Form (all integrals vanished) has lost its arguments: it still denotes zero
        return bool(np.any(a != 0)) or bool(np.any(b != 0))
    return bool(np.any(a != b))


def zeros(sig):
    return np.zeros(tuple(DIMS[c] for c in sig), dtype=object) if sig else np.array(0, dtype=object)


def num_struct(w, st, kill=((), ())):
    """Assemble a structure; `kill` = (base form ids, leaf ids) that denote zero."""
    k = st[0]
    if k == "FormL":
        t = zeros(st[1])
        for wt, i in st[2]:
            if i not in kill[0]:
                t = t + wt * w.tensor(("F", i), w.base_integrands[i][1])
        return t
    if k == "Leaf":
        return zeros(st[1]) if st[2] in kill[1] else w.tensor(("X", st[2]), st[1])
    if k == "Coef":
        return w.tensor(("Y", st[1]), [w.code(w.coefs[st[1]].ufl_function_space())])
    if k == "CoefSum":
        return sum(num_struct(w, ("Coef", i)) for i in st[1])
    if k == "ZeroF":
        return zeros(st[1])
    if k == "FSum":
        return sum(wt * num_struct(w, c, kill) for c, wt in st[1])
    if k == "Act":
        return np.tensordot(num_struct(w, st[1], kill), num_struct(w, st[2], kill), axes=1)
    if k == "Adj":
        return num_struct(w, st[1], kill).T
    if k in ("CoArg", "Arg"):
        return np.eye(DIMS[0], dtype=int).astype(object)
    raise ValueError(k)


def num_exp(w, e):
    k = e[0]
    if k == "obj":
        return num_struct(w, struct(w, e[1]))
    if k == "fs":
        return sum(wt * num_exp(w, p) for p, wt in e[1])
    if k == "add":
        return num_exp(w, e[1]) + num_exp(w, e[2])
    if k == "sub":
        return num_exp(w, e[1]) - num_exp(w, e[2])
    if k == "neg":
        return -num_exp(w, e[1])
    if k in ("addz", "subz"):
        return num_exp(w, e[3])
    if k == "rsubz":
        return -num_exp(w, e[3])
    if k == "mul":
        return e[1] * num_exp(w, e[2])
    if k == "act":
        return np.tensordot(num_exp(w, e[1]), num_exp(w, e[2]), axes=1)
    return num_exp(w, e[1]).T


def spec_rank(w, e):
    k = e[0]
    if k == "obj":
        o = e[1]
        return 0 if isinstance(o, (Coefficient, Sum)) else len(o.arguments())
    if k == "fs":
        return spec_rank(w, e[1][0][0])
    if k in ("add", "sub"):
        return spec_rank(w, e[1])
    if k in ("neg", "adj"):
        return spec_rank(w, e[1])
    if k in ("addz", "subz", "rsubz"):
        return spec_rank(w, e[3])
    if k == "mul":
        return spec_rank(w, e[2])
    r = e[2]
    rr = 0 if (r[0] == "obj" and isinstance(r[1], (Coefficient, Sum))) else spec_rank(w, r) - 1
    return spec_rank(w, e[1]) - 1 + rr


# ----------------------------------------------------------------------------------------------

def nargs(r):
    """len(r.arguments()), None where the implementation cannot report them (Expr results, FormSum
    that contains the Argument Adjoint(Coargument) returns)."""
    if isinstance(r, Argument) or not hasattr(r, "arguments"):
        return None
    try:
        return len(r.arguments())
    except AttributeError:
        return None


def has_zero(st):
    if st[0] == "ZeroF":
        return True
    if st[0] == "FSum":
        return any(has_zero(c) for c, _ in st[1])
    if st[0] in ("Act", "Adj"):
        return any(has_zero(x) for x in st[1:])
    return False


def numbering_class(r, seen=None):
    """Known finding 'action-argument-numbering': a FormSum whose components all report k arguments
    but which itself reports more (the components' argument NUMBERS differ)."""
    if isinstance(r, FormSum):
        ks = [nargs(c) for c in r.components()]
        if None not in ks and len(set(ks)) == 1 and nargs(r) is not None and nargs(r) > ks[0]:
            return True
        return any(numbering_class(c) for c in r.components())
    if isinstance(r, Action):
        return numbering_class(r._left) or numbering_class(r._right)
    if isinstance(r, Adjoint):
        return numbering_class(r._form)
    return False


COQ_HEADER = """Require Import List ZArith Bool.
Import ListNotations.
Require Import UFLV.Props.C28_model.
Open Scope Z_scope.
"""

SIGS = [(), (0,), (0,), (2,), (0, 0), (0, 2), (2, 0), (2, 2), (0, 1), (0, 1), (0, 3), (2, 1), (2, 3),
        (1, 0), (3, 0), (1,), (3,)]


def make_case(seed, idx, tier, attempt=0):
    rng = random.Random(f"C28-{seed}-{idx}-{attempt}")
    w = World(rng)
    LAST["numclass"] = False
    for _ in range(20):
        e = gen(w, rng.choice(SIGS), rng.choice([1, 2, 2, 3, 3] if tier == "quick" else [1, 2, 3, 3, 4]))
        if e is not None and e[0] != "obj":
            break
    else:
        e = ("adj", ("obj", w.matrix((0, 2))))
    # quote the composition BEFORE evaluating it (evaluation may mutate operands)
    try:
        r = evaluate(e)
        cyclic = False
    except CyclicFound as c:
        e, r = c.sub
        cyclic = "inclass" if c.inclass else "outside"
    except Skip:
        return make_case(seed, idx, tier, attempt + 1)
    w.numclass = LAST["numclass"]
    return w, e, r, cyclic


def kill_function(w, KF, KX):
    """The `function` handed to map_integrands: base forms KF and leaves KX vanish."""
    from ufl.classes import Zero

    def function(o):
        if isinstance(o, (Matrix, Cofunction)):
            i = [x is o for x in w.leaves].index(True)
            return ZeroBaseForm(o.arguments()) if i in KX else o
        if isinstance(o, (Coargument, Argument, Coefficient, Sum)) and not isinstance(o, Form):
            _, e = peel(o)
            if not any(b == e for b, _ in w.base_integrands):
                return o
        wt, e = peel(o)
        for i, (b, _) in enumerate(w.base_integrands):
            if b == e:
                return Zero() if i in KF else o
        return o
    return function


def would_empty(st, KF):
    """Does killing KF leave a Form without integrals below an Action / Adjoint ?  (Action/Adjoint of an
    empty Form raise IndexError/ValueError: a crash, not a question of value)"""
    def empty(x):
        return x[0] == "FormL" and x[2] and all(i in KF for _, i in x[2])

    def walk(x, under):
        if x[0] == "FormL":
            return under and empty(x)
        if x[0] == "FSum":
            return any(walk(c, under) for c, _ in x[1])
        if x[0] == "Act":
            return walk(x[1], True) or walk(x[2], True)
        if x[0] == "Adj":
            return walk(x[1], True)
        return False
    return walk(st, False)


def map_stream(w, r, st, rng):
    """Run the real map_integrands with a killing function on the built object.
    Returns None (nothing to compare) or (KF, KX, structure of the result)."""
    from ufl.algorithms.map_integrands import map_integrands
    nF, nX = len(w.base_integrands), len(w.leaves)
    KF = sorted(i for i in range(nF) if rng.random() < 0.35)
    KX = sorted(i for i in range(nX) if rng.random() < 0.35)
    if not KF and not KX:
        return None
    LAST["inclass"] = False
    try:
        r2 = map_integrands(kill_function(w, KF, KX), r)
    except RecursionError:
        return None
    except (IndexError, ValueError, TypeError) as ex:
        if would_empty(st, KF):
            return None
        raise Rejected(("map_integrands", KF, KX), ex)
    if is_cyclic(r2) or not isinstance(r2, (ufl.form.BaseForm,)):
        return None
    if isinstance(r2, FormSum) and any(isinstance(c, Argument) for c in r2.components()):
        return None
    return KF, KX, struct(w, r2)


def known_replay():
    """The witness of the known finding on the real code."""
    V = uflgen.space((), "triangle")
    Vd = V.dual()
    a = Action(Matrix(V, Vd), Matrix(V, Vd))
    before = (a._left, a._right)
    b = Action(a, Coargument(Vd, 1))
    ok = b is a and a._left is a
    err = None
    try:
        a.arguments()
    except RecursionError:
        err = "RecursionError"
    return ok, err, before


def main(run):
    n = 240 if run.tier == "quick" else 4000
    findings = vlib.load_known_findings("C28")
    cases, texts = [], []
    cyc_hits = 0
    num_hits = 0
    maps = 0
    rejected = 0
    # which behaviour does the code under test have?  (pinned: Action.__init__ re-runs on the object
    # Action.__new__ returned; with fixes/C28-action-reinit.diff it does not)
    mode = "true" if known_replay()[0] else "false"
    run.extra["action_reinit_mode"] = mode
    for idx in range(n):
        try:
            w, e, r, cyclic = make_case(run.seed, idx, run.tier)
        except Rejected as rj:
            if rejected < 2:
                run.violation({"broken": "a well-typed composition (accepted by the model) is refused by the constructor",
                               "composition": show(rj.e), "error": f"{type(rj.exc).__name__}: {rj.exc}",
                               "reproduce": f"VERIF_SEED={run.seed} bin/check C28 --tier {run.tier}  (case {idx})"}, True)
            rejected += 1
            continue
        st = struct(w, r)
        nm = f"c28_{idx}"
        lines = [f"(* {show(e)} *)", f"Definition {nm} : bexp :=\n  {qexp(w, e)}."]
        if w.numclass and not cyclic:
            # an operand reports too many arguments (known finding): everything downstream that looks at
            # arguments() (ZeroBaseForm arguments, function space checks) is polluted; not compared
            num_hits += 1
            texts.append(f"(* case {idx} skipped: inside the class of action-argument-numbering: {show(e)} *)\n")
            cases.append((w, e, r, "numclass", st, None))
            run.count_case(qexp(w, e), nontrivial=True)
            continue
        if cyclic:
            # the re-initialised object is shared by every alias: only the fact is compared
            lines += [f"(* real: {q(st)[:400]} *)",
                      f"Example {nm}_cyclic : cyc (build MODE {nm}) = true.", "Proof. vm_compute. reflexivity. Qed."]
        else:
            lines += [f"Example {nm}_struct : build MODE {nm} =\n  {q(st)}.", "Proof. vm_compute. reflexivity. Qed."]
        if cyclic:
            cyc_hits += 1
        else:
            lines += [f"Example {nm}_safe : safe MODE {nm} = true.", "Proof. vm_compute. reflexivity. Qed."]
            if nargs(r) is not None:
                if not has_zero(st):
                    ns = "; ".join(f"{a.number()}%nat" for a in r.arguments())
                    lines += [f"Example {nm}_nums : nums (build MODE {nm}) = [{ns}].", "Proof. vm_compute. reflexivity. Qed."]
                if not numbering_class(r):
                    lines += [f"Example {nm}_sig : sig (build MODE {nm}) = {qn(w.sig_of(r))}.",
                              "Proof. vm_compute. reflexivity. Qed."]
                    lines += [f"Example {nm}_rank : rank (build MODE {nm}) = {nargs(r)}%nat.",
                              "Proof. vm_compute. reflexivity. Qed."]
        mp = None
        if not cyclic and isinstance(r, ufl.form.BaseForm):
            try:
                mp = map_stream(w, r, st, random.Random(f"C28-map-{run.seed}-{idx}"))
            except Rejected as rj:
                if rejected < 2:
                    run.violation({"broken": "map_integrands raises on a base form it should map",
                                   "composition": show(e), "base_form": q(st), "killed (forms, leaves)": list(rj.e[1:]),
                                   "error": f"{type(rj.exc).__name__}: {rj.exc}",
                                   "reproduce": f"VERIF_SEED={run.seed} bin/check C28 --tier {run.tier}  (case {idx})"}, True)
                rejected += 1
        if mp is not None:
            KF, KX, st2 = mp
            lines += [f"(* map_integrands with base forms {KF} and leaves {KX} vanishing *)",
                      f"Example {nm}_map : mapK MODE {qn(KF)} {qn(KX)} (build MODE {nm}) =\n  {q(st2)}.",
                      "Proof. vm_compute. reflexivity. Qed.",
                      f"Example {nm}_msafe : msafe MODE {qn(KF)} {qn(KX)} (build MODE {nm}) = true.",
                      "Proof. vm_compute. reflexivity. Qed."]
            maps += 1
        texts.append("\n".join(lines) + "\n")
        cases.append((w, e, r, cyclic, st, mp))
        run.count_case(qexp(w, e), nontrivial=True)
        if idx < 5:
            run.sample({"case": idx, "composition": show(e), "real_result": q(st)[:300],
                        "arguments": None if cyclic else nargs(r)})
    per = 50 if run.tier == "quick" else 250
    files = []
    for i in range(0, len(texts), per):
        path = os.path.join(vlib.GEN, f"C28_cases_{i // per}.v")
        vlib.write_if_changed(path, COQ_HEADER + f"Definition MODE := {mode}.\n" + "\n".join(texts[i:i + per]))
        files.append(path)
    hand = []
    for rel in HAND_FILES:
        cp = os.path.join(vlib.GEN, "C28_hand_" + os.path.basename(rel))
        vlib.write_if_changed(cp, open(os.path.join(vlib.COQ, rel)).read())
        hand.append(cp)
    allres = vlib.coqc_many(hand + files, timeout=600)
    for r in allres:
        run.add_coq_result(r)
    if not allres[0].ok:
        run.violation({"broken": "hand-written Props/C28_model.v does not compile", "error": allres[0].err[-1500:]}, False)
    bad = [r for r in allres[len(hand):] if not r.ok]
    if bad:
        found = False
        for idx, (w, e, r, cyclic, st, mp) in enumerate(cases):
            if cyclic == "outside":
                run.violation({"broken": "a constructor returned an object that is its own operand (re-initialised "
                                         "instance) OUTSIDE the known-finding class",
                               "composition": show(e), "composition_gallina": qexp(w, e),
                               "reproduce": f"VERIF_SEED={run.seed} bin/check C28 --tier {run.tier}  (case {idx})"}, True)
                found = True
                break
            if cyclic:
                continue
            try:
                got = np.asarray(num_struct(w, st), dtype=object)
                want = np.asarray(num_exp(w, e), dtype=object)
                differs = got.shape != want.shape or bool(np.any(got != want))
                if differs and got.shape != want.shape and "FormL []" in q(st):
                    differs = tensors_differ(got, want)
            except Exception as ex:      # shapes that cannot even be contracted
                differs, got, want = True, repr(ex), None
            rank_bad = nargs(r) is not None and nargs(r) != spec_rank(w, e) and not numbering_class(r)
            if not differs and not rank_bad and mp is not None:
                KF, KX, st2 = mp
                try:
                    g2 = np.asarray(num_struct(w, st2), dtype=object)
                    w2 = np.asarray(num_struct(w, st, (KF, KX)), dtype=object)
                    mdiff = tensors_differ(g2, w2) if "FormL []" in q(st2) else (g2.shape != w2.shape or bool(np.any(g2 != w2)))
                except Exception as ex:
                    mdiff, g2, w2 = True, repr(ex), None
                if mdiff:
                    run.violation({"broken": "map_integrands does not preserve the multilinear map (killed leaves denote zero)",
                                   "composition": show(e), "base_form": q(st), "killed base forms": KF, "killed leaves": KX,
                                   "map_integrands_result": q(st2), "assembled_result": str(g2), "assembled_expected": str(w2),
                                   "leaf_tensors": {str(k): str(v.tolist()) for k, v in w.num.items()},
                                   "reproduce": f"VERIF_SEED={run.seed} bin/check C28 --tier {run.tier}  (case {idx})"}, True)
                    found = True
                    break
            if differs or rank_bad:
                run.violation({"broken": "the object built by the base-form constructors does not assemble to the "
                                         "multilinear map of the composition" if differs else
                                         "arguments() does not follow argument contraction",
                               "composition": show(e), "composition_gallina": qexp(w, e),
                               "real_result": q(st), "assembled_real": str(got), "assembled_expected": str(want),
                               "reported_arguments": nargs(r),
                               "expected_arguments": spec_rank(w, e),
                               "leaf_tensors": {str(k): str(v.tolist()) for k, v in w.num.items()},
                               "reproduce": f"VERIF_SEED={run.seed} bin/check C28 --tier {run.tier}  (case {idx})"}, True)
                found = True
                break
        if not found and not rejected:
            r0 = bad[0]
            run.violation({"broken_obligation": r0.failing_lemma(), "file": r0.path,
                           "coq_message": (r0.err or "")[-1500:],
                           "note": "real results assemble correctly on all generated cases (numeric oracle) but the "
                                   "structure built by the implementation differs from the model's"}, False)
    # known finding
    if any(k["id"] == "action-identity-reinit" for k in findings):
        ok, err, _ = known_replay()
        if ok:
            k = [k for k in findings if k["id"] == "action-identity-reinit"][0]
            run.known(f"{k['id']}: {k['what']} [witness replayed: Action(A, Coargument) returned A with A._left is A; "
                      f"A.arguments() -> {err}; {cyc_hits} generated compositions inside the class, the model "
                      f"predicts each of them (Examples *_struct with Cyclic)]")
    elif cyc_hits:
        run.violation({"broken": "Action.__new__ returned an Action that was then re-initialised with itself as operand",
                       "cases": cyc_hits}, True)
    if any(k["id"] == "action-argument-numbering" for k in findings):
        V = uflgen.space((), "triangle")
        Vd = V.dual()
        a1 = Action(Adjoint(Matrix(V, Vd)), Coefficient(V))
        a2 = Action(Action(Adjoint(Matrix(V, Vd)), Coefficient(V)), Matrix(V, Vd))
        sm = a1 + a2
        if len(a1.arguments()) == 1 and len(a2.arguments()) == 1 and len(sm.arguments()) == 2:
            k = [k for k in findings if k["id"] == "action-argument-numbering"][0]
            run.known(f"{k['id']}: {k['what']} [witness replayed: two 1-forms with arguments numbered "
                      f"{[a.number() for a in a1.arguments()]} and {[a.number() for a in a2.arguments()]}; their sum reports "
                      f"{len(sm.arguments())} arguments; {num_hits} generated compositions inside the class]")
    elif num_hits:
        run.violation({"broken": "a FormSum of k-argument components reports more than k arguments", "cases": num_hits}, True)
    run.extra["map_integrands_cases"] = maps
    run.extra["cyclic_cases"] = cyc_hits
    run.extra["numbering_class_cases"] = num_hits
    run.trusted.update([
        "Coq 8.16.1 kernel (coqc); vm_compute for the correspondence Examples",
        "py/props/C28.py: generator, mapping of real objects (types, weights, leaves) to the Gallina syntax",
        "the laws of the abstract multilinear-map algebra (hypotheses of the Section, listed in C28_model.v; "
        "instantiated at Z in C28_laws_consistent)",
        "integer FormSum weights; function spaces V and V* of one scalar Lagrange space (well-typed compositions only)",
    ])
    return run.finish(
        rule="one case per generated well-typed composition (depth <= 3/4) of Form[0-2 args], Matrix(V,V), Matrix(V,V*), "
             "Cofunction, Coefficient(+sum), Coargument, ZeroBaseForm, FormSum, +,-,neg,scalar*, Action, Adjoint; "
             "obligations: structure, safe-guard, number of arguments",
        assumptions=["laws A1-A3, S1-S4, C1-C3, C1'-C3', T1-T4, I1-I3 of the multilinear-map algebra",
                     "C28_build_partial: no Action call inside the re-initialisation class (decidable guard `safe`)"])
