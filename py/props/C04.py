"""C04 - diff() with respect to variables computes partial derivatives.

Specification: the partial derivative with respect to component cv of the value of v is the
derivation D_{v,cv} of the UFL algebra (same laws as for C02: C02_common.LAWS) that maps the value of
v to the unit tensor e_cv and every other terminal to 0 ("holding everything not expressed through
v fixed").  A Variable node is transparent for `den`, so the node labelled v is replaced by a fresh
terminal T (in f and in the result; py: subst_variable) and D(T_c) = [c = cv].

Tie T2, regenerated on every run: the REAL expand_derivatives(diff(f, v)) is traced for each rule x
kind of variable (variable of a coefficient / of an expression, scalar / vector / tensor,
coefficient itself, nested variables, repeated diff) and Coq proves for every component c ++ cv
    den(result[v:=T]) (c ++ cv) = D_{v,cv} (den(f[v:=T]) c)        for all field values,
plus shape(result) = shape f ++ shape v.  Hand-written: Props/C04_diff.v (model of VariableRuleset
on top of the C02 model; partial derivative = Gateaux model with a unit variation).
"""

import random

import ufl
import ufl.classes as C
from ufl import as_tensor, as_vector, conditional, diff, dot, grad, gt, inner, variable
from ufl.algorithms import expand_derivatives

import C02_common as K
import coqgen
import uflgen
import vlib
from props import C02 as P2

HAND_FILES = ["Props/C02_gateaux.v", "Props/C04_diff.v"]
PID = "C04"


def subst_variable(e, label, T, memo=None):
    """e with every Variable node carrying `label` replaced by the terminal T."""
    memo = {} if memo is None else memo
    k = id(e)
    if k in memo:
        return memo[k][1]
    if isinstance(e, C.Variable) and e.label() == label:
        r = T
    elif e._ufl_is_terminal_:
        r = e
    else:
        ops = [subst_variable(o, label, T, memo) for o in e.ufl_operands]
        r = e if all(a is b for a, b in zip(ops, e.ufl_operands)) else e._ufl_expr_reconstruct_(*ops)
    memo[k] = (e, r)
    return r


def unit(shape, cv):
    if shape == ():
        return ufl.as_ufl(1)

    def build(prefix, sh):
        if not sh:
            return 1 if prefix == tuple(cv) else 0
        return [build(prefix + (k,), sh[1:]) for k in range(sh[0])]
    return as_tensor(build((), tuple(shape)))


class Cfg:
    def __init__(self, name, f, vs, note=None, part2=None, spec=None):
        """vs: list of differentiation variables (Variable or Coefficient), applied in order
        (one or two).  part2 = (f2, v2, "sum"|"prod"): a second diff node in the SAME expression
        (scalar f, f2 and scalar variables), expanded in one expand_derivatives call."""
        self.name, self.f, self.vs = name, f, list(vs)
        self.part2 = part2
        # spec = (F', [T_1, ..]): f written independently of UFL's labels, with the terminal T_k in
        # place of the k-th differentiation variable (and of everything that is expressed through it);
        # the result is still mapped by label.  Used where the identity of a Variable is the point.
        self.spec = spec
        self.note = dict(note or {})
        self.out = None
        self.raised = None

    def run(self):
        try:
            d = self.f
            for v in self.vs:
                d = diff(d, v)
            if self.part2 is not None:
                f2, v2, mode = self.part2
                d = d + diff(f2, v2) if mode == "sum" else d * diff(f2, v2)
            self.out = expand_derivatives(d)
        except Exception as ex:  # noqa: BLE001
            self.raised = f"{type(ex).__name__}: {ex}"[:200]
        return self

    def prepared(self):
        """(F', out', [T_1, ..]) with variable nodes replaced by fresh terminals."""
        if self.spec is not None:
            F, Ts = self.spec
            out = self.out
            for v, T in zip(self.vs, Ts):
                out = subst_variable(out, v.label(), T)
            self.F2s = None
            return F, out, list(Ts)
        F, out, Ts = self.f, self.out, []
        F2 = self.part2[0] if self.part2 is not None else None
        done = {}
        for v in self.vs + ([self.part2[1]] if self.part2 is not None else []):
            if isinstance(v, C.Variable):
                key = v.label()
                if key not in done:
                    T = uflgen.coef(v.ufl_shape)
                    done[key] = T
                    F = subst_variable(F, key, T)
                    out = subst_variable(out, key, T)
                    if F2 is not None:
                        F2 = subst_variable(F2, key, T)
                Ts.append(done[key])
            else:
                Ts.append(v)
        self.F2s = F2
        return F, out, Ts

    def cases(self):
        F, out, Ts = self.prepared()
        rank = len(self.f.ufl_shape)
        res = []
        if self.part2 is not None:
            # node 1: d/dT1 (G), node 2: d/dT2 (H); scalar everything
            var1, var2 = {Ts[0]: unit((), ())}, {Ts[1]: unit((), ())}
            p2 = (self.F2s, var2, self.part2[2])
            cs = K.DCase(f"{self.name}_d", F, out, var1, nonzero=K.definedness(F) + K.definedness(self.F2s),
                         note=dict(self.note, f=str(self.f)[:140], f2=str(self.part2[0])[:140]),
                         spatial=True, extra_terms=Ts, part2=p2)
            cs.cfg = self
            cs.oracle_args = (F, out, var1, None, None)
            cs.oracle_part2 = p2
            self.shape_ok = tuple(self.out.ufl_shape) == ()
            return [cs]
        cvs = [K.comps_of(v.ufl_shape) for v in self.vs]
        import itertools
        for combo in itertools.product(*cvs):
            tag = "_".join("".join(map(str, cv)) or "s" for cv in combo)
            comps = [c + tuple(x for cv in combo for x in cv) for c in K.comps_of(self.f.ufl_shape)]
            var1 = {Ts[0]: unit(self.vs[0].ufl_shape, combo[0])}
            var2 = {Ts[1]: unit(self.vs[1].ufl_shape, combo[1])} if len(combo) > 1 else None
            cs = K.DCase(f"{self.name}_d{tag}", F, out, var1, variation2=var2, nonzero=K.definedness(F),
                         note=dict(self.note, f=str(self.f)[:140], cv=str(combo)), comps=comps,
                         prefix_rank=rank, spatial=True, extra_terms=Ts)
            cs.cfg = self
            cs.oracle_args = (F, out, var1, var2, rank)
            res.append(cs)
        # shape obligation (once per configuration)
        sh_expected = tuple(self.f.ufl_shape) + tuple(x for v in self.vs for x in v.ufl_shape)
        first = res[0]
        vshape = " ++ ".join(ufl_natlist(v.ufl_shape) for v in self.vs)
        first.extra_examples.append((
            f"{first.name}_shape_spec",
            f"Example {first.name}_shape_spec : shape {first.name}_out = shape {first.name}_F ++ {vshape}. "
            f"Proof. reflexivity. Qed.\n"))
        self.shape_ok = tuple(self.out.ufl_shape) == sh_expected
        return res


def ufl_natlist(t):
    import ufl2coq
    return ufl2coq.natlist(t)


def configurations(tier, seed):
    cfgs = []
    sc = uflgen.coef
    w, f, g = sc(()), sc(()), sc(())
    # A. scalar variable of a coefficient / of an expression: every rule ----------------------
    v = variable(w)
    for nm, F in P2.scalar_rule_exprs(v, f, g, tier):
        if nm in ("restr",):
            continue
        cfgs.append(Cfg(f"a_{nm}", F, [v], note={"variable": "variable(w), scalar", "rule": nm}))
    # the coefficient under the variable also occurs outside it: held fixed
    cfgs.append(Cfg("a_outside_coef", v * w + ufl.sin(w) * v * v, [v],
                    note={"variable": "variable(w), scalar", "rule": "bare w outside the variable"}))
    ve = variable(w * f + g)
    for nm, F in [("mul", ve * ve * w), ("sin", ufl.sin(ve) * f), ("div", f / ve), ("pow", ve ** w),
                  ("outside", ve * (w * f + g)), ("cond", conditional(gt(ve, f), ve * ve, w)),
                  ("sqrt", ufl.sqrt(ve * ve + f))]:
        cfgs.append(Cfg(f"b_{nm}", F, [ve], note={"variable": "variable(w*f+g), scalar", "rule": nm}))
    # B. the coefficient itself ---------------------------------------------------------------
    wv, hv = sc((2,)), sc((2,))
    for nm, F, x in [("mul", w * w * f, w), ("var_of_coef", variable(w) * w, w), ("sin", ufl.sin(w * f) / w, w),
                     ("vec", inner(wv, wv) * wv[0], wv), ("vecT", ufl.outer(wv, hv), wv),
                     ("gradconst", inner(grad(w), grad(w)) * w, w), ("indep", f * g, w)]:
        cfgs.append(Cfg(f"c_{nm}", F, [x], note={"variable": "Coefficient", "rule": nm}))
    # C. vector / tensor variables ---------------------------------------------------------------
    vv = variable(wv)
    i, j = ufl.indices(2)
    for nm, F in [("comp", vv[0] * vv[1] * vv[1]), ("inner", inner(vv, vv)), ("isum", vv[i] * hv[i] * vv[0]),
                  ("vecval", as_vector([vv[0] * vv[1], ufl.sin(vv[1])])), ("ct", as_vector(vv[i] * vv[i] * hv[j], j)),
                  ("outer", ufl.outer(vv, hv)), ("ident", vv), ("dotsin", ufl.sin(dot(vv, hv))),
                  # indexing a tensor whose derivative is not symmetric (component order of d/dv)
                  ("idx_lt", as_vector([vv[0] * vv[1], ufl.sin(vv[1])])[0] * vv[1]),
                  ("idx_ct", as_vector(vv[i] * vv[i] * hv[j] * vv[0], j)[1]),
                  ("idx_mat", dot(sc((2, 2)), vv)[0] * hv[1]), ("idx_free", as_vector([vv[0] * vv[1], vv[1]])[i] * hv[i])]:
        cfgs.append(Cfg(f"d_{nm}", F, [vv], note={"variable": "variable(w), vector (2,)", "rule": nm}))
    v3 = variable(sc((3,)))
    cfgs.append(Cfg("d_cross", ufl.cross(v3, sc((3,)))[0] * v3[2], [v3], note={"variable": "vector (3,)"}))
    vexp = variable(as_vector([w * f, g + w]))
    cfgs.append(Cfg("d_exprvec", vexp[0] * vexp[1] + w, [vexp], note={"variable": "variable(as_vector([w*f, g+w]))"}))
    wt = sc((2, 2))
    vt = variable(wt)
    for nm, F in [("det", vt[0, 0] * vt[1, 1] - vt[0, 1] * vt[1, 0]), ("inner", inner(vt, vt)),
                  ("tr", ufl.tr(vt) * vt[0, 1]), ("matvec", dot(vt, hv)), ("ident", vt)]:
        cfgs.append(Cfg(f"e_{nm}", F, [vt], note={"variable": "variable(w), tensor (2,2)", "rule": nm}))
    w23 = variable(sc((2, 3)))
    cfgs.append(Cfg("e_rect", w23[0, 2] * w23[1, 0] + w23[1, 2], [w23], note={"variable": "tensor (2,3)"}))
    cfgs.append(Cfg("e_rect_id", w23, [w23], note={"variable": "tensor (2,3)", "rule": "identity"}))
    # D. nested variables -------------------------------------------------------------------------
    v1 = variable(w)
    v2 = variable(v1 * v1 + f)
    v3n = variable(ufl.sin(v2) * v1)
    for nm, F in [("mul", v2 * v1), ("sin", ufl.sin(v2) + v1 * v1), ("deep", v3n * v2 + v1)]:
        cfgs.append(Cfg(f"f_{nm}_wrt1", F, [v1], note={"nested": "v2 = variable(v1*v1+f); wrt v1", "rule": nm}))
        cfgs.append(Cfg(f"f_{nm}_wrt2", F, [v2], note={"nested": "v2 = variable(v1*v1+f); wrt v2", "rule": nm}))
    cfgs.append(Cfg("f_deep_wrt3", v3n * v2 + v1, [v3n], note={"nested": "wrt v3 = variable(sin(v2)*v1)"}))
    vn = variable(vv[0] * vv[1])
    cfgs.append(Cfg("f_vecnest", vn * vv[1] + vn * vn, [vv], note={"nested": "scalar variable of a vector variable"}))
    # E. repeated diff ----------------------------------------------------------------------------
    for nm, F in [("cube", v ** 3 * f), ("sin", ufl.sin(v * f)), ("div", f / v), ("exp", ufl.exp(v * v))]:
        cfgs.append(Cfg(f"g_{nm}", F, [v, v], note={"repeated": "diff(diff(f, v), v)", "rule": nm}))
    # v2 is expressed through v1: diff w.r.t. v1 differentiates through v2 (total derivative), so the
    # mixed derivative is checked as two single steps on the real intermediate result
    d1 = expand_derivatives(diff(v2 * v2 * v1, v1))
    cfgs.append(Cfg("g_mixed_step2", d1, [v2], note={"repeated": "diff(expand(diff(f, v1)), v2), v2 = variable(v1*v1+f)"}))
    vu = variable(f)
    cfgs.append(Cfg("g_indep", vu * vu * v1 * v1 + ufl.sin(vu * v1), [v1, vu],
                    note={"repeated": "diff(diff(f, v1), u), independent variables"}))
    cfgs.append(Cfg("g_vec", inner(vv, vv) * vv[0], [vv, vv], note={"repeated": "vector variable twice"}))
    # G. variables wrapping expressions that expand_derivatives itself rewrites (derivatives of
    #    non-terminals inside the variable): the variable must still be recognised by its label
    vg = variable(grad(w * w))
    vdx = variable((w * w * f).dx(0))
    vdiv = variable(ufl.div(wv * f))
    vlap = variable(ufl.div(grad(w * w)))
    vgv = variable(grad(wv * f))
    vd = variable(diff(v * v * f, v))
    for nm, F, x in [("grad_dot", dot(vg, vg), vg), ("grad_comp", vg[0] * f + vg[1] * vg[1] * w, vg),
                     ("dx_sq", vdx * vdx * f, vdx), ("dx_sin", ufl.sin(vdx) * w, vdx), ("div_sq", vdiv ** 2 * f, vdiv),
                     ("lap", vlap * vlap + vlap * w, vlap), ("gradvec", inner(vgv, vgv) + vgv[0, 1] * vgv[1, 0], vgv),
                     ("of_diff", vd * vd * w, vd), ("nested_in", variable(vdx * vdx + f) * vdx, vdx),
                     ("ident", vg, vg)]:
        cfgs.append(Cfg(f"h_{nm}", F, [x], note={"variable": "wraps a derivative of a non-terminal", "rule": nm}))
    cfgs.append(Cfg("h_twice", vdx ** 3 * f, [vdx, vdx], note={"variable": "wraps (w*w*f).dx(0)", "repeated": True}))
    # J. the identity of variables: variable(e) is a NEW differentiation variable every time it is
    #    called -- also when e is itself a variable or an expression that already has a variable.
    #    The specification side is written with explicit terminals, not recovered from labels.
    def fresh(shape=()):
        return sc(shape)
    va1 = variable(w)
    va2 = variable(va1)                      # variable of a variable
    va3 = variable(va2)
    T = fresh()
    cfgs.append(Cfg("j_varvar_outer", va2 ** 2 + 3 * va1, [va2], spec=(T ** 2 + 3 * va1, [T]),
                    note={"identity": "v2 = variable(v1); diff w.r.t. v2 holds bare v1 fixed"}))
    T = fresh()
    cfgs.append(Cfg("j_varvar_inner", va2 ** 2 + 3 * va1, [va1], spec=(T ** 2 + 3 * T, [T]),
                    note={"identity": "v2 = variable(v1); diff w.r.t. v1 goes through v2"}))
    T = fresh()
    cfgs.append(Cfg("j_varvarvar_mid", va3 * va2 * va1 + ufl.sin(va3), [va2], spec=(T * T * va1 + ufl.sin(T), [T]),
                    note={"identity": "v3 = variable(v2 = variable(v1)); diff w.r.t. v2"}))
    T = fresh()
    cfgs.append(Cfg("j_varvarvar_outer", va3 * va2 * va1 + ufl.sin(va3), [va3], spec=(T * va2 * va1 + ufl.sin(T), [T]),
                    note={"identity": "v3 = variable(v2 = variable(v1)); diff w.r.t. v3"}))
    wa1 = variable(wv)
    wa2 = variable(wa1)
    T = fresh((2,))
    cfgs.append(Cfg("j_varvar_vec", dot(wa2, wa2) + wa1[0] * wa2[1], [wa2], spec=(dot(T, T) + wa1[0] * T[1], [T]),
                    note={"identity": "vector: w2 = variable(w1)"}))
    e0 = w * f + g
    vb1, vb2 = variable(e0), variable(e0)     # two variables of the same expression
    T = fresh()
    cfgs.append(Cfg("j_same_expr_twice", vb1 * vb2 * vb2 + vb1 * e0, [vb1], spec=(T * vb2 * vb2 + T * e0, [T]),
                    note={"identity": "two variables of the same expression are different variables"}))
    T = fresh()
    vc1 = variable(w)
    vc2 = variable(w)
    cfgs.append(Cfg("j_same_coef_twice", vc1 * vc2 + vc2 * vc2 * w, [vc2], spec=(vc1 * T + T * T * w, [T]),
                    note={"identity": "two variables of the same coefficient"}))
    T1, T2 = fresh(), fresh()
    cfgs.append(Cfg("j_varvar_mixed", va2 * va2 * va1 * f, [va2, va2], spec=(T1 * T1 * va1 * f, [T1, T1]),
                    note={"identity": "repeated diff w.r.t. the outer variable of a variable"}))
    # H. several diff nodes expanded in ONE call (shared dispatcher / ruleset caches) ----------------
    vq = variable(w)          # a second variable of the same coefficient (different label)
    for nm, f1, x1, f2, x2 in [("two_vars", v * v * f, v, ve * ve * g, ve), ("same_expr", v * vq * vq, v, v * vq * vq, vq),
                               ("same_var", v * v * f, v, ufl.sin(v) * g, v), ("var_coef", v * f * f + v * v, v, g * w * w * f, w),
                               ("wrapped", vdx * vdx * v, vdx, vdx * vdx * v, v)]:
        for mode in ("sum", "prod"):
            cfgs.append(Cfg(f"i_{nm}_{mode}", f1, [x1], part2=(f2, x2, mode),
                            note={"two diff nodes in one expression": mode, "pair": nm}))
    # F. generated nested expressions -------------------------------------------------------------
    rng = random.Random(2000 + seed)
    nrand = 8 if tier == "quick" else 30
    for k in range(nrand):
        if rng.random() < 0.5:
            F = P2.gen_scalar(rng, 3, {"w": None, "f": f, "g": g, "vec": vv, "vec2": hv, "gvec": hv})
            cfgs.append(Cfg(f"k{k}_v", F, [vv], note={"generated": True, "variable": "vector"}))
        else:
            T = {"w": None, "f": ve, "g": g, "vec": wv, "vec2": hv}
            F = P2.gen_scalar(rng, 3, T)
            cfgs.append(Cfg(f"k{k}_s", F, [ve], note={"generated": True, "variable": "variable(w*f+g)"}))
    return cfgs


def main(run):
    cfgs = [c.run() for c in configurations(run.tier, run.seed)]
    cases = []
    for c in cfgs:
        run.count_case((c.name, str(c.f)))
        if c.raised is not None:
            # C04 has no "or raises" clause: an input on which diff raises is a failing input
            run.violation({"broken": "expand_derivatives(diff(f, v)) raised for a valid input", "case": c.name,
                           "f": str(c.f), "f_repr": repr(c.f)[:1500], "variables": [str(v) for v in c.vs],
                           "exception": c.raised, "note": c.note,
                           "reproduce": "expand_derivatives(diff(f, v)) with f, v as above (py/props/C04.py "
                                        f"configurations(), case {c.name})"}, True)
            continue
        try:
            cs = c.cases()
        except Exception as ex:  # noqa: BLE001
            run.violation({"broken": "cannot serialise the traced derivative (tie not established)",
                           "case": c.name, "f": str(c.f), "out": str(c.out)[:500], "error": repr(ex)[:300]}, False)
            continue
        if not c.shape_ok:
            run.violation({"broken": "shape(diff f v) != shape f ++ shape v", "case": c.name, "f": str(c.f),
                           "shape_f": c.f.ufl_shape, "shape_v": [v.ufl_shape for v in c.vs],
                           "shape_result": c.out.ufl_shape}, True)
        cases.extend(cs)
    for c in cfgs[:8]:
        if c.out is not None:
            run.sample({"case": c.name, "f": str(c.f)[:120], "diff": str(c.out)[:200]})
    failing = coqgen.emit_and_check(run, PID, cases, extra_header=K.LAWS, timeout=600)
    for hf in HAND_FILES[1:]:
        hand = vlib.coqc(hf)
        run.add_coq_result(hand)
        if not hand.ok:
            run.violation({"broken": "hand-written theorem file does not check", "file": hand.path,
                           "error": (hand.err or "")[-1500:]}, False)
    seen = set()
    for case, lemma, msg in failing:
        if case is None:
            run.violation({"broken": "generated obligations file does not compile", "message": msg}, False)
            continue
        if case.cfg.name in seen:
            continue
        seen.add(case.cfg.name)
        c = case.cfg
        F, out, var1, var2, rank = case.oracle_args
        w = None
        for other in [case] + [x for x in cases if x.cfg is c and x is not case]:
            F, out, var1, var2, rank = other.oracle_args
            w = K.derivative_oracle(F, out, var1, trials=30 if run.tier == "quick" else 200, seed=run.seed,
                                    prefix_rank=rank, variation2=var2, part2=getattr(other, "oracle_part2", None))
            if w:
                # restrict to the components of this unit direction
                w["unit_direction"] = other.note.get("cv")
                break
        rep = {"broken_obligation": lemma, "case": c.name, "note": c.note, "coq_message": msg,
               "f": str(c.f), "variables": [str(v) for v in c.vs], "implementation_result": str(c.out)[:2000],
               "reproduce": "expand_derivatives(diff(f, v)) ; bin/check C04"}
        if w:
            rep["witness"] = w
        run.violation(rep, bool(w))
    run.trusted.update([
        "Coq 8.16.1 kernel (coqc); vm_compute used for normalisation, no native_compute",
        "py/ufl2coq.py serializer (node-for-node, fail-closed)",
        "den of coq/Core/Den.v as the meaning of expressions; a Variable node denotes its expression",
        "py/props/C04.py subst_variable: replaces the Variable nodes labelled v by a fresh terminal in f and "
        "in the result (the partial derivative is taken with respect to that terminal)",
        "specification = derivation laws of C02_common.LAWS as Section hypotheses",
        "algebra lowering of compound operators is part of the traced pipeline (C06)",
    ])
    return run.finish(
        rule="one case per (rule, kind of variable, unit direction cv); every component c++cv of the result is "
             "one obligation den(result) (c++cv) = D_cv(den f c) proved for all field values; plus shape "
             "obligations; distinct = distinct (name, f)",
        assumptions=["D is a derivation obeying the chain-rule laws and commuting with Dx/DX",
                     "characteristic zero; denominators of the differentiation laws non-zero",
                     "conditions of conditionals are not differentiated"])
