"""C07 - Geometry lowering computes the geometric quantities of the actual cell.

Tie T2: the real `apply_geometry_lowering` is run on every geometric quantity type handled by
GeometryLoweringApplier, for every affine simplex configuration (cell x gdim x facet/ridge); the
lowered DAG is serialised node for node and Coq proves, for ALL vertex positions (and all points of
the cell), in every UFL algebra in which re/conj are the identity, that its denotation equals the
quantity defined directly from the vertex coordinates in coq/Props/C07_spec.v.  The terminals that
remain after lowering (J = reference_grad(x), x, x0, CellFacetJacobian, CellRidgeJacobian,
Cell/FacetEdgeVectors, ReferenceNormal, reference volumes, CellOrientation) are read through the
predicate `interp` of C07_spec.v, which states the (trusted) reference-cell convention table.
coq/Props/C07_thms.v, C07_crelle.v, C07_normals.v prove that the vertex-level definitions are the
geometric ones (circumcentre equidistance for triangles and, via Crelle's identity, tetrahedra;
normals orthogonal + outward + unit; Gram determinants; inverse laws)."""

import concurrent.futures as cf
import hashlib
import os
import warnings

import ufl
import ufl.classes as C
from ufl.algorithms.apply_geometry_lowering import apply_geometry_lowering
from ufl.core.multiindex import indices
from ufl.corealg.traversal import unique_pre_traversal
from ufl.tensors import as_tensor

import C07_oracle
import coqgen
import ufl2coq
import uflgen
import vlib

HAND_FILES = ["Props/C07_spec.v", "Props/C07_thms.v", "Props/C07_crelle.v", "Props/C07_normals.v"]

CELLS = [("interval", 1), ("triangle", 2), ("tetrahedron", 3)]

EXPECTED_KINDS = {"SpatialCoordinate": 10, "CellOrigin": 14, "CellFacetJacobian": 22, "CellRidgeJacobian": 23,
                  "CellEdgeVectors": 28, "FacetEdgeVectors": 29, "ReferenceNormal": 42,
                  "ReferenceCellVolume": 43, "ReferenceFacetVolume": 44, "CellOrientation": 54}
ALLOWED_TERMINALS = set(EXPECTED_KINDS)

EXTRA_HEADER = r'''
(* the cell: vertices V k i, evaluation point Xr, orientation co, diagonal reference normal rd *)
Variable V : nat -> nat -> KT.
Variable Xr : nat -> KT.
Variables co rd : KT.
Definition gInterp := @interp A V Xr co rd env DX.
Definition gJm := @Jm A V.
Definition gdetJ := @detJ A V co.
Definition gKinv := @Kinv A V.
Definition gvol := @vol A V co.
Definition gFJm := @FJm A V.
Definition gfdetJ := @fdetJ A V.
Definition gfarea := @farea A V.
Definition gcirc := @circ A V co.
Definition gcell_edge_ext := @cell_edge_ext A V co.
Definition gfacet_edge_ext := @facet_edge_ext A V.
Definition gcnormal := @cnormal A V co.
Definition gfnormal := @fnormal A V rd.
Definition gndir := @ndir A V rd.
Definition gevec := @evec A V.
Definition gxphys := @xphys A V Xr.
Definition gpinv := @pinv A.
Definition gpdet := @pdet A.
Definition gdelta := @delta A.
Definition gnrm2 := @nrm2 A.
Definition gsqrt := @ksqrt A.
Definition gc1 (f : nat -> KT) (c : list nat) : KT := match c with [i] => f i | _ => z0 end.
Definition gc2 (f : nat -> nat -> KT) (c : list nat) : KT := match c with [i; j] => f i j | _ => z0 end.

Ltac norm_any H :=
  let t := type of H in let t' := eval vm_compute in t in change t' in H.
(* Uninterpreted symbols (sqrt, abs, min, max) are handled innermost-first: an application whose
   arguments contain no further such symbol is a "leaf"; all leaves with ring/field-equal arguments
   are made syntactically equal and then abstracted to a fresh variable, so that ring/field only
   ever see small polynomials. *)
Ltac is_leaf X :=
  lazymatch X with
  | context [fn _ _] => fail
  | context [abs _] => fail
  | context [min_ _ _] => fail
  | context [max_ _ _] => fail
  | _ => idtac
  end.
Ltac merge_fn f X :=
  repeat match goal with
  | |- context [fn f ?Y] =>
      lazymatch Y with X => fail | _ => idtac end; is_leaf Y;
      replace (fn f Y) with (fn f X) by (f_equal; arg_eq Y X)
  end.
Ltac merge_abs X :=
  repeat match goal with
  | |- context [abs ?Y] =>
      lazymatch Y with X => fail | _ => idtac end; is_leaf Y;
      replace (abs Y) with (abs X) by (f_equal; arg_eq Y X)
  end.
Ltac merge_min X1 X2 :=
  repeat match goal with
  | |- context [min_ ?Y1 ?Y2] =>
      lazymatch constr:((Y1, Y2)) with (X1, X2) => fail | _ => idtac end; is_leaf Y1; is_leaf Y2;
      replace (min_ Y1 Y2) with (min_ X1 X2) by (f_equal; [arg_eq Y1 X1 | arg_eq Y2 X2])
  end.
Ltac merge_max X1 X2 :=
  repeat match goal with
  | |- context [max_ ?Y1 ?Y2] =>
      lazymatch constr:((Y1, Y2)) with (X1, X2) => fail | _ => idtac end; is_leaf Y1; is_leaf Y2;
      replace (max_ Y1 Y2) with (max_ X1 X2) by (f_equal; [arg_eq Y1 X1 | arg_eq Y2 X2])
  end.
Ltac abs_step :=
  match goal with
  | |- context [fn ?f ?X] => is_leaf X; merge_fn f X; let a := fresh "a" in set (a := fn f X); clearbody a
  | |- context [abs ?X] => is_leaf X; merge_abs X; let a := fresh "a" in set (a := abs X); clearbody a
  | |- context [min_ ?X1 ?X2] => is_leaf X1; is_leaf X2; merge_min X1 X2;
                                 let a := fresh "a" in set (a := min_ X1 X2); clearbody a
  | |- context [max_ ?X1 ?X2] => is_leaf X1; is_leaf X2; merge_max X1 X2;
                                 let a := fresh "a" in set (a := max_ X1 X2); clearbody a
  end.
Ltac c07_abstract := repeat abs_step.
(* H0 : interp, H1 : re = id, H2 : conj = id; further hypotheses are non-degeneracy facts *)
Ltac c07_pre H0 H1 H2 :=
  norm_goal;
  destruct H0 as [HJ Hx Hx0 Hcfj Hcrj Hcev Hfev Hrn Hrcv Hrfv Hco];
  repeat rewrite HJ; repeat rewrite Hx; repeat rewrite Hx0; repeat rewrite Hcfj; repeat rewrite Hcrj;
  repeat rewrite Hcev; repeat rewrite Hfev; repeat rewrite Hrn; repeat rewrite Hrcv;
  repeat rewrite Hrfv; repeat rewrite Hco;
  repeat rewrite H1; repeat rewrite H2;
  norm_goal.
Ltac c07_fin := first [ reflexivity | ring | field; nz_solve char0 ].
(* Jacobian entries v_(j+1) - v_0 as single atoms: halves the polynomials whenever the goal depends on
   the vertices only through J (tried first; the plain proof is the fallback) *)
Ltac absJ :=
  repeat match goal with
  | |- context [sub (V (S ?j) ?i) (V 0 ?i)] =>
      let a := fresh "jj" in set (a := sub (V (S j) i) (V 0 i)) in *; clearbody a
  end.
'''

def interp_hyp(t, g, f=0, r=0):
    return f"gInterp {t} {g} {f} {r}"


REAL_HYPS = ["forall x, re x = x", "forall x, conj x = x"]


LOWERING_ERRORS = []


def lower(o):
    """apply_geometry_lowering on a bare quantity of a P1 simplex mesh.  Raising (or warning: "not lowered")
    on such an input is itself a failure of the property on that input: recorded, None returned."""
    try:
        with warnings.catch_warnings():
            warnings.simplefilter("error")
            return apply_geometry_lowering(o)
    except Exception as ex:      # noqa: BLE001
        from ufl.domain import extract_domains
        dom = extract_domains(o)[0] if not isinstance(o, ufl.Form) else o.ufl_domains()[0]
        LOWERING_ERRORS.append({"quantity": str(o)[:300], "type": type(o).__name__,
                                "cell": dom.ufl_cell().cellname, "gdim": dom.geometric_dimension,
                                "exception": f"{type(ex).__name__}: {ex}"[:500]})
        return None


def terminals_of(e):
    return {type(x).__name__ for x in unique_pre_traversal(e)
            if x._ufl_is_terminal_ and isinstance(x, C.GeometricQuantity)}


def nd_hyps(t, g, *more):
    """non-degeneracy: det J (or its Gram determinant) and the volume are non-zero"""
    h = [f"gdetJ {t} {g} <> z0" if t == g else f"DET {t} (GRAM {g} gJm) <> z0"]
    return h + list(more)


def build_cases(tier):
    cases = []

    def add(name, out, spec, t, g, f=0, r=0, nd=(), note=None, comps=None):
        if out is None:
            return
        bad = terminals_of(out) - ALLOWED_TERMINALS
        if bad:
            raise ufl2coq.Unsupported(f"{name}: lowered expression keeps unexpected terminals {sorted(bad)}")
        hyps = [interp_hyp(t, g, f, r)] + REAL_HYPS + list(nd)
        gen = ("generalize " + " ".join(f"H{k}" for k in range(3, len(hyps))) + "; ") if len(hyps) > 3 else ""
        tactic = (f"c07_pre H0 H1 H2; first [ reflexivity | ring | solve [ absJ; {gen}c07_abstract; intros; c07_fin ] "
                  f"| {gen}c07_abstract; intros; c07_fin ]")
        cases.append(coqgen.Case(name, out=out, spec=spec, hyps=hyps, tactic=tactic,
                                 comps=comps, note=dict(note or {}, tdim=t, gdim=g, facet=f, ridge=r)))

    for cell, t in CELLS:
        for g in range(t, 4):
            m = uflgen.mesh(cell, g)
            cg = f"{cell[:3]}{g}"
            nf = t + 1
            nd = nd_hyps(t, g)
            J = lower(C.Jacobian(m))
            K = lower(C.JacobianInverse(m))
            add(f"J_{cg}", J, "gc2 gJm {c}", t, g, note={"q": "Jacobian"})
            add(f"K_{cg}", K, f"gc2 (gKinv {t} {g}) {{c}}", t, g, nd=nd, note={"q": "JacobianInverse"})
            i, j, k = indices(3)
            if J is not None and K is not None:
                add(f"KJ_{cg}", as_tensor(K[i, k] * J[k, j], (i, j)), "gc2 gdelta {c}", t, g, nd=nd,
                    note={"q": "JacobianInverse * Jacobian = I"})
            if t == g and J is not None and K is not None:
                i, j, k = indices(3)
                add(f"JK_{cg}", as_tensor(J[i, k] * K[k, j], (i, j)), "gc2 gdelta {c}", t, g, nd=nd,
                    note={"q": "Jacobian * JacobianInverse = I"})
            add(f"detJ_{cg}", lower(C.JacobianDeterminant(m)), f"gdetJ {t} {g}", t, g,
                note={"q": "JacobianDeterminant"})
            x = C.SpatialCoordinate(m)
            add(f"x_{cg}", lower(x), f"gc1 (gxphys {t}) {{c}}", t, g, note={"q": "SpatialCoordinate"})
            add(f"X_{cg}", lower(C.CellCoordinate(m)), "gc1 Xr {c}", t, g, nd=nd, note={"q": "CellCoordinate"})
            add(f"vol_{cg}", lower(C.CellVolume(m)), f"gvol {t} {g}", t, g, note={"q": "CellVolume"})
            ndv = nd + [f"gvol {t} {g} <> z0"]
            add(f"circ_{cg}", lower(C.Circumradius(m)), f"gcirc {t} {g}", t, g, nd=ndv,
                note={"q": "Circumradius"})
            add(f"diam_{cg}", lower(C.CellDiameter(m)), f"gcell_edge_ext max_ {t} {g}", t, g,
                note={"q": "CellDiameter"})
            add(f"minedge_{cg}", lower(C.MinCellEdgeLength(m)), f"gcell_edge_ext min_ {t} {g}", t, g,
                note={"q": "MinCellEdgeLength"})
            add(f"maxedge_{cg}", lower(C.MaxCellEdgeLength(m)), f"gcell_edge_ext max_ {t} {g}", t, g,
                note={"q": "MaxCellEdgeLength"})
            if g == t + 1:
                add(f"cnormal_{cg}", lower(C.CellNormal(m)), f"gc1 (gcnormal {g}) {{c}}", t, g,
                    nd=[f"gsqrt (gnrm2 {g} (@cnraw A V {g})) <> z0"], note={"q": "CellNormal"})
            # facet quantities, one case per facet
            for f in range(nf):
                cf = f"{cg}_f{f}"
                add(f"farea_{cf}", lower(C.FacetArea(m)), f"gfarea {t} {g} {f}", t, g, f, note={"q": "FacetArea"})
                if t == 1:
                    ndn = [f"gJm 0 0 <> z0", "abs (gJm 0 0) <> z0"] if g == 1 else \
                          [f"gsqrt (gnrm2 {g} (fun k => gJm k 0)) <> z0"]
                else:
                    ndn = nd + [f"gsqrt (gnrm2 {g} (gndir {t} {g} {f})) <> z0"]
                add(f"fnormal_{cf}", lower(C.FacetNormal(m)), f"gc1 (gfnormal {t} {g} {f}) {{c}}", t, g, f,
                    nd=ndn, note={"q": "FacetNormal"})
                if t >= 2:
                    FJ = lower(C.FacetJacobian(m))
                    FK = lower(C.FacetJacobianInverse(m))
                    ndf = [f"DET {t - 1} (GRAM {g} (gFJm {f})) <> z0"]
                    add(f"FJ_{cf}", FJ, f"gc2 (gFJm {f}) {{c}}", t, g, f, note={"q": "FacetJacobian"})
                    add(f"FK_{cf}", FK, f"gc2 (gpinv {g} {t - 1} (gFJm {f})) {{c}}", t, g, f, nd=ndf,
                        note={"q": "FacetJacobianInverse"})
                    if (t < 3 or tier == "thorough") and FJ is not None and FK is not None:
                        i, j, k = indices(3)
                        add(f"FKFJ_{cf}", as_tensor(FK[i, k] * FJ[k, j], (i, j)), "gc2 gdelta {c}", t, g, f, nd=ndf,
                            note={"q": "FacetJacobianInverse * FacetJacobian = I"})
                    add(f"detFJ_{cf}", lower(C.FacetJacobianDeterminant(m)), f"gfdetJ {t} {g} {f}", t, g, f,
                        note={"q": "FacetJacobianDeterminant"})
                    fc = C.FacetCoordinate(m)
                    if lower(fc) != fc:
                        raise ufl2coq.Unsupported("FacetCoordinate is expected to stay a terminal")
                if t == 3:
                    add(f"minfedge_{cf}", lower(C.MinFacetEdgeLength(m)), f"gfacet_edge_ext min_ {g} {f}", t, g, f,
                        note={"q": "MinFacetEdgeLength"})
                    add(f"maxfedge_{cf}", lower(C.MaxFacetEdgeLength(m)), f"gfacet_edge_ext max_ {g} {f}", t, g, f,
                        note={"q": "MaxFacetEdgeLength"})
            if tier == "thorough" and t >= 2:
                # the same quantities below a restriction: the lowering must commute with it
                for q, spec, ndq in (("FacetNormal", f"gc1 (gfnormal {t} {g} 1) {{c}}",
                                      nd + [f"gsqrt (gnrm2 {g} (gndir {t} {g} 1)) <> z0"]),
                                     ("CellVolume", f"gvol {t} {g}", []),
                                     ("FacetArea", f"gfarea {t} {g} 1", [])):
                    for sgn in "+-":
                        add(f"R{'p' if sgn == '+' else 'm'}_{q}_{cg}", lower(getattr(C, q)(m)(sgn)), spec, t, g, 1,
                            nd=ndq, note={"q": q, "restricted": sgn})
            if t == 3:
                for r in range(6):
                    cr = f"{cg}_r{r}"
                    RJ = lower(C.RidgeJacobian(m))
                    RK = lower(C.RidgeJacobianInverse(m))
                    ndr = [f"gnrm2 {g} (gevec 3 {r}) <> z0"]
                    add(f"RJ_{cr}", RJ, f"gc2 (fun i _ => gevec 3 {r} i) {{c}}", t, g, 0, r, note={"q": "RidgeJacobian"})
                    add(f"RK_{cr}", RK, f"gc2 (gpinv {g} 1 (fun i _ => gevec 3 {r} i)) {{c}}", t, g, 0, r, nd=ndr,
                        note={"q": "RidgeJacobianInverse"})
                    add(f"detRJ_{cr}", lower(C.RidgeJacobianDeterminant(m)),
                        f"gsqrt (gnrm2 {g} (gevec 3 {r}))", t, g, 0, r, note={"q": "RidgeJacobianDeterminant"})
    return cases



# joint and one-at-a-time lowering build the same tree up to index names, so the normal forms coincide;
# ring (bounded) is only a fallback for reordered sums, and a mismatch fails fast
COMBINED_TACTIC = "norm_goal; first [ reflexivity | timeout 20 ring ]"


def cell_quantities(t, g):
    """names of the geometric quantity types lowered for a t-simplex in R^g (in this fixed order)"""
    q = ["Jacobian", "JacobianInverse", "JacobianDeterminant", "SpatialCoordinate", "CellCoordinate", "CellVolume",
         "Circumradius", "CellDiameter", "MinCellEdgeLength", "MaxCellEdgeLength"]
    if g == t + 1:
        q.append("CellNormal")
    q += ["FacetArea", "FacetNormal"]
    if t >= 2:
        q += ["FacetJacobian", "FacetJacobianInverse", "FacetJacobianDeterminant"]
    if t == 3:
        q += ["MinFacetEdgeLength", "MaxFacetEdgeLength", "RidgeJacobian", "RidgeJacobianInverse",
              "RidgeJacobianDeterminant"]
    return q


def build_combined(tier, seed):
    """Context independence: several quantities of ONE domain lowered in ONE apply_geometry_lowering call
    (one GeometryLoweringApplier, one memo cache, one DAG traversal), in different orders, as an expression
    and inside a Form, must give component for component the value of the quantities lowered one at a time
    (which the single-quantity cases tie to the vertices).  No hypothesis: proved for every environment."""
    import itertools
    import random
    cases = []
    for cell, t in CELLS:
        for g in range(t, 4):
            m = uflgen.mesh(cell, g)
            cg = f"{cell[:3]}{g}"
            atoms = []          # (quantity name, component, bare scalar expression, individually lowered scalar)
            for qn in cell_quantities(t, g):
                q = getattr(C, qn)(m)
                lq = lower(q)
                if lq is None:
                    continue
                for c in itertools.product(*[range(d) for d in q.ufl_shape]):
                    atoms.append((qn, c, q[c] if c else q, lq[c] if c else lq))
            orders = {"fwd": list(atoms), "rev": list(reversed(atoms))}
            rng = random.Random(1000 * seed + 7 * t + g)
            for k in range(2 if tier == "thorough" else 0):
                sh = list(atoms)
                rng.shuffle(sh)
                orders[f"shuf{k}"] = sh
            for on, lst in orders.items():
                low = lower(ufl.as_vector([a[2] for a in lst]))
                if low is None:
                    continue
                exp = ufl.as_vector([a[3] for a in lst])
                cases.append(coqgen.Case(
                    f"combo_{cg}_{on}", out=low, inp=exp, tactic=COMBINED_TACTIC,
                    note={"q": "combined", "tdim": t, "gdim": g, "facet": 0, "ridge": 0, "order": on,
                          "atoms": [[a[0], list(a[1])] for a in lst]}))
            # Form / Integral level: one integrand that mentions every quantity, weighted by distinct literals
            fat = [a for a in atoms if a[0] != "CellCoordinate"]      # preserved inside integrals
            for mn, meas in (("ds", ufl.Measure("ds", domain=m)), ("dx", ufl.Measure("dx", domain=m))):
                integrand = sum((k + 2) * a[2] for k, a in enumerate(fat))
                lf = lower(integrand * meas)
                if lf is None:
                    continue
                exp = sum((k + 2) * a[3] for k, a in enumerate(fat))
                cases.append(coqgen.Case(
                    f"form_{cg}_{mn}", out=lf.integrals()[0].integrand(), inp=exp, tactic=COMBINED_TACTIC,
                    note={"q": "combined-form", "tdim": t, "gdim": g, "facet": 0, "ridge": 0, "measure": mn,
                          "atoms": [[a[0], list(a[1])] for a in fat], "weights": [k + 2 for k in range(len(fat))]}))
    return cases


def hand_result(rel, tier):
    """Compile a hand-written file (its theorems do not depend on /repo).  check.py's ensure_core has
    already rebuilt it if it was stale; in the quick tier the output (Print Assumptions) of the last
    successful compilation of exactly this source is reused instead of compiling it a second time."""
    path = os.path.join(vlib.COQ, rel)
    h = hashlib.sha1()
    for q in [os.path.join(vlib.COQ, x) for x in vlib.CORE_FILES + [HAND_FILES[0]]] + [path]:
        h.update(open(q, "rb").read())
    cache = os.path.join(vlib.GEN, f"C07_hand_{os.path.basename(rel)[:-2]}_{h.hexdigest()[:16]}.out")
    if tier == "quick" and vlib.vo_fresh(path) and os.path.exists(cache):
        return vlib.CoqResult(path, True, open(cache).read(), "", 0.0)
    r = vlib.coqc(rel, 1500)
    if r.ok:
        vlib.write_if_changed(cache, r.out)
    return r


def replay(run, data):
    """bin/check C07 --replay replays/C07-*.json : evaluate the current tree's lowered expression on the
    recorded simplex and compare with the quantity computed from its vertices."""
    w = data.get("witness")
    if not w:
        print("replay file has no witness (no failing input had been found)")
        return 2
    case = next(c for c in build_cases("thorough") + build_combined("thorough", int(data.get("seed", 0)))
                if c.name == data["case"])
    got, exp, ok = C07_oracle.replay_witness(case, w)
    print(f"case {case.name}: lowered expression evaluates to {got}, the cell's {w['quantity']} is {exp}: "
          + ("AGREE" if ok else "DIFFER"))
    return 0 if ok else 1


def main(run):
    for n, k in EXPECTED_KINDS.items():
        if ufl2coq.KIND_OF_GEOMETRY.get(n) != k:
            raise RuntimeError(f"terminal kind of {n} changed; coq/Props/C07_spec.v (interp) must be updated")
    del LOWERING_ERRORS[:]
    cases = build_cases(run.tier) + build_combined(run.tier, run.seed)
    seen_err = set()
    for e in LOWERING_ERRORS:
        key = (e["type"], e["cell"], e["gdim"])
        if key not in seen_err:
            seen_err.add(key)
            run.violation({"broken": "apply_geometry_lowering raises / refuses to lower a geometric quantity of an "
                                     "affine simplex mesh (P1 vector Lagrange coordinate element)",
                           "input": e, "expected": "an expression whose value is the quantity of the cell",
                           "reproduce": "apply_geometry_lowering(ufl.classes.%s(ufl.Mesh(LagrangeElement(%s, 1, (%d,)))))"
                                        % (e["type"], e["cell"], e["gdim"])}, True)
    only = [x for x in os.environ.get("C07_ONLY", "").split(",") if x]
    if only:      # debugging / self-test aid: restrict to the named case families (recorded in the evidence)
        cases = [c for c in cases if any(c.name.startswith(x) for x in only)]
        run.extra["filtered_by_C07_ONLY"] = only
    for c in cases:
        if c.name.split("_")[0] in ("circ", "fnormal", "vol", "minedge") and len(run.samples) < 10:
            run.sample({"case": c.name, "note": c.note, "spec": c.spec, "lowered": str(c.out)[:300]})
    # hand-written theorems are re-checked on every run, concurrently with the generated shards
    pool = cf.ThreadPoolExecutor(max_workers=3)
    hand = [pool.submit(hand_result, hf, run.tier) for hf in HAND_FILES[1:]]
    # C07_spec must be required before coqgen's Section opens (a Require inside a section triggers a
    # warning that hides the error location): prefix the header for this call only
    saved = coqgen.HEADER
    coqgen.HEADER = "Require Import UFLV.Props.C07_spec.\n" + saved
    try:
        failing = coqgen.emit_and_check(run, "C07", cases, extra_header=EXTRA_HEADER, timeout=1500)
    finally:
        coqgen.HEADER = saved
    run.add_coq_result(hand_result(HAND_FILES[0], run.tier))
    for fut in hand:
        res = fut.result()
        run.add_coq_result(res)
        if not res.ok:
            run.violation({"broken": "hand-written theorem file does not compile", "file": res.path,
                           "error": (res.err or "")[-1500:]}, False)
    run.checker_cmds.append("coqc -Q coq UFLV coq/Props/C07_{spec,thms,crelle,normals}.v")
    bad = vlib.scan_forbidden([os.path.join(vlib.COQ, h) for h in HAND_FILES])
    if bad:
        run.violation({"broken": "forbidden vernacular in hand-written files", "where": bad}, False)
    for c in cases:
        run.count_case(c.name)
    run.extra["configurations"] = sorted(
        f"{c.name}: {c.note['q']} tdim={c.note['tdim']} gdim={c.note['gdim']} facet={c.note['facet']} "
        f"ridge={c.note['ridge']}" + (f" restricted={c.note['restricted']}" if "restricted" in c.note else "")
        for c in cases)
    seen = set()
    for case, lemma, msg in failing:
        if case is None:
            run.violation({"broken": "generated obligations file does not compile", "message": msg}, False)
            continue
        if case.name in seen:
            continue
        seen.add(case.name)
        trials = 30 if run.tier == "quick" else 300
        if case.note["q"].startswith("combined"):
            w = C07_oracle.search_combined(case, lemma, trials=trials, seed=run.seed)
        else:
            w = C07_oracle.search(case, trials=trials, seed=run.seed)
        rep = {"broken_obligation": lemma, "case": case.name, "seed": run.seed,
               "note": {k: v for k, v in case.note.items() if k not in ("atoms", "weights")}, "coq_message": msg,
               "spec": case.spec or "the same quantities lowered one at a time", "lowered_expr": str(case.out)[:3000],
               "reproduce": "bin/check C07 --replay <this file>  (evaluates apply_geometry_lowering's output for this "
                            "quantity on the witness simplex, terminals read by the convention table of "
                            "coq/Props/C07_spec.v, and compares with numpy's value from the vertices)"}
        if w:
            rep["witness"] = w
        run.violation(rep, bool(w))
    run.trusted.update([
        "Coq 8.16.1 kernel (coqc); vm_compute used for normalisation, no native_compute",
        "py/ufl2coq.py serializer (node-for-node, fail-closed)",
        "reference-cell convention table of coq/Props/C07_spec.v (interp, edge, fv, cfj, crj, rn, r0): "
        "FFCx/basix numbering, reference normals, reference volumes, x0 = vertex 0",
        "abs, sqrt, min, max are uninterpreted symbols of the algebra: the specification uses the same symbols; "
        "coq/Props/C07_thms.v relates them to squared lengths under sqrt(x)^2 = x, abs(x)^2 = x^2",
        "UFL's as_tensor/indexing/product used by the harness to form K*J, J*K, FK*FJ from lowered operands",
    ])
    return run.finish(
        rule="one case per (quantity, cell, gdim, facet or ridge where relevant); every component of the lowered "
             "expression is one obligation proved for all vertex positions and points; distinct = distinct case names",
        assumptions=["real mode: re x = x and conj x = x (premises of every obligation)",
                     "non-degeneracy premises: det J <> 0 (Gram determinant for immersed cells), volume <> 0, "
                     "normal length <> 0 where the lowered expression divides by them",
                     "affine cells only: P1 vector Lagrange coordinate element"])
