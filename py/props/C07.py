"""C07 - Geometry lowering computes the geometric quantities of the actual cell.

Tie T2: the real `apply_geometry_lowering` is run on every geometric quantity type handled by
GeometryLoweringApplier, for every affine simplex configuration (cell x gdim x facet/ridge); the
lowered DAG is serialised node for node and Coq proves, for ALL vertex positions (and all points of
the cell), in every UFL algebra in which re/conj are the identity, that its denotation equals the
quantity defined directly from the vertex coordinates in coq/Props/C07_spec.v.  The terminals that
remain after lowering (J = reference_grad(x), x, x0, CellFacetJacobian, CellRidgeJacobian,
Cell/FacetEdgeVectors, ReferenceNormal, reference volumes, CellOrientation) are read through the
predicate `interp` of C07_spec.v, which states the (trusted) reference-cell convention table.
coq/Props/C07_thms.v proves that the vertex-level definitions are the geometric ones (circumcentre
equidistance / Crelle, normals orthogonal+outward+unit, Gram determinants, inverse laws)."""

import warnings

import ufl
import ufl.classes as C
from ufl.algorithms.apply_geometry_lowering import apply_geometry_lowering
from ufl.core.multiindex import indices
from ufl.corealg.traversal import unique_pre_traversal
from ufl.tensors import as_tensor

import C07_oracle
import coqgen
import ufl2coq
import uflgen
import vlib

HAND_FILES = ["Props/C06_spec.v", "Props/C07_spec.v", "Props/C07_thms.v"]

CELLS = [("interval", 1), ("triangle", 2), ("tetrahedron", 3)]

EXPECTED_KINDS = {"SpatialCoordinate": 10, "CellOrigin": 14, "CellFacetJacobian": 22, "CellRidgeJacobian": 23,
                  "CellEdgeVectors": 28, "FacetEdgeVectors": 29, "ReferenceNormal": 42,
                  "ReferenceCellVolume": 43, "ReferenceFacetVolume": 44, "CellOrientation": 54}
ALLOWED_TERMINALS = set(EXPECTED_KINDS)

EXTRA_HEADER = r'''
Require Import UFLV.Props.C07_spec.
(* the cell: vertices V k i, evaluation point Xr, orientation co, diagonal reference normal rd *)
Variable V : nat -> nat -> KT.
Variable Xr : nat -> KT.
Variables co rd : KT.
Definition gInterp := @interp A V Xr co rd env DX.
Definition gJm := @Jm A V.
Definition gdetJ := @detJ A V co.
Definition gKinv := @Kinv A V.
Definition gvol := @vol A V co.
Definition gFJm := @FJm A V.
Definition gfdetJ := @fdetJ A V.
Definition gfarea := @farea A V.
Definition gcirc := @circ A V co.
Definition gcell_edge_ext := @cell_edge_ext A V co.
Definition gfacet_edge_ext := @facet_edge_ext A V.
Definition gcnormal := @cnormal A V co.
Definition gfnormal := @fnormal A V rd.
Definition gndir := @ndir A V rd.
Definition gevec := @evec A V.
Definition gxphys := @xphys A V Xr.
Definition gpinv := @pinv A.
Definition gpdet := @pdet A.
Definition gdelta := @delta A.
Definition gnrm2 := @nrm2 A.
Definition gsqrt := @ksqrt A.
Definition gc1 (f : nat -> KT) (c : list nat) : KT := match c with [i] => f i | _ => z0 end.
Definition gc2 (f : nat -> nat -> KT) (c : list nat) : KT := match c with [i; j] => f i j | _ => z0 end.

Ltac norm_any H :=
  let t := type of H in let t' := eval vm_compute in t in change t' in H.
Ltac unify7 :=
  match goal with
  | |- context [fn ?f ?X] =>
      match goal with
      | |- context [fn f ?Y] =>
          lazymatch X with Y => fail | _ => idtac end;
          replace (fn f X) with (fn f Y) by (f_equal; arg_eq X Y)
      end
  | |- context [abs ?X] =>
      match goal with
      | |- context [abs ?Y] =>
          lazymatch X with Y => fail | _ => idtac end;
          replace (abs X) with (abs Y) by (f_equal; arg_eq X Y)
      end
  | |- context [min_ ?X1 ?X2] =>
      match goal with
      | |- context [min_ ?Y1 ?Y2] =>
          lazymatch constr:((X1, X2)) with (Y1, Y2) => fail | _ => idtac end;
          replace (min_ X1 X2) with (min_ Y1 Y2) by (f_equal; [arg_eq X1 Y1 | arg_eq X2 Y2])
      end
  | |- context [max_ ?X1 ?X2] =>
      match goal with
      | |- context [max_ ?Y1 ?Y2] =>
          lazymatch constr:((X1, X2)) with (Y1, Y2) => fail | _ => idtac end;
          replace (max_ X1 X2) with (max_ Y1 Y2) by (f_equal; [arg_eq X1 Y1 | arg_eq X2 Y2])
      end
  end.
(* H0 : interp, H1 : re = id, H2 : conj = id; further hypotheses are non-degeneracy facts *)
Ltac c07_pre H0 H1 H2 :=
  norm_goal;
  destruct H0 as [HJ Hx Hx0 Hcfj Hcrj Hcev Hfev Hrn Hrcv Hrfv Hco];
  repeat rewrite HJ; repeat rewrite Hx; repeat rewrite Hx0; repeat rewrite Hcfj; repeat rewrite Hcrj;
  repeat rewrite Hcev; repeat rewrite Hfev; repeat rewrite Hrn; repeat rewrite Hrcv;
  repeat rewrite Hrfv; repeat rewrite Hco;
  repeat rewrite H1; repeat rewrite H2;
  norm_goal.
Ltac c07_fin := first [ reflexivity | ring | field; nz_solve char0 ].
'''

def interp_hyp(t, g, f=0, r=0):
    return f"gInterp {t} {g} {f} {r}"


REAL_HYPS = ["forall x, re x = x", "forall x, conj x = x"]


def lower(o):
    with warnings.catch_warnings():
        warnings.simplefilter("error")      # a warning means "not lowered": must not happen on P1 simplices
        return apply_geometry_lowering(o)


def terminals_of(e):
    return {type(x).__name__ for x in unique_pre_traversal(e)
            if x._ufl_is_terminal_ and isinstance(x, C.GeometricQuantity)}


def nd_hyps(t, g, *more):
    """non-degeneracy: det J (or its Gram determinant) and the volume are non-zero"""
    h = [f"gdetJ {t} {g} <> z0" if t == g else f"DET {t} (GRAM {g} gJm) <> z0"]
    return h + list(more)


def build_cases(tier):
    cases = []

    def add(name, out, spec, t, g, f=0, r=0, nd=(), note=None, comps=None):
        bad = terminals_of(out) - ALLOWED_TERMINALS
        if bad:
            raise ufl2coq.Unsupported(f"{name}: lowered expression keeps unexpected terminals {sorted(bad)}")
        hyps = [interp_hyp(t, g, f, r)] + REAL_HYPS + list(nd)
        gen = ("generalize " + " ".join(f"H{k}" for k in range(3, len(hyps))) + "; ") if len(hyps) > 3 else ""
        tactic = f"c07_pre H0 H1 H2; first [ c07_fin | {gen}repeat unify7; intros; c07_fin ]"
        cases.append(coqgen.Case(name, out=out, spec=spec, hyps=hyps, tactic=tactic,
                                 comps=comps, note=dict(note or {}, tdim=t, gdim=g, facet=f, ridge=r)))

    for cell, t in CELLS:
        for g in range(t, 4):
            m = uflgen.mesh(cell, g)
            cg = f"{cell[:3]}{g}"
            nf = t + 1
            nd = nd_hyps(t, g)
            J = lower(C.Jacobian(m))
            K = lower(C.JacobianInverse(m))
            add(f"J_{cg}", J, "gc2 gJm {c}", t, g, note={"q": "Jacobian"})
            add(f"K_{cg}", K, f"gc2 (gKinv {t} {g}) {{c}}", t, g, nd=nd, note={"q": "JacobianInverse"})
            i, j, k = indices(3)
            add(f"KJ_{cg}", as_tensor(K[i, k] * J[k, j], (i, j)), "gc2 gdelta {c}", t, g, nd=nd,
                note={"q": "JacobianInverse * Jacobian = I"})
            if t == g:
                i, j, k = indices(3)
                add(f"JK_{cg}", as_tensor(J[i, k] * K[k, j], (i, j)), "gc2 gdelta {c}", t, g, nd=nd,
                    note={"q": "Jacobian * JacobianInverse = I"})
            add(f"detJ_{cg}", lower(C.JacobianDeterminant(m)), f"gdetJ {t} {g}", t, g,
                note={"q": "JacobianDeterminant"})
            x = C.SpatialCoordinate(m)
            add(f"x_{cg}", lower(x), f"gc1 (gxphys {t}) {{c}}", t, g, note={"q": "SpatialCoordinate"})
            add(f"X_{cg}", lower(C.CellCoordinate(m)), "gc1 Xr {c}", t, g, nd=nd, note={"q": "CellCoordinate"})
            add(f"vol_{cg}", lower(C.CellVolume(m)), f"gvol {t} {g}", t, g, note={"q": "CellVolume"})
            ndv = nd + [f"gvol {t} {g} <> z0"]
            add(f"circ_{cg}", lower(C.Circumradius(m)), f"gcirc {t} {g}", t, g, nd=ndv,
                note={"q": "Circumradius"})
            add(f"diam_{cg}", lower(C.CellDiameter(m)), f"gcell_edge_ext max_ {t} {g}", t, g,
                note={"q": "CellDiameter"})
            add(f"minedge_{cg}", lower(C.MinCellEdgeLength(m)), f"gcell_edge_ext min_ {t} {g}", t, g,
                note={"q": "MinCellEdgeLength"})
            add(f"maxedge_{cg}", lower(C.MaxCellEdgeLength(m)), f"gcell_edge_ext max_ {t} {g}", t, g,
                note={"q": "MaxCellEdgeLength"})
            if g == t + 1:
                add(f"cnormal_{cg}", lower(C.CellNormal(m)), f"gc1 (gcnormal {g}) {{c}}", t, g,
                    nd=[f"gsqrt (gnrm2 {g} (@cnraw A V {g})) <> z0"], note={"q": "CellNormal"})
            # facet quantities, one case per facet
            for f in range(nf):
                cf = f"{cg}_f{f}"
                add(f"farea_{cf}", lower(C.FacetArea(m)), f"gfarea {t} {g} {f}", t, g, f, note={"q": "FacetArea"})
                if t == 1:
                    ndn = [f"gJm 0 0 <> z0", "abs (gJm 0 0) <> z0"] if g == 1 else \
                          [f"gsqrt (gnrm2 {g} (fun k => gJm k 0)) <> z0"]
                else:
                    ndn = nd + [f"gsqrt (gnrm2 {g} (gndir {t} {g} {f})) <> z0"]
                add(f"fnormal_{cf}", lower(C.FacetNormal(m)), f"gc1 (gfnormal {t} {g} {f}) {{c}}", t, g, f,
                    nd=ndn, note={"q": "FacetNormal"})
                if t >= 2:
                    FJ = lower(C.FacetJacobian(m))
                    FK = lower(C.FacetJacobianInverse(m))
                    ndf = [f"DET {t - 1} (GRAM {g} (gFJm {f})) <> z0"]
                    add(f"FJ_{cf}", FJ, f"gc2 (gFJm {f}) {{c}}", t, g, f, note={"q": "FacetJacobian"})
                    add(f"FK_{cf}", FK, f"gc2 (gpinv {g} {t - 1} (gFJm {f})) {{c}}", t, g, f, nd=ndf,
                        note={"q": "FacetJacobianInverse"})
                    i, j, k = indices(3)
                    add(f"FKFJ_{cf}", as_tensor(FK[i, k] * FJ[k, j], (i, j)), "gc2 gdelta {c}", t, g, f, nd=ndf,
                        note={"q": "FacetJacobianInverse * FacetJacobian = I"})
                    add(f"detFJ_{cf}", lower(C.FacetJacobianDeterminant(m)), f"gfdetJ {t} {g} {f}", t, g, f,
                        note={"q": "FacetJacobianDeterminant"})
                    fc = C.FacetCoordinate(m)
                    if lower(fc) is not fc:
                        raise ufl2coq.Unsupported("FacetCoordinate is expected to stay a terminal")
                if t == 3:
                    add(f"minfedge_{cf}", lower(C.MinFacetEdgeLength(m)), f"gfacet_edge_ext min_ {g} {f}", t, g, f,
                        note={"q": "MinFacetEdgeLength"})
                    add(f"maxfedge_{cf}", lower(C.MaxFacetEdgeLength(m)), f"gfacet_edge_ext max_ {g} {f}", t, g, f,
                        note={"q": "MaxFacetEdgeLength"})
            if t == 3:
                for r in range(6):
                    cr = f"{cg}_r{r}"
                    RJ = lower(C.RidgeJacobian(m))
                    RK = lower(C.RidgeJacobianInverse(m))
                    ndr = [f"gnrm2 {g} (gevec 3 {r}) <> z0"]
                    add(f"RJ_{cr}", RJ, f"gc2 (fun i _ => gevec 3 {r} i) {{c}}", t, g, 0, r, note={"q": "RidgeJacobian"})
                    add(f"RK_{cr}", RK, f"gc2 (gpinv {g} 1 (fun i _ => gevec 3 {r} i)) {{c}}", t, g, 0, r, nd=ndr,
                        note={"q": "RidgeJacobianInverse"})
                    add(f"detRJ_{cr}", lower(C.RidgeJacobianDeterminant(m)),
                        f"gsqrt (gnrm2 {g} (gevec 3 {r}))", t, g, 0, r, note={"q": "RidgeJacobianDeterminant"})
    return cases


def main(run):
    for n, k in EXPECTED_KINDS.items():
        if ufl2coq.KIND_OF_GEOMETRY.get(n) != k:
            raise RuntimeError(f"terminal kind of {n} changed; coq/Props/C07_spec.v (interp) must be updated")
    cases = build_cases(run.tier)
    for c in cases:
        if c.name.split("_")[0] in ("circ", "fnormal", "vol", "minedge") and len(run.samples) < 10:
            run.sample({"case": c.name, "note": c.note, "spec": c.spec, "lowered": str(c.out)[:300]})
    failing = coqgen.emit_and_check(run, "C07", cases, extra_header=EXTRA_HEADER, timeout=800)
    for hf in HAND_FILES[1:]:
        run.add_coq_result(vlib.coqc(hf))
    for c in cases:
        run.count_case(c.name)
    run.extra["configurations"] = sorted(f"{c.note['q']} tdim={c.note['tdim']} gdim={c.note['gdim']}"
                                         + (f" facet={c.note['facet']}" if "_f" in c.name else "")
                                         + (f" ridge={c.note['ridge']}" if "_r" in c.name else "")
                                         for c in cases)
    seen = set()
    for case, lemma, msg in failing:
        if case is None:
            run.violation({"broken": "generated obligations file does not compile", "message": msg}, False)
            continue
        if case.name in seen:
            continue
        seen.add(case.name)
        w = C07_oracle.search(case, trials=30 if run.tier == "quick" else 300, seed=run.seed)
        rep = {"broken_obligation": lemma, "case": case.name, "note": case.note, "coq_message": msg,
               "spec": case.spec, "lowered_expr": str(case.out)[:3000],
               "reproduce": "bin/check C07  (py/C07_oracle.py evaluates the lowered expression on the witness simplex)"}
        if w:
            rep["witness"] = w
        run.violation(rep, bool(w))
    run.trusted.update([
        "Coq 8.16.1 kernel (coqc); vm_compute used for normalisation, no native_compute",
        "py/ufl2coq.py serializer (node-for-node, fail-closed)",
        "reference-cell convention table of coq/Props/C07_spec.v (interp, edge, fv, cfj, crj, rn, r0): "
        "FFCx/basix numbering, reference normals, reference volumes, x0 = vertex 0",
        "abs, sqrt, min, max are uninterpreted symbols of the algebra: the specification uses the same symbols; "
        "coq/Props/C07_thms.v relates them to squared lengths under sqrt(x)^2 = x, abs(x)^2 = x^2",
        "UFL's as_tensor/indexing/product used by the harness to form K*J, J*K, FK*FJ from lowered operands",
    ])
    return run.finish(
        rule="one case per (quantity, cell, gdim, facet or ridge where relevant); every component of the lowered "
             "expression is one obligation proved for all vertex positions and points; distinct = distinct case names",
        assumptions=["real mode: re x = x and conj x = x (premises of every obligation)",
                     "non-degeneracy premises: det J <> 0 (Gram determinant for immersed cells), volume <> 0, "
                     "normal length <> 0 where the lowered expression divides by them",
                     "affine cells only: P1 vector Lagrange coordinate element"])
