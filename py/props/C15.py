"""C15 - Integral grouping preserves what is integrated on each subdomain.

Unbounded part (hand-written, coq/Props/C15_model.v): Gallina models of
group_integrals_by_domain_and_type / rearrange_integrals_by_single_subdomains / coordinate-derivative
grouping / accumulate_integrands_with_same_metadata / the final merge / build_integral_data over an
abstract commutative monoid of integrands, with C15_group_sums (all lists of integrals, both append
options, every key), C15_no_merge(_partial) and C15_no_merge_refuted.

Tie T3 (this file, every run): seeded forms whose integrands are distinct tags (Constants /
Coefficients), the REAL group_form_integrals / build_integral_data / compute_form_data are run, their
outputs decoded into  key -> multiset of tags  and compared inside Coq with the executable model run
on the same abstract input (`Example ... : agrees ... = true. vm_compute; reflexivity`).  The
metadata classes given to the model are computed with the REAL hash(canonicalize_metadata(.)); two
further obligations per case tie them to the identity of the metadata values (guard of
C15_no_merge_partial) or, inside the known-finding class, to the pinned str() rendering."""

import json
import os
import random

import numpy as np

import ufl
from ufl.algorithms import compute_form_data
from ufl.algorithms.domain_analysis import group_form_integrals
from ufl.classes import (
    Coefficient,
    Constant,
    CoordinateDerivative,
    Form,
    Integral,
    Restricted,
    Sum,
)
from ufl.utils.sorting import canonicalize_metadata

import uflgen
import vlib

HAND_FILES = ["Props/C15_model.v", "Props/C15_exec.v"]

# an integral type added through the public registry (group_form_integrals loops over
# ufl.measure.integral_types(), which must see it); registration is idempotent
CUSTOM_TYPE = "verif_patch"
ufl.measure.register_integral_type(CUSTOM_TYPE, "dvp")
ITYPES = ["cell", "exterior_facet", "interior_facet", "vertex", "ridge", "custom", CUSTOM_TYPE]
EST = "estimated_polynomial_degree"


# ----------------------------------------------------------------------------------------------
# metadata: identity (injective key), pinned reference rendering, pool

def mdkey(v):
    """Injective description of a metadata value (lists and tuples identified)."""
    if isinstance(v, dict):
        return ("d", tuple(sorted((k, mdkey(x)) for k, x in v.items())))
    if isinstance(v, (list, tuple)):
        return ("q", tuple(mdkey(x) for x in v))
    if isinstance(v, np.ndarray):
        return ("a", v.dtype.str, v.shape, tuple(float(x).hex() if v.dtype.kind == "f" else repr(x)
                                                 for x in v.ravel().tolist()))
    if isinstance(v, bool):
        return ("b", v)
    if isinstance(v, int):
        return ("i", v)
    if isinstance(v, float):
        return ("f", v.hex())
    if isinstance(v, str):
        return ("s", v)
    if v is None:
        return ("n",)
    raise ValueError(f"metadata value outside the generator's vocabulary: {type(v)}")


def ref_canon(v, top=True):
    """The rendering of the pinned canonicalize_metadata (str() of every leaf, containers to
    tuples): defines the known-finding class, independently of the code under test."""
    if v is None and top:
        return ()
    if isinstance(v, dict):
        ks = sorted(v)
        return tuple((k, ref_leaf(v[k])) for k in ks)
    return tuple(ref_leaf(x) for x in v)


def ref_leaf(x):
    if isinstance(x, (dict, list, tuple)):
        return ref_canon(x, False)
    return str(x)


def leaf_types(v, acc=None):
    acc = set() if acc is None else acc
    if isinstance(v, dict):
        for x in v.values():
            leaf_types(x, acc)
    elif isinstance(v, (list, tuple)):
        for x in v:
            leaf_types(x, acc)
    else:
        acc.add(type(v).__name__)
    return acc


def in_known_class(a, b):
    """The exact class of the known finding: two metadata values that differ but whose pinned
    str()-rendering coincides (arrays equal to the 8 digits / summarisation of str(ndarray), or
    values of different type with the same text such as 3 and '3')."""
    return mdkey(a) != mdkey(b) and ref_canon(a) == ref_canon(b)


def metadata_pool(rng):
    w = np.array([0.1234567891, 0.3765432109, 0.5])
    w10 = w.copy()
    w10[0] += 1e-10                      # differs in the 10th digit: collides under str()
    w3 = w.copy()
    w3[0] += 1e-3                        # differs in the 3rd digit: distinct
    pts = np.array([[0.25, 0.25], [0.5, 0.25], [0.25, 0.5]])
    big = np.linspace(0.0, 1.0, 1200)
    big2 = big.copy()
    big2[600] += 0.25                    # differs beyond the summarisation threshold: collides
    plain = [
        {},
        {"quadrature_degree": 2},
        {"quadrature_degree": 3},
        {"quadrature_degree": 4, "quadrature_rule": "default"},
        {"quadrature_degree": 4, "quadrature_rule": "vertex"},
        {"quadrature_rule": "vertex"},
        {"opts": {"a": 1, "b": [1, 2]}},
        {"opts": {"a": 1, "b": [1, 3]}},
        {"opts": {"a": 2, "b": [1, 2]}, "scale": 0.5},
        {"quadrature_rule": "custom", "quadrature_points": pts, "quadrature_weights": w},
        {"quadrature_rule": "custom", "quadrature_points": pts, "quadrature_weights": w3},
        {"mode": "fast", "flags": (True, None)},
    ]
    # families of values that hold the same numbers in a different guise: same data in another
    # shape / dtype / container.  They are DIFFERENT metadata (also under the pinned rendering)
    base = np.array([0.25, 0.5, 0.125, 0.75])
    families = [
        [{"quadrature_rule": "custom", "quadrature_points": base.reshape(2, 2)},
         {"quadrature_rule": "custom", "quadrature_points": base.reshape(4, 1)},
         {"quadrature_rule": "custom", "quadrature_points": base.copy()},
         {"quadrature_rule": "custom", "quadrature_points": base.reshape(1, 4)}],
        [{"weights": np.array([1.0, 2.0])}, {"weights": np.array([1.0, 2.0], dtype=np.float32)},
         {"weights": np.array([1, 2])}, {"weights": np.array([[1.0], [2.0]])}],
        [{"quadrature_degree": 2, "scheme": "default"}, {"quadrature_degree": 2, "scheme": "Default"},
         {"quadrature_degree": 2.0, "scheme": "default"}, {"quadrature_degree": 2}],
        # (values of one key keep one kind - leaf or container - within a pool: ExprTupleKey compares the
        #  canonical tuples with < and raises TypeError on str-vs-tuple when the integrands are equal)
        [{"opts": {"a": 1}}, {"opts": {"a": 2}}, {"opts": {"a": 1, "b": 1}}, {"opts": {"b": 1}}],
    ]
    colliding = [
        ({"quadrature_degree": 3}, {"quadrature_degree": "3"}),
        ({"quadrature_rule": "custom", "quadrature_points": pts, "quadrature_weights": w},
         {"quadrature_rule": "custom", "quadrature_points": pts, "quadrature_weights": w10}),
        ({"quadrature_rule": "custom", "quadrature_weights": big},
         {"quadrature_rule": "custom", "quadrature_weights": big2}),
        ({"scale": 0.5}, {"scale": "0.5"}),
        ({"flag": None}, {"flag": "None"}),
        ({"flag": True}, {"flag": "True"}),
    ]
    return plain, colliding, families


# ----------------------------------------------------------------------------------------------
# generation of forms with tagged integrands

class Case:
    pass


def gen_case(seed, idx, tier):
    rng = random.Random(f"C15-{seed}-{idx}")
    c = Case()
    c.idx = idx
    c.append = rng.random() < 0.6
    c.route = rng.choice(["gfi", "gfi", "fd", "fd", "cd"]) if idx % 7 else "cd"
    ncell = rng.choice([1, 1, 2, 3])
    gdim = rng.choice([2, 3])
    cells = [rng.choice(["triangle", "interval"] + (["tetrahedron"] if gdim == 3 else [])) for _ in range(ncell)]
    c.meshes = [ufl.Mesh(uflgen.LagrangeElement(uflgen.CELLS[cn], 1, (gdim,))) for cn in cells]
    plain, colliding, families = metadata_pool(rng)
    pool = rng.sample(plain, rng.randint(1, 4))
    if rng.random() < 0.3:
        fam = rng.choice(families)
        pool = rng.sample(fam, rng.randint(2, 3)) + pool[:2]
    c.with_collision = rng.random() < 0.35
    if c.with_collision:
        a, b = rng.choice(colliding)
        pool += [a, b] if rng.random() < 0.5 else [b, a]
        if rng.random() < 0.5:
            pool.append(rng.choice(plain))
    # the pool must consist of pairwise different values
    uniq = []
    for m in pool:
        if all(mdkey(m) != mdkey(u) for u in uniq):
            uniq.append(m)
    rng.shuffle(uniq)
    c.pool = uniq
    c.replace = c.route == "fd" and rng.random() < 0.5
    c.estimate = rng.random() < 0.7
    c.reuse = rng.choice([0.0, 0.0, 0.35, 0.7])
    n = rng.randint(2, 9 if tier == "quick" else 12)
    c.tags = []
    integrals = []
    dirs = {}
    for k in range(n):
        mesh = rng.choice(c.meshes)
        rt = rng.random()
        it = rng.choice(ITYPES[:3]) if rt < 0.7 else (rng.choice(ITYPES[3:6]) if rt < 0.85 else CUSTOM_TYPE)
        r = rng.random()
        if r < 0.40:
            sid = rng.randint(0, 3)
        elif r < 0.70:
            sid = tuple(rng.randint(0, 3) for _ in range(rng.randint(1, 3)))
            if rng.random() < 0.7:
                sid = tuple(dict.fromkeys(sid))
        else:
            sid = "everywhere"
        md = rng.choice(c.pool)
        use_coef = c.route == "fd" and it != "interior_facet" and rng.random() < 0.4
        # identical integrands are part of the input space: with some probability re-use a tag of
        # this mesh (same or different subdomain / metadata / type)
        reusable = [t for t in c.tags if ufl.domain.extract_unique_domain(t) == mesh
                    and (it != "interior_facet" or isinstance(t, Constant))
                    and (c.route == "fd" or isinstance(t, Constant))]
        if reusable and rng.random() < c.reuse:
            tag = rng.choice(reusable)
        else:
            if use_coef:
                V = ufl.FunctionSpace(mesh, uflgen.LagrangeElement(mesh.ufl_cell(), 1, ()))
                tag = Coefficient(V)
            else:
                tag = Constant(mesh)
            c.tags.append(tag)
        integrand = tag
        if c.route == "cd" and rng.random() < 0.6:
            # coordinate derivative in one of two directions (outermost, as derivative() builds it)
            j = rng.randint(0, 1)
            key = (id(mesh), j)
            if key not in dirs:
                g = mesh.geometric_dimension
                dirs[key] = Coefficient(ufl.FunctionSpace(mesh, uflgen.LagrangeElement(mesh.ufl_cell(), 1, (g,))))
            f0 = ufl.derivative(Form([Integral(tag, it, mesh, 1, {}, None)]),
                                ufl.SpatialCoordinate(mesh), dirs[key])
            integrand = f0.integrals()[0].integrand()
            if rng.random() < 0.15:      # the same direction twice
                f1 = ufl.derivative(Form([Integral(integrand, it, mesh, 1, {}, None)]),
                                    ufl.SpatialCoordinate(mesh), dirs[key])
                integrand = f1.integrals()[0].integrand()
        if rng.random() < 0.5 and not isinstance(sid, tuple) and c.route != "cd":
            meas = ufl.Measure(it, domain=mesh)
            integrals.extend((integrand * meas(sid, metadata=md)).integrals())
        else:
            integrals.append(Integral(integrand, it, mesh, sid, md, None))
    c.form = Form(integrals)
    return c


def strip_cd(e):
    cds = []
    while isinstance(e, CoordinateDerivative):
        o = e.ufl_operands
        cds.append((o[1], o[2], o[3]))
        e = o[0]
    return e, tuple(cds)


def leaves(e):
    """The summands of a left/right nested Sum."""
    out, stack = [], [e]
    while stack:
        x = stack.pop()
        if isinstance(x, Sum):
            stack.extend(x.ufl_operands)
        elif isinstance(x, Restricted):
            stack.append(x.ufl_operands[0])
        else:
            out.append(x)
    return out


class Abstract:
    """Abstract view of a case: integer ids for domains, types, coordinate derivatives, metadata."""

    def __init__(self, c):
        self.c = c
        self.domains = list(c.form.ufl_domains())
        self.cds = [()]
        self.inputs = []
        for itg in c.form.integrals():
            e, cd = strip_cd(itg.integrand())
            tag = self.tag_index(e)
            m = self.md_index(itg.metadata())
            d = self.domains.index(itg.ufl_domain())
            t = ITYPES.index(itg.integral_type())
            sid = itg.subdomain_id()
            self.inputs.append((d, t, sid, self.cd_index(cd), m, tag))
        # classes of the pool under the REAL canonicalisation (exactly the key the code uses)
        cts = [canonicalize_metadata(m) for m in c.pool]
        hs = [hash(t) for t in cts]
        if any((hs[i] == hs[j]) != (cts[i] == cts[j]) for i in range(len(hs)) for j in range(len(hs))):
            raise ValueError("hash collision between different canonical metadata tuples")
        self.cls = [hs.index(h) for h in hs]
        keys = [mdkey(m) for m in c.pool]
        refs = [ref_canon(m) for m in c.pool]
        self.refcls = [refs.index(r) for r in refs]
        assert len(set(keys)) == len(keys)

    def tag_index(self, e, inv=None):
        if inv and e in inv:
            e = inv[e]
        for k, t in enumerate(self.c.tags):
            if t is e or (type(t) is type(e) and t == e):
                return k
        raise ValueError(f"integrand leaf is not a tag: {e!r}")

    def md_index(self, md):
        md = md or {}
        k0 = mdkey(md)
        for k, m in enumerate(self.c.pool):
            if mdkey(m) == k0:
                return k
        if EST in md:
            md = {k: v for k, v in md.items() if k != EST}
            return self.md_index(md)
        raise ValueError(f"output metadata is not one of the input metadata: {md!r}")

    def cd_index(self, cd):
        for k, x in enumerate(self.cds):
            if len(x) == len(cd) and all(a == b for a, b in zip(x, cd)):
                return k
        self.cds.append(cd)
        return len(self.cds) - 1

    def decode(self, integrals, inv=None):
        """[(d, t, sids tuple, cd, md index, sorted tags)] for output integrals."""
        out = []
        for itg in integrals:
            e, cd = strip_cd(itg.integrand())
            tags = sorted(self.tag_index(x, inv) for x in leaves(e))
            sids = itg.subdomain_id()
            if not isinstance(sids, tuple):
                sids = (sids,)
            out.append((self.domains.index(itg.ufl_domain()), ITYPES.index(itg.integral_type()),
                        tuple(sids), self.cd_index(cd), self.md_index(itg.metadata()), tags))
        return out

    def table(self, decoded, level="class", cls=None):
        cls = self.cls if cls is None else cls
        tab = {}
        for d, t, sids, cd, m, tags in decoded:
            for s in sids:
                key = (d, t, s, cd, cls[m]) + ((m,) if level == "md" else ())
                tab.setdefault(key, []).extend(tags)
        return {k: sorted(v) for k, v in tab.items()}

    def spec_table(self, append, cls=None):
        cls = self.cls if cls is None else cls
        return self._spec_table(append, cls)

    def _spec_table(self, append, cls):
        """The property itself (oracle for the search): what must be integrated under each key."""
        tab = {}
        declared = {}
        for d, t, sid, cd, m, tag in self.inputs:
            if sid != "everywhere":
                for i in (sid if isinstance(sid, tuple) else (sid,)):
                    declared.setdefault((d, t), set()).add(i)
        for d, t, sid, cd, m, tag in self.inputs:
            if sid == "everywhere":
                targets = ["otherwise"] + (sorted(declared.get((d, t), ())) if append else [])
            else:
                targets = list(sid) if isinstance(sid, tuple) else [sid]
            for s in targets:
                tab.setdefault((d, t, s, cd, cls[m]), []).append(tag)
        return {k: sorted(v) for k, v in tab.items()}


def run_real(c, ab):
    """Run the implementation; returns the decoded output integrals."""
    F = c.form
    if c.route in ("gfi", "cd"):
        G = group_form_integrals(F, F.ufl_domains(), do_append_everywhere_integrals=c.append)
        return ab.decode(G.integrals())
    fd = compute_form_data(F, do_append_everywhere_integrals=c.append, do_replace_functions=c.replace,
                           do_estimate_degrees=c.estimate)
    inv = {v: k for k, v in fd.function_replace_map.items()} if c.replace else None
    out = []
    for itd in fd.integral_data:
        dec = ab.decode(itd.integrals, inv)
        for d, t, sids, cd, m, tags in dec:
            if (ab.domains[d] != itd.domain or ITYPES[t] != itd.integral_type
                    or sids != (itd.subdomain_id if isinstance(itd.subdomain_id, tuple) else (itd.subdomain_id,))):
                raise ValueError("IntegralData key differs from the key of the integral it holds")
        out.extend(dec)
    return out


def merges(c, ab, decoded):
    """The no-merge half on the real output, with the metadata VALUE as key component: returns
    (differing keys, inside_known_class).  A difference is attributed to the known finding only if it
    disappears when the metadata are identified by the pinned str() rendering."""
    ident = list(range(len(c.pool)))
    real = ab.table(decoded, cls=ident)
    spec = ab.spec_table(c.append, cls=ident)
    if real == spec:
        return [], False
    diff = sorted((str(k) for k in set(real) | set(spec) if real.get(k) != spec.get(k)))
    inside = ab.table(decoded, cls=ab.refcls) == ab.spec_table(c.append, cls=ab.refcls) and ab.refcls != ident
    return diff, inside


# ----------------------------------------------------------------------------------------------
# Coq emission

def q_sid(s):
    if s == "everywhere":
        return "SEverywhere"
    if isinstance(s, tuple):
        return "(STuple [" + "; ".join(str(int(i)) for i in s) + "])"
    return f"(SInt {int(s)})"


def q_osid(s):
    return "OOtherwise" if s == "otherwise" else f"(OId {int(s)})"


def q_list(xs):
    return "[" + "; ".join(str(x) for x in xs) + "]"


def q_input(ab):
    return "[" + ";\n   ".join(
        f"mkI {d} {t} {q_sid(sid)} {cd} {m} [{tag}]" for d, t, sid, cd, m, tag in ab.inputs) + "]"


def q_table(tab, level="class"):
    ents = []
    for k in sorted(tab, key=lambda k: tuple(str(x) for x in k)):
        d, t, s, cd, cl = k[:5]
        key = f"({d}, {t}, {q_osid(s)}, {cd}, {cl})"
        if level == "md":
            key = f"({key}, {k[5]})"
        ents.append(f"({key}, {q_list(tab[k])})")
    return "[" + ";\n   ".join(ents) + "]"


COQ_HEADER = """Require Import List Arith Bool.
Import ListNotations.
Require Import UFLV.Props.C15_model UFLV.Props.C15_exec.
"""


def emit_case(c, ab, table):
    fn = "run_fd" if c.route == "fd" else "run"
    nm = f"c15_{c.idx}"
    tab = q_list(ab.cls)
    txt = [f"(* case {c.idx}: route={c.route} append={c.append} collision={c.with_collision} *)",
           f"Definition {nm}_in : list (integral tags nat) :=\n  {q_input(ab)}.",
           f"Example {nm}_agrees : agrees (canon_tab {tab}) ({fn} {str(c.append).lower()} {tab} {nm}_in)\n  {q_table(table)} = true.",
           "Proof. vm_compute. reflexivity. Qed."]
    names = [f"{nm}_agrees"]
    if ab.refcls == list(range(len(c.pool))):
        # outside the known-finding class: the real classes must be injective (guard of C15_no_merge_partial)
        txt += [f"Example {nm}_inj : refines {tab} (seq 0 {len(c.pool)}) = true.",
                "Proof. vm_compute. reflexivity. Qed."]
        names.append(f"{nm}_inj")
    else:
        txt += [f"Example {nm}_ref : refines {tab} {q_list(ab.refcls)} = true.",
                "Proof. vm_compute. reflexivity. Qed."]
        names.append(f"{nm}_ref")
    return "\n".join(txt) + "\n", names


# ----------------------------------------------------------------------------------------------

def describe(c, ab):
    return {"case": c.idx, "route": c.route, "append": c.append, "replace_functions": c.replace,
            "domains": [str(d) for d in ab.domains],
            "integrals (domain, type, subdomain id, cd class, metadata index, tag)":
                [[d, ITYPES[t], sid, cd, m, tag] for d, t, sid, cd, m, tag in ab.inputs],
            "metadata_pool": [repr(m)[:300] for m in c.pool],
            "metadata_classes_real": ab.cls}


def str_keys(tab):
    return {str(k): v for k, v in sorted(tab.items(), key=lambda kv: str(kv[0]))}


def known_witness(run, findings):
    """Replay the witnesses of the known finding on the real code (and through the model)."""
    lines = []
    for k in findings:
        w = k["witness"]
        mesh = uflgen.mesh("triangle")
        arr = {kk: np.array(v) for kk, v in w.get("arrays", {}).items()}

        def mk(desc):
            return {kk: (arr[v[1:]] if isinstance(v, str) and v.startswith("@") else v) for kk, v in desc.items()}
        mds = [mk(m) for m in w["metadata"]]
        c = Case()
        c.idx, c.append, c.route, c.replace, c.estimate, c.with_collision = f"known_{k['id']}".replace("-", "_"), True, "gfi", False, False, True
        c.pool = mds
        c.tags = [Constant(mesh) for _ in mds]
        c.form = Form([Integral(t, "cell", mesh, 1, m, None) for t, m in zip(c.tags, mds)])
        ab = Abstract(c)
        dec = run_real(c, ab)
        bad = merges(c, ab, dec)[0]
        lines.append((k, c, ab, dec, bad))
    return lines


def main(run):
    n = 200 if run.tier == "quick" else 3000
    findings = vlib.load_known_findings("C15")
    cases, chunks, names_of = [], [], {}
    violations = 0
    known_hits = []
    texts = []
    for idx in range(n):
        c = gen_case(run.seed, idx, run.tier)
        ab = Abstract(c)
        dec = run_real(c, ab)
        table = ab.table(dec)
        txt, names = emit_case(c, ab, table)
        texts.append((c, ab, dec, table, txt, names))
        run.count_case((c.route, c.append, tuple(ab.inputs), tuple(ab.cls)), nontrivial=len(ab.inputs) > 1)
        if idx < 4:
            run.sample({"case": idx, "route": c.route, "append": c.append, "inputs": ab.inputs,
                        "classes": ab.cls, "real_table": str_keys(table)})
        # the no-merge half on the real output (oracle; the Coq obligations *_inj / *_ref carry it)
        diff, inside = merges(c, ab, dec)
        if diff:
            if inside and any(k["id"] == "metadata-str-rendering" for k in findings):
                known_hits.append(idx)
            else:
                if violations < 3:
                    ident = list(range(len(c.pool)))
                    run.violation({"broken": "what is integrated under a key (domain, type, subdomain, coordinate derivative, "
                                             "metadata VALUE) differs from the input integrals that apply there "
                                             "(wrong sums, or integrals merged across different metadata), outside the known-finding class",
                                   "input": describe(c, ab), "differing_keys": diff,
                                   "expected (key -> tags)": str_keys(ab.spec_table(c.append, cls=ident)),
                                   "observed (key -> tags)": str_keys(ab.table(dec, cls=ident)),
                                   "observed_outputs": dec,
                                   "reproduce": f"VERIF_SEED={run.seed} bin/check C15 --tier {run.tier}  (case {idx})"}, True)
                violations += 1
    # known-finding witnesses: replayed on the real code and through the model at metadata level
    wit = known_witness(run, findings)
    wit_txt = []
    for k, c, ab, dec, bad in wit:
        if bad and len(dec) == 1:
            tab = q_list(ab.cls)
            t6 = ab.table(dec, "md")
            wit_txt.append(
                f"Definition {c.idx}_in : list (integral tags nat) :=\n  {q_input(ab)}.\n"
                f"Example {c.idx}_model_reproduces : table (fun m => m) (run true {tab} {c.idx}_in) = \n"
                f"  [(({0}, {0}, OId 1, 0, {dec[0][4]}), {q_list(dec[0][5])})].\nProof. vm_compute. reflexivity. Qed.\n")
    # Coq: shards of <= 400 cases
    per = 40 if run.tier == "quick" else 250
    files = []
    for i in range(0, len(texts), per):
        body = COQ_HEADER + "\n".join(t[4] for t in texts[i:i + per])
        if i == 0 and wit_txt:
            body += "\n(* known finding: the model reproduces the wrong output of the implementation *)\n" + "\n".join(wit_txt)
        path = os.path.join(vlib.GEN, f"C15_cases_{i // per}.v")
        vlib.write_if_changed(path, body)
        files.append(path)
    # the hand-written files are re-checked (for Print Assumptions and the obligation count) as
    # copies under Gen/, in parallel with the shards, so that the .vo the shards load is not rewritten
    hand = []
    for rel in HAND_FILES:
        cp = os.path.join(vlib.GEN, "C15_hand_" + os.path.basename(rel))
        vlib.write_if_changed(cp, open(os.path.join(vlib.COQ, rel)).read())
        hand.append(cp)
    allres = vlib.coqc_many(hand + files, timeout=600)
    results = allres[len(hand):]
    for r in allres:
        run.add_coq_result(r)
    for r, rel in zip(allres[:len(hand)], HAND_FILES):
        if not r.ok:
            run.violation({"broken": f"hand-written {rel} does not compile", "error": r.err[-1500:]}, False)
    bad_files = [r for r in results if not r.ok]
    if bad_files and not violations:
        # correspondence / obligation broke: search a failing input with the property as the oracle
        found = False
        for c, ab, dec, table, txt, names in texts:
            spec = ab.spec_table(c.append)
            if spec != table:
                run.violation({"broken": "per-key sums of the grouped form differ from the sums of the input integrals that apply there",
                               "input": describe(c, ab), "expected (key -> tags)": str_keys(spec),
                               "observed (key -> tags)": str_keys(table),
                               "differing_keys": sorted(str(k) for k in set(spec) | set(table) if spec.get(k) != table.get(k)),
                               "reproduce": f"VERIF_SEED={run.seed} bin/check C15 --tier {run.tier}  (case {c.idx})"}, True)
                found = True
                break
        if not found:
            # a class obligation (*_inj / *_ref) broke: the real key identifies two metadata that the
            # pinned rendering separates; build the two-integral form that exposes it
            for c, ab, dec, table, txt, names in texts:
                pairs = [(i, j) for i in range(len(c.pool)) for j in range(i) if ab.cls[i] == ab.cls[j]
                         and ab.refcls[i] != ab.refcls[j]]
                if not pairs:
                    continue
                i, j = pairs[0]
                mesh = uflgen.mesh("triangle")
                c2 = Case()
                c2.idx, c2.append, c2.route, c2.replace, c2.estimate, c2.with_collision = "search", True, "gfi", False, False, False
                c2.pool = [c.pool[i], c.pool[j]]
                c2.tags = [Constant(mesh), Constant(mesh)]
                c2.form = Form([Integral(t, "cell", mesh, 1, m, None) for t, m in zip(c2.tags, c2.pool)])
                ab2 = Abstract(c2)
                dec2 = run_real(c2, ab2)
                if merges(c2, ab2, dec2)[0]:
                    run.violation({"broken": "integrals with different metadata were merged (outside the known-finding class)",
                                   "input": describe(c2, ab2), "observed_outputs": dec2,
                                   "expected": "two output integrals, one per metadata",
                                   "found_from": f"class obligation of case {c.idx}",
                                   "reproduce": f"VERIF_SEED={run.seed} bin/check C15 --tier {run.tier}"}, True)
                    found = True
                    break
        if not found:
            r = bad_files[0]
            run.violation({"broken_obligation": r.failing_lemma(), "file": r.path,
                           "coq_message": (r.err or "")[-1500:],
                           "note": "the implementation's per-key tables equal the specification on all generated "
                                   "cases, but an obligation relating it to the Gallina model no longer checks"}, False)
    # report known finding
    for k, c, ab, dec, bad in wit:
        if bad:
            run.known(f"{k['id']}: {k['what']} [witness replayed: integrals with metadata "
                      f"{[repr(m)[:80] for m in c.pool]} were merged into one integral; "
                      f"{len(known_hits)} generated cases inside the class]")
    run.extra["known_class_hits"] = len(known_hits)
    run.extra["routes"] = {r: sum(1 for t in texts if t[0].route == r) for r in ("gfi", "fd", "cd")}
    run.extra["cases_with_colliding_metadata"] = sum(1 for t in texts if t[0].with_collision)
    run.trusted.update([
        "Coq 8.16.1 kernel (coqc); vm_compute for the correspondence Examples",
        "py/props/C15.py: generator, decoder of output integrands into tags, emission of the abstract input",
        "Python's hash of the canonical metadata tuple is collision free on the generated pools (checked per pool against the tuples)",
        "numpy's str(ndarray) as the pinned rendering that defines the known-finding class",
        "CoordinateDerivative grouping key (sum of hashes) collision free on the generated directions",
    ])
    return run.finish(
        rule="one case per generated form (1-3 domains, dx/ds/dS/dP, int/tuple/everywhere ids, metadata pool incl. "
             "colliding values, routes group_form_integrals / compute_form_data / coordinate derivatives); "
             "distinct = distinct abstract inputs with more than one integral",
        assumptions=["domains passed to group_form_integrals contain every integration domain (as compute_form_data does)",
                     "extra_domain_integral_type_map empty; subdomain_data None",
                     "C15_no_merge_partial: canonicalisation key injective on the metadata occurring in the form"])
