"""C29 - Commutative constructors are order independent.

Model: coq/Props/C29_model.v (hand model of ufl/sorting.py:cmp_expr and of the operand sorting in
Sum/Product/Inner.__new__; theorems for ALL trees: antisymmetry, cmp = Eq <-> equal up to what the
comparator ignores, swap invariance of the constructors, consistency (transitivity) - the latter only on
`aligned` triples, refuted in general by the zip truncation of _cmp_multi_index).

Tie T3 (every run, against $UFL_REPO): seeded pairs and triples of real UFL expressions are mapped to the
model's tree type; Coq evaluates the model on them (vm_compute, generated coq/Gen/C29_*.v) and the results
must equal those of the real cmp_expr / Sum / Product / Inner; independently the property itself is checked
on the real objects (antisymmetry, reflexivity on structurally equal copies, a+b == b+a, a*b == b*a,
inner(a,b) ~ inner(b,a), consistency of triples) - this is the search oracle for failing inputs."""

import itertools
import os
import random

import ufl
from ufl.classes import Conj, Inner, Product, ScalarValue, Sum, Zero
from ufl.sorting import cmp_expr, sorted_expr

import C29_lib as L
import vlib

HAND_FILES = ["Props/C29_model.v", "Props/C29_sorted.v"]

SHARD = 300


# ------------------------------------------------------------------------------------------------
def clone(e, memo=None):
    """A structurally equal copy made of fresh objects (no object identity shared with e)."""
    from ufl.classes import (Argument, Coefficient, Constant, FixedIndex, GeometricQuantity, Index, Label,
                             MultiIndex)
    if memo is None:
        memo = {}
    k = id(e)
    if k in memo:
        return memo[k]
    if e._ufl_is_terminal_:
        if isinstance(e, MultiIndex):
            # new tuple object, same index objects
            r = MultiIndex(tuple(e._indices))
        elif isinstance(e, Coefficient):
            r = Coefficient(e.ufl_function_space(), count=e.count())
        elif isinstance(e, Constant):
            r = Constant(e.ufl_domain(), e.ufl_shape, count=e.count())
        elif isinstance(e, Argument):
            r = Argument(e.ufl_function_space(), e.number(), e.part())
        elif isinstance(e, Label):
            r = Label(e.count())
        elif isinstance(e, GeometricQuantity):
            r = type(e)(e._domain)
        else:
            r = e
    else:
        r = e._ufl_expr_reconstruct_(*[clone(o, memo) for o in e.ufl_operands])
    memo[k] = r
    return r


def closed_scalar(e):
    try:
        return e.ufl_shape == () and e.ufl_free_indices == ()
    except Exception:
        return False


def is_lit(e):
    return isinstance(e, ScalarValue | Zero)


def inner_core(x):
    return x.ufl_operands[0] if isinstance(x, Conj) else x


def witness():
    """The known-finding witness, built from fresh objects: A[0,1] > B[0] > C[0,2] > A[0,1]."""
    w = L.World.__new__(L.World)
    import elements
    m = ufl.Mesh(elements.LagrangeElement(ufl.triangle, 1, (2,)))

    def V(sh):
        return ufl.FunctionSpace(m, elements.LagrangeElement(ufl.triangle, 1, sh))
    C = ufl.Coefficient(V((3, 3)))
    B = ufl.Coefficient(V((3,)))
    A = ufl.Coefficient(V((3, 3)))
    return A[0, 1], B[0], C[0, 2]


def describe(e):
    return {"str": str(e)[:600], "repr": repr(e)[:3000]}


# ------------------------------------------------------------------------------------------------
def main(run):
    tier = run.tier
    rng = random.Random(run.seed * 7919 + 29)
    known = {k["id"]: k for k in vlib.load_known_findings("C29")}
    world = L.World()
    mp = L.Mapper()

    # -- which comparator does the tree under test implement: as pinned, or with the repair?
    wa, wb, wc = witness()
    wres = (cmp_expr(wa, wb), cmp_expr(wb, wc), cmp_expr(wc, wa))
    cyc = wres == (1, 1, 1)
    wt = [mp.tree(x) for x in (wa, wb, wc)]
    strict = not cyc and wres == tuple(L.m_cmp(wt[i], wt[j], True) for i, j in ((0, 1), (1, 2), (2, 0)))
    S = "true" if strict else "false"

    # -- families of related expressions
    fams = [(n, es) for n, es in L.targeted(world)]
    fams.append(("witness", [wa, wb, wc]))
    gen_errors = []
    nrand = 60 if tier == "quick" else 500
    for k in range(nrand):
        depth = 1 + (k % 3)
        try:
            fams.append((f"rand{k}", L.gen_family(world, rng, depth, 3)))
        except RecursionError:
            gen_errors.append(f"rand{k}")
    # tensor-valued families for Inner
    tfams = []
    tensor_terms = {
        (2,): [ufl.SpatialCoordinate(m) for m in world.meshes] + [ufl.FacetNormal(world.m1), ufl.FacetNormal(world.m2)],
        (2, 2): [ufl.Identity(2), ufl.PermutationSymbol(2), ufl.Jacobian(world.m1), ufl.JacobianInverse(world.m1),
                 ufl.Jacobian(world.m2), ufl.JacobianInverse(world.m2)],
        (3,): [],
        (3, 3): [ufl.Identity(3)],
        (2, 2, 2): [],
    }
    for sh in [(2,), (2, 2), (3,), (3, 3)]:
        tfams.append((f"tensors{sh}", [t for t in world.coefs[sh]] + list(world.consts.get(sh, [])) +
                      list(world.args.get(sh, [])) + tensor_terms[sh]))
    tfams.append(("tensors(3, 3, 3)", [ufl.PermutationSymbol(3)]))
    for k in range(12 if tier == "quick" else 100):
        sh = [(2,), (2, 2), (3,)][k % 3]
        try:
            tfams.append((f"trand{k}", L.gen_tensors(world, rng, sh, 2, 3)))
        except RecursionError:
            gen_errors.append(f"trand{k}")

    viol = []          # (kind, data)
    disagreements = []
    known_instances = []
    pair_cases, triple_cases, ctor_cases, sort_cases = [], [], [], []
    tcS, tcP, tcI, tcC = (c._ufl_typecode_ for c in (Sum, Product, Inner, Conj))
    scalar_tcs = sorted({c._ufl_typecode_ for c in ufl.classes.all_ufl_classes if issubclass(c, ScalarValue)})
    hist = {}

    def tree(e):
        return mp.tree(e)

    def check_pair(fam, a, b, pre=None):
        ta, tb = tree(a), tree(b)
        rab, rba = pre if pre is not None else (cmp_expr(a, b), cmp_expr(b, a))
        run.count_case(("pair", ta, tb), nontrivial=ta != tb)
        hist[("pair", fam.rstrip("0123456789"))] = hist.get(("pair", fam.rstrip("0123456789")), 0) + 1
        pair_cases.append((ta, tb, rab, rba))
        if rab != -rba or rab not in (-1, 0, 1):
            viol.append(("antisymmetry", {"a": describe(a), "b": describe(b), "cmp_expr(a,b)": rab,
                                          "cmp_expr(b,a)": rba, "expected": "cmp_expr(a,b) == -cmp_expr(b,a)"}))
        mab = L.m_cmp(ta, tb, strict)
        if mab != rab or L.m_cmp(tb, ta, strict) != rba:
            disagreements.append({"a": describe(a), "b": describe(b), "real": [rab, rba],
                                  "model": [mab, L.m_cmp(tb, ta, strict)]})
        dist = L.m_erase(ta) != L.m_erase(tb)
        al = L.m_aligned(ta, tb) or strict
        if dist and al and rab == 0:
            viol.append(("indistinct", {"a": describe(a), "b": describe(b), "cmp_expr(a,b)": 0,
                                        "expected": "nonzero: the operands differ in more than index/label numbers"}))
        return ta, tb, dist, al

    def check_ctor(a, b, ta, tb, dist, al):
        try:
            summable = (a.ufl_shape == b.ufl_shape and a.ufl_free_indices == b.ufl_free_indices and
                        a.ufl_index_dimensions == b.ufl_index_dimensions)
        except Exception:      # noqa: BLE001  (ExprList, Label, ... have no shape)
            return
        if not summable:
            return
        if isinstance(a, Zero) or isinstance(b, Zero):
            return
        b2, a2 = clone(b), clone(a)
        ops = [("sum", lambda x, y: Sum(x, y), Sum, tcS)]
        if closed_scalar(a) and closed_scalar(b):
            ops.append(("product", lambda x, y: x * y, Product, tcP))
        for nm, op, cls, tc in ops:
            s1, s2 = op(a, b), op(b2, a2)
            if dist and al and not (s1 == s2):
                viol.append((nm + "-swap", {"a": describe(a), "b": describe(b), "a op b": describe(s1),
                                            "b op a": describe(s2), "expected": "a op b == b op a"}))
            if isinstance(s1, cls) and not (is_lit(a) and is_lit(b)) and \
                    not any(is_lit(x) and x._value == 1 for x in (a, b)):
                ctor_cases.append((nm, tc, ta, tb, tree(s1)))

    def check_inner(a, b):
        ta, tb = tree(a), tree(b)
        if isinstance(a, Zero) or isinstance(b, Zero) or a.ufl_shape != b.ufl_shape or a.ufl_shape == ():
            return
        try:
            i1, i2 = ufl.inner(a, b), ufl.inner(clone(b), clone(a))
        except ValueError:
            return
        except RecursionError:
            viol.append(("inner-nontermination", {"a": describe(a), "b": describe(b),
                                                  "observed": "inner(a, b) recurses forever (RecursionError)",
                                                  "expected": "Inner.__new__ terminates (model: C29_inner_terminates, "
                                                              "a consequence of antisymmetry)"}))
            return
        dist = L.m_erase(ta) != L.m_erase(tb)
        al = L.m_aligned(ta, tb) or strict
        c1, c2 = inner_core(i1), inner_core(i2)
        ok = c1 == c2 and (isinstance(i1, Conj) != isinstance(i2, Conj) or a == b)
        if dist and al and not ok:
            viol.append(("inner-swap", {"a": describe(a), "b": describe(b), "inner(a,b)": describe(i1),
                                        "inner(b,a)": describe(i2),
                                        "expected": "same Inner node, exactly one of the two wrapped in Conj"}))
        if isinstance(c1, Inner):
            ctor_cases.append(("inner", (tcI, tcC), ta, tb, tree(i1)))

    def check_triple(fam, es, emit=True):
        ts = [tree(e) for e in es]
        r = {}
        for i, j in itertools.permutations(range(3), 2):
            r[i, j] = cmp_expr(es[i], es[j])
        al = all(L.m_aligned(ts[i], ts[j]) for i, j in ((0, 1), (1, 2), (0, 2)))
        bad = [p for p in itertools.permutations(range(3)) if not L.m_t3(r[p[0], p[1]], r[p[1], p[2]], r[p[0], p[2]])]
        run.count_case(("triple",) + tuple(ts), nontrivial=len(set(ts)) == 3)
        if bad:
            rec = {"a": describe(es[0]), "b": describe(es[1]), "c": describe(es[2]),
                   "cmp_expr": {f"{i}{j}": v for (i, j), v in r.items()},
                   "expected": "a consistent total preorder (transitive)"}
            if not al and not strict and "multiindex-zip-truncation" in known:
                known_instances.append(rec)
            else:
                viol.append(("transitivity", rec))
        # n-ary sorting (sorted_expr as used by build_integral_data / derivative): all 6 orders of the triple
        outs = {}
        for p in itertools.permutations(range(3)):
            o = sorted_expr([es[i] for i in p])
            outs[p] = tuple(next(i for i in range(3) if es[i] is x) for x in o)
        dist3 = len({L.m_erase(t) for t in ts}) == 3
        hist["sorted_triples"] = hist.get("sorted_triples", 0) + 1
        if dist3 and (al or strict) and len({tuple(ts[i] for i in o) for o in outs.values()}) > 1:
            viol.append(("sorted-order-dependence",
                         {"a": describe(es[0]), "b": describe(es[1]), "c": describe(es[2]),
                          "sorted_expr of the 6 orders (positions in a,b,c)": {str(p): list(o) for p, o in outs.items()},
                          "expected": "one and the same list for all orders (C29_sort_order_independent)"}))
        if emit:
            triple_cases.append((ts[0], ts[1], ts[2], r[0, 1], r[1, 2], r[0, 2], al))
            if al or strict:
                for p in ((0, 1, 2), (2, 0, 1), (1, 0, 2)):
                    sort_cases.append((tuple(ts[i] for i in p), tuple(ts[i] for i in outs[p])))

    # -- run everything on the real code
    maxtri = 60 if tier == "quick" else 800
    for fam, es in fams:
        # all comparisons of the family first: Expr.__eq__ (used by the other oracles) makes equal nodes share
        # their operand tuples, which would hide what cmp_expr does on separately built equal subtrees
        pre = {(i, j): (cmp_expr(es[i], es[j]), cmp_expr(es[j], es[i]))
               for i, j in itertools.combinations(range(len(es)), 2)}
        for a in es:
            a2 = clone(a)
            ta = tree(a)
            r1, r2 = cmp_expr(a, a2), cmp_expr(a2, a)
            pair_cases.append((ta, tree(a2), r1, r2))
            if not (a2 == a) or tree(a2) != ta:
                viol.append(("clone", {"a": describe(a), "copy": describe(a2),
                                       "expected": "rebuilding an expression from equal operands gives an equal expression"}))
            elif r1 != 0 or r2 != 0:
                viol.append(("reflexivity", {"a": describe(a), "cmp_expr(a, equal copy of a)": r1,
                                             "expected": 0}))
        for i, j in itertools.combinations(range(len(es)), 2):
            a, b = es[i], es[j]
            ta, tb, dist, al = check_pair(fam, a, b, pre[i, j])
            check_ctor(a, b, ta, tb, dist, al)
        tri = list(itertools.combinations(range(len(es)), 3))
        if len(tri) > maxtri:
            keep = set(rng.sample(range(len(tri)), maxtri))
        else:
            keep = None
        for n, ix in enumerate(tri):
            check_triple(fam, [es[i] for i in ix], emit=keep is None or n in keep)
        # longer lists: a sublist of 4..12 family members in several shuffled orders
        if len(es) >= 4:
            nshuf = 3 if tier == "quick" else 10
            for rep in range(2 if tier == "quick" else 6):
                k = rng.randint(4, min(12, len(es)))
                sub = rng.sample(range(len(es)), k)
                tsub = {i: tree(es[i]) for i in sub}
                alN = strict or all(L.m_aligned(tsub[i], tsub[j]) for i, j in itertools.combinations(sub, 2))
                distN = len({L.m_erase(t) for t in tsub.values()}) == k
                outsN = []
                for sh in range(nshuf):
                    order = sub[:]
                    rng.shuffle(order)
                    o = sorted_expr([es[i] for i in order])
                    oi = [next(i for i in order if es[i] is x) for x in o]
                    outsN.append((order, oi))
                    if alN and sh < 2:
                        sort_cases.append((tuple(tsub[i] for i in order), tuple(tsub[i] for i in oi)))
                hist["sorted_lists"] = hist.get("sorted_lists", 0) + 1
                hist["sorted_list_maxlen"] = max(hist.get("sorted_list_maxlen", 0), k)
                if alN and distN and len({tuple(tsub[i] for i in oi) for _, oi in outsN}) > 1:
                    viol.append(("sorted-order-dependence",
                                 {"operands": [describe(es[i])["str"] for i in sub],
                                  "orders given -> sorted_expr result (positions in the family)":
                                      [[order, oi] for order, oi in outsN],
                                  "expected": "one and the same list for all orders (C29_sort_order_independent)"}))
    for fam, es in tfams:
        for a, b in itertools.combinations(es, 2):
            ta, tb, dist, al = check_pair(fam, a, b)
            check_ctor(a, b, ta, tb, dist, al)
            check_ctor(b, a, tb, ta, dist, al)
            check_inner(a, b)
            check_inner(b, a)

    # Argument parts None vs int: Python raises TypeError (outside the model: documented)
    try:
        cmp_expr(world.args[()][0], world.part_args[0])
        parts_raise = False
    except TypeError:
        parts_raise = True
    run.extra["argument_part_None_vs_int_raises_TypeError"] = parts_raise
    for a, b in itertools.combinations(world.part_args, 2):
        check_pair("parts", a, b)

    import time
    run.extra['python_phase_s'] = round(time.time() - run.t0, 1)
    # -- Coq: the model evaluated on the same inputs
    files = []
    items = [("pair", c) for c in pair_cases] + [("triple", c) for c in triple_cases] + [("ctor", c) for c in ctor_cases] + \
            [("sort", c) for c in sort_cases]
    # dedupe
    seen, uniq = set(), []
    for it in items:
        if it not in seen:
            seen.add(it)
            uniq.append(it)
    if tier == "quick":     # bound the number of constructor cases evaluated by Coq in the quick tier
        cc = [u for u in uniq if u[0] == "ctor"]
        if len(cc) > 900:
            drop = set(map(id, rng.sample(cc, len(cc) - 900)))
            uniq = [u for u in uniq if id(u) not in drop]
    lemma_info = {}
    BATCH = 20
    for sh in range(0, len(uniq), SHARD):
        em = L.Emitter()
        eqs, bools = [], []
        for n, (kind, c) in enumerate(uniq[sh:sh + SHARD]):
            if kind == "pair":
                ta, tb, rab, rba = c
                bools.append(((kind, c), f"check_pair {S} {em.name(ta)} {em.name(tb)} {L.CMPNAME.get(rab, 'Eq')} "
                                         f"{L.CMPNAME.get(rba, 'Eq')}"))
            elif kind == "triple":
                ta, tb, tc, r1, r2, r3, al = c
                bools.append(((kind, c), f"check_triple {S} {em.name(ta)} {em.name(tb)} {em.name(tc)} {L.CMPNAME[r1]} "
                                         f"{L.CMPNAME[r2]} {L.CMPNAME[r3]} {'true' if al else 'false'}"))
            elif kind == "sort":
                tin, tout = c
                eqs.append(((kind, ("sort",) + c), "sort_model %s [%s]" % (S, "; ".join(em.name(t) for t in tin)),
                            "[%s]" % "; ".join(em.name(t) for t in tout)))
            else:
                op, tc, ta, tb, tout = c
                sc = "[" + "; ".join(em.num(x) for x in scalar_tcs) + "]"
                if op == "inner":
                    eqs.append(((kind, c), f"inner_model {S} {em.num(tc[0])} {em.num(tc[1])} {em.name(ta)} {em.name(tb)}",
                                f"Some {em.name(tout)}"))
                else:
                    eqs.append(((kind, c), f"{op}_model {S} {em.num(tc)} {sc} {em.name(ta)} {em.name(tb)}", em.name(tout)))
        body = []
        for k in range(0, len(bools), BATCH):
            nm = f"s{sh // SHARD}_cmp{k // BATCH}"
            lemma_info[nm] = [x[0] for x in bools[k:k + BATCH]]
            body.append(f"Example {nm} : forallb (fun b => b) [{'; '.join(x[1] for x in bools[k:k + BATCH])}] = true.\n"
                        "Proof. vm_cast_no_check (eq_refl true). Qed.")
        for tag, ty, sel in (("ctor", "list tree", [x for x in eqs if x[0][1][0] not in ("inner", "sort")]),
                             ("sort", "list (list tree)", [x for x in eqs if x[0][1][0] == "sort"]),
                             ("inner", "list (option tree)", [x for x in eqs if x[0][1][0] == "inner"])):
            for k in range(0, len(sel), BATCH):
                nm = f"s{sh // SHARD}_{tag}{k // BATCH}"
                lemma_info[nm] = [x[0] for x in sel[k:k + BATCH]]
                lhs = "[" + "; ".join(x[1] for x in sel[k:k + BATCH]) + "]"
                rhs = "[" + "; ".join(x[2] for x in sel[k:k + BATCH]) + "]"
                body.append(f"Example {nm} : ({lhs} : {ty}) = {rhs}.\nProof. vm_compute. reflexivity. Qed.")
        text = L.HEADER + "\n".join(em.lines) + "\n\n" + "\n".join(body) + "\n"
        path = os.path.join(vlib.GEN, f"C29_cases_{sh // SHARD}.v")
        vlib.write_if_changed(path, text)
        files.append(path)
    # stale shards from earlier runs
    k = len(files)
    while os.path.exists(os.path.join(vlib.GEN, f"C29_cases_{k}.v")):
        os.remove(os.path.join(vlib.GEN, f"C29_cases_{k}.v"))
        k += 1

    for hf in HAND_FILES:
        hand = vlib.coqc(hf)
        run.add_coq_result(hand)
        if not hand.ok:
            run.violation({"broken": f"coq/{hf} does not compile", "error": hand.err[-1500:]}, False)
    results = vlib.coqc_many(files)
    coq_fail = []
    for res in results:
        run.add_coq_result(res)
        if not res.ok:
            coq_fail.append((os.path.basename(res.path), res.failing_lemma(), (res.err or "")[-300:]))

    # -- verdict
    prio = {"sum-swap": 0, "product-swap": 0, "inner-swap": 0, "sorted-order-dependence": 0, "inner-nontermination": 1, "antisymmetry": 1,
            "reflexivity": 2, "clone": 2, "transitivity": 3, "indistinct": 4}
    viol.sort(key=lambda v: prio.get(v[0], 5))
    reported = set()
    for kind, data in viol:
        if kind in reported and len(reported) > 0 and sum(1 for _ in run.violations) >= 6:
            continue
        reported.add(kind)
        data = dict(data)
        data["violated"] = kind
        data["failing_input"] = {x: data[x]["repr"] for x in ("a", "b", "c") if isinstance(data.get(x), dict)}
        data["observed"] = {x: (v["str"] if isinstance(v, dict) and "str" in v else v) for x, v in data.items()
                            if x not in ("a", "b", "c", "expected", "violated", "failing_input")}
        data["reproduce"] = ("bin/check C29; or: from ufl.classes import *; from elements import *; import utils-free "
                             "eval() of failing_input (reprs are eval()-able with py/elements.py as `utils`), then "
                             "evaluate the violated law (cmp_expr / a+b == b+a / a*b == b*a / inner).  NB: the operands are DAGs - "
                             "subexpressions that occur twice inside one operand are one shared object (py/C29_lib.py "
                             "builds them: targeted(), crossed(), gen_family()); evaluate cmp_expr before any `==`, which "
                             "makes equal nodes share operand tuples")
        if len(run.violations) < 8:
            run.violation(data, True)
    if gen_errors and not viol:
        run.violation({"broken": "RecursionError while building generated expressions", "families": gen_errors[:5]}, False)
    if (disagreements or coq_fail) and not viol:
        run.violation({"broken": "correspondence between the Coq model of cmp_expr/Sum/Product/Inner and the "
                                 "implementation (no violation of the property itself was found on the real code)",
                       "python_mirror_disagreements": disagreements[:5],
                       "failing_coq_examples": coq_fail[:5]}, False)
    elif (disagreements or coq_fail):
        run.extra["model_disagreements"] = {"mirror": len(disagreements), "coq": coq_fail[:5]}

    # -- known finding: replay the witness
    kf = known.get("multiindex-zip-truncation")
    if kf is not None and cyc:
        run.known("cmp_expr is not transitive: A[0,1] > B[0] > C[0,2] > A[0,1] (zip truncation in "
                  f"_cmp_multi_index); {len(known_instances)} generated triples in the class 'not aligned' are "
                  "inconsistent; model theorem C29_cmp_consistent_refuted")
    elif cyc and kf is None:
        run.violation({"violated": "transitivity", "a": describe(wa), "b": describe(wb), "c": describe(wc),
                       "cmp_expr(a,b), cmp_expr(b,c), cmp_expr(c,a)": list(wres)}, True)
    if mp.unknown_comparators:
        run.extra["unknown_terminal_comparators_modelled_as_repr"] = sorted(mp.unknown_comparators)
    run.extra["comparator_variant"] = "repaired (_cmp_multi_index compares lengths)" if strict else "pinned"
    run.extra["known_class_instances"] = len(known_instances)
    run.extra["case_histogram"] = {"pairs": len(pair_cases), "triples_emitted": len(triple_cases),
                                   "constructor_cases": len(ctor_cases), "families": len(fams) + len(tfams),
                                   "sorted_expr_triples_all_6_orders": hist.get("sorted_triples", 0),
                                   "sorted_expr_cases_vs_isort": len(sort_cases),
                                   "sorted_expr_lists_len_4_to_12": hist.get("sorted_lists", 0),
                                   "sorted_expr_list_maxlen": hist.get("sorted_list_maxlen", 0)}
    for kind, c in [u for u in uniq if u[0] == "pair"][:2] + [u for u in uniq if u[0] == "triple"][:2] + \
            [u for u in uniq if u[0] == "ctor"][:2]:
        run.sample({"kind": kind, "case": str(c)[:300]})
    run.trusted.update([
        "Coq 8.16.1 kernel (coqc), vm_compute",
        "py/C29_lib.py: mapping of UFL expressions to the model's tree type (type code, operands, terminal data "
        "as read by the comparators, repr split into literal text and counters; fail closed) - the mapping of repr "
        "is round-trip checked, the rest is what the correspondence samples",
        "T3: agreement of model and implementation is sampled (seeded generator), not proved",
        "CPython list.sort on two elements asks cmp(b, a) < 0 once (model of sorted_expr on pairs)",
        "n-ary sorted_expr: CPython's sorted() returns a stable sorted permutation (the theorems use only "
        "'sorted permutation'; the executable model isort is compared with the real output on operand triples)",
    ])
    return run.finish(
        rule="case = pair (both directions), triple (3 results + class flag) or constructor output of real "
             "expressions; distinct = distinct mapped trees; every case is one Coq Example evaluated by vm_compute",
        assumptions=["Argument parts are either both None or both ints (Python raises TypeError otherwise)",
                     "swap theorems: constant folding and Zero merging commute (Section hypotheses)"])


def replay(run, data):
    print(data)
    return 0
