"""C10 - Index rewriting passes are value-preserving and hygienic.

Hand-written, unbounded (coq/Props/C10_{model,lemmas,thm,inj,expand,refuted}.v): Gallina models of
IndexReplacer (`irep`, faithful: not capture avoiding), remove_component_tensors (`rct`),
renumber_indices (`irep` with the relabelling map) and expand_indices (`expand`); theorems by
induction on the expression for every UFL algebra / environment / valuation / valid component.

Per run (this file):
  T2  the REAL remove_component_tensors / renumber_indices / expand_indices are run on generated
      expressions (typed generator, knobs for re-used index objects, shadowing, nested component
      tensors, zeros with free indices, variables used twice, list tensors; plus a hygienic
      stream); Coq proves den(out) = den(in) for all operand values, every valuation of the
      free indices and every component, and checks shape/fidx of the output;
  T3  the Gallina models are run on the same serialised inputs inside Coq and compared with the
      implementation's output: structurally (`model in = Some out` by computation) or, when a
      constructor simplification of UFL changed the tree, by a Coq proof that both have the same
      value for all operand values; the side conditions of the unbounded theorems (`rk`,
      `rct_safe`, `safe m`) are evaluated on every input, so that for those inputs the property
      follows from the theorem.
Known findings (known/C10.json) are replayed on the real code; a failing input is attributed to
one only if it satisfies the class predicate (evaluated in Coq) -- anything else is a VIOLATION."""

import concurrent.futures as cf
import itertools
import random

import ufl
from ufl.algorithms.expand_indices import expand_indices
from ufl.algorithms.remove_component_tensors import remove_component_tensors
from ufl.algorithms.renumbering import IndexRelabeller, renumber_indices
from ufl.classes import (ComponentTensor, FixedIndex, Index, Indexed, IndexSum, IntValue, ListTensor,
                         MultiIndex, Product, Zero)
from ufl.corealg.map_dag import map_expr_dag

import C10_gen
import C10_lib
import coqgen
import ufl2coq
import uflgen
import vlib

HAND_FILES = ["Props/C10_model.v", "Props/C10_lemmas.v", "Props/C10_thm.v", "Props/C10_inj.v",
              "Props/C10_expand.v", "Props/C10_expandk.v", "Props/C10_refuted.v", "Props/C10_wf.v"]

REQUIRE = ("Require Import UFLV.Props.C10_model UFLV.Props.C10_expand UFLV.Props.C10_expandk "
           "UFLV.Props.C10_wf.\n")
EXTRA_HEADER = r'''
Definition oden s rho (o : option expr) c : KT := match o with Some e => DEN s rho e c | None => z0 end.
(* UFL's Conditional constructor returns the branch when both branches are equal: the algebra law it uses *)
Hypothesis cond_same : forall b x, cond_ b x x = x.
(* make the arguments of equal uninterpreted symbols (cmp, cond, min, max, pow, atan2) equal *)
Ltac arg_eq2 := first [ reflexivity | ring | field; nz_solve char0 ].
Ltac unify2 :=
  match goal with
  | |- context [cmp ?o ?X1 ?Y1] =>
      match goal with
      | |- context [cmp o ?X2 ?Y2] =>
          lazymatch constr:((X1, Y1)) with (X2, Y2) => fail | _ => idtac end;
          replace (cmp o X1 Y1) with (cmp o X2 Y2) by (f_equal; arg_eq2)
      end
  | |- context [cond_ ?B1 ?X1 ?Y1] =>
      match goal with
      | |- context [cond_ ?B2 ?X2 ?Y2] =>
          lazymatch constr:((B1, X1, Y1)) with (B2, X2, Y2) => fail | _ => idtac end;
          replace (cond_ B1 X1 Y1) with (cond_ B2 X2 Y2) by (f_equal; arg_eq2)
      end
  | |- context [min_ ?X1 ?Y1] =>
      match goal with
      | |- context [min_ ?X2 ?Y2] =>
          lazymatch constr:((X1, Y1)) with (X2, Y2) => fail | _ => idtac end;
          replace (min_ X1 Y1) with (min_ X2 Y2) by (f_equal; arg_eq2)
      end
  | |- context [max_ ?X1 ?Y1] =>
      match goal with
      | |- context [max_ ?X2 ?Y2] =>
          lazymatch constr:((X1, Y1)) with (X2, Y2) => fail | _ => idtac end;
          replace (max_ X1 Y1) with (max_ X2 Y2) by (f_equal; arg_eq2)
      end
  | |- context [pow ?X1 ?Y1] =>
      match goal with
      | |- context [pow ?X2 ?Y2] =>
          lazymatch constr:((X1, Y1)) with (X2, Y2) => fail | _ => idtac end;
          replace (pow X1 Y1) with (pow X2 Y2) by (f_equal; arg_eq2)
      end
  end.
Ltac close2 := norm_goal; rewrite ?cond_same; first [ reflexivity | ring | field; nz_solve char0
                 | repeat first [ unify1 | unify2 ]; rewrite ?cond_same;
                   first [ reflexivity | ring | field; nz_solve char0 ] ].
Ltac t3v := intros; repeat split; close2.
'''

TIERS = {"quick": dict(n=75, depth=3), "thorough": dict(n=600, depth=4)}
MAIN_THEOREMS = ["C10_thm.den_ext_on", "C10_thm.C10_irep_den", "C10_thm.C10_remove_partial",
                 "C10_thm.C10_renumber", "C10_inj.C10_renumber_injective", "C10_expand.C10_expand_partial",
                 "C10_expandk.C10_expandK_expand0", "C10_expandk.C10_expand_full",
                 "C10_refuted.C10_remove_refuted", "C10_refuted.C10_remove_zero_fixed",
                 "C10_refuted.C10_expand_refuted"]


# ------------------------------------------------------------------------------------------------
# known findings: witnesses rebuilt from the JSON description and replayed on the real code

def witness_capture():
    A = uflgen.coef((2, 2))
    c = uflgen.coef((2,))
    i, j = Index(), Index()
    body = IndexSum(Product(Indexed(A, MultiIndex((i, j))), Indexed(c, MultiIndex((j,)))), MultiIndex((j,)))
    return Indexed(ComponentTensor(body, MultiIndex((i,))), MultiIndex((j,)))


def witness_variable():
    f = uflgen.coef((2,))
    v = ufl.variable(f)
    return v[0] + 2 * v[1]


def witness_zero():
    f = uflgen.coef((2,))
    i, j = Index(), Index()
    z = Zero((), (i.count(),), (2,))
    lt = ListTensor(z, Indexed(f, MultiIndex((i,))))
    ct = ComponentTensor(Indexed(lt, MultiIndex((j,))), MultiIndex((i, j)))
    return Indexed(ct, MultiIndex((FixedIndex(1), FixedIndex(0))))


def witness_ct_shortcut():
    f, g = uflgen.coef((2, 2)), uflgen.coef((2, 2))
    p, q, j = Index(), Index(), Index()
    lt = ListTensor(Indexed(f, MultiIndex((p, j))), Indexed(g, MultiIndex((p, j))))
    inner = ComponentTensor(Indexed(lt, MultiIndex((q,))), MultiIndex((p, q)))
    return ComponentTensor(Indexed(inner, MultiIndex((j, j))), MultiIndex((j,)))


def ct_shortcut_class(e):
    """class predicate of componenttensor-shortcut-dependent (decidable on the input, evaluated
    with the implementation on sub-expressions): some ComponentTensor(B, ix) of e has a body that
    the pass rewrites to Indexed(A, ix) with A depending on an index of ix -- the constructor
    shortcut as_tensor(A[ix], ix) -> A then drops the binding"""
    from ufl.corealg.traversal import unique_pre_traversal
    for x in unique_pre_traversal(e):
        if isinstance(x, ComponentTensor):
            body, ix = x.ufl_operands
            try:
                r = remove_component_tensors(body)
            except Exception:   # noqa: BLE001
                continue
            if isinstance(r, Indexed) and r.ufl_operands[1] == ix and \
                    {i.count() for i in ix} & set(r.ufl_operands[0].ufl_free_indices):
                return True
    return False


KNOWN = {
    "componenttensor-shortcut-dependent": (witness_ct_shortcut, remove_component_tensors),
    "indexreplacer-capture": (witness_capture, remove_component_tensors),
    "expand-variable-cache": (witness_variable, expand_indices),
}


def replay_known(run, known):
    """-> set of ids of known findings that still reproduce on the tree under test"""
    live = set()
    for k in known:
        kid = k.get("id")
        if kid not in KNOWN:
            continue
        mk, fn = KNOWN[kid]
        e = mk()
        try:
            o = fn(e)
        except Exception as ex:   # noqa: BLE001
            if kid == "componenttensor-shortcut-dependent":
                live.add(kid)
                run.known(f"id={kid} {fn.__name__}({e}) raises {type(ex).__name__}: {ex}")
            continue
        w = C10_lib.mismatch(o, e, trials=4, seed=1)
        if w:
            live.add(kid)
            run.known(f"id={kid} {fn.__name__}({e}) = {o}: {w['kind']} differs "
                      f"(implementation {w.get('implementation_value', w.get('implementation'))}, "
                      f"expected {w.get('expected_value', w.get('expected'))})")
    return live


# ------------------------------------------------------------------------------------------------

def relabel_map(e):
    """the Index -> Index map IndexRelabeller builds on e, and its output"""
    r = IndexRelabeller()
    out = map_expr_dag(r, e)
    return out, {i.count(): j.count() for i, j in r.index_cache.items()}


def preseed(ctx, e):
    """number the indices of e in the order of their counts (the model of Zero handling sorts by id)"""
    from ufl.corealg.traversal import unique_pre_traversal
    cs = set()
    for x in unique_pre_traversal(e):
        if isinstance(x, MultiIndex):
            cs.update(i.count() for i in x if isinstance(i, Index))
        elif isinstance(x, ufl.core.expr.Expr) and not isinstance(x, ufl.classes.Label):
            cs.update(x.ufl_free_indices)
    for c in sorted(cs):
        ctx.index(c)


def vals_text(case, fin, fout, lhs, rhs):
    """conjunction over all valuations and components of lhs(v,c) = rhs(v,c)"""
    parts = []
    Fin, Fout = C10_lib.pairs(case.ctx, fin), C10_lib.pairs(case.ctx, fout)
    for v in itertools.product(*[range(d) for _, d in fin]):
        for c in itertools.product(*[range(d) for d in case.inp.ufl_shape]):
            vl, cl = ufl2coq.natlist(v), ufl2coq.natlist(c)
            parts.append(f"({lhs(Fout, vl, cl)} = {rhs(Fout, vl, cl)})")
    return " /\\ ".join(parts + ["True"])


def wf_example(case):
    nm = case.name
    return (f"Example {nm}_wf : implb (wfdims {nm}_in) (wfdims {nm}_out) = true. "
            f"Proof. vm_compute. reflexivity. Qed.\n", f"{nm}_wf")


def t3_lemma(case, model_term, fout, allow_none=False):
    """model(in) = Some out structurally, or (value level) both have the same value everywhere"""
    nm = case.name
    body = vals_text(case, C10_lib.free_of(case.inp), fout,
                     lambda F, v, c: f"oden s (upds rho {F} {v}) ({model_term}) {c}",
                     lambda F, v, c: f"DEN s (upds rho {F} {v}) {nm}_out {c}")
    extra = f" \\/ {model_term} = None" if allow_none else ""
    last = " | right; right; vm_compute; reflexivity" if allow_none else ""
    mid = "right; left" if allow_none else "right"
    return (f"Lemma {nm}_t3 : {model_term} = Some {nm}_out \\/ "
            f"({model_term} <> None /\\ forall s rho, {body}){extra}.\n"
            f"Proof. first [ left; vm_compute; reflexivity "
            f"| idtac \"T3V {nm}\"; {mid}; split; [vm_compute; discriminate|t3v]{last} ]. Qed.\n")


VARIANT = {"expand_cache": "label"}     # which Gallina model of IndexExpander's variable cache applies


def detect_variants(run):
    """T1-style inspection of the source under test: does IndexExpander define its own `variable`
    handler whose cache key contains the component and the index values (the repaired variant,
    modelled by C10_expandk.expandK), or does it inherit Transformer.reuse_variable (cache keyed by
    the label alone, modelled by C10_expand.expandS)?  A wrong selection breaks the T3 lemmas."""
    import ast
    import inspect
    import importlib
    mod = importlib.import_module("ufl.algorithms.expand_indices")
    VARIANT["expand_cache"] = "label"
    try:
        tree = ast.parse(inspect.getsource(mod))
        for node in ast.walk(tree):
            if isinstance(node, ast.ClassDef) and node.name == "IndexExpander":
                for fn in node.body:
                    if isinstance(fn, ast.FunctionDef) and fn.name == "variable":
                        src = ast.unparse(fn)
                        if "component" in src and "_index2value" in src and "_variable_cache" in src:
                            VARIANT["expand_cache"] = "context"
    except (OSError, SyntaxError):
        pass
    run.extra["model_variants"] = dict(VARIANT)


FIXED = set()     # known findings listed in known/C10.json that no longer reproduce (a fix was applied)


def add_wf(case, txt, names):
    if case.out is not None:
        t, n = wf_example(case)
        txt.append(t)
        names.append(n)


def extra_rct(known_instance, crash):
    def f(case, ser):
        nm = case.name
        rank = len(case.inp.ufl_shape)
        txt, names = [], []
        txt.append(f"Example {nm}_rk : rk {nm}_in {rank} = true. Proof. vm_compute. reflexivity. Qed.\n")
        names.append(f"{nm}_rk")
        if crash == "capture":
            txt.append(f"Example {nm}_class : rct_safe {nm}_in = false. Proof. vm_compute. reflexivity. Qed.\n")
            names.append(f"{nm}_class")
            return "".join(txt), names
        if known_instance:
            txt.append(f"Example {nm}_class : rct_safe {nm}_in = false. Proof. vm_compute. reflexivity. Qed.\n")
            names.append(f"{nm}_class")
        elif case.note.get("hygienic"):
            # the side condition of C10_remove_partial holds: the theorem applies to this input
            txt.append(f"Example {nm}_safe : rct_safe {nm}_in = true. Proof. vm_compute. reflexivity. Qed.\n")
            names.append(f"{nm}_safe")
        add_wf(case, txt, names)
        if "indexreplacer-capture" in FIXED and not case.note.get("hygienic"):
            return "".join(txt), names       # the model reproduces the (fixed) capture: no T3 on this class
        txt.append(t3_lemma(case, f"rct {nm}_in", C10_lib.free_of(case.inp)))
        names.append(f"{nm}_t3")
        return "".join(txt), names
    return f


def extra_ren(rename):
    def f(case, ser):
        nm = case.name
        rank = len(case.inp.ufl_shape)
        m = "[" + "; ".join(f"({case.ctx.index(a)}, Free {case.ctx.index(b)})" for a, b in sorted(rename.items())) + "]"
        fout = [(rename.get(i, i), d) for i, d in C10_lib.free_of(case.inp)]
        txt = [f"Definition {nm}_m : imap := {m}.\n",
               f"Example {nm}_rk : rk {nm}_in {rank} = true. Proof. vm_compute. reflexivity. Qed.\n",
               f"Example {nm}_safe : safe {nm}_m {nm}_in = true. Proof. vm_compute. reflexivity. Qed.\n",
               t3_lemma(case, f"irep {nm}_m {nm}_in", fout)]
        names = [f"{nm}_rk", f"{nm}_safe", f"{nm}_t3"]
        add_wf(case, txt, names)
        return "".join(txt), names
    return f


def extra_exp(known_instance, tensor_var=False):
    def f(case, ser):
        nm = case.name
        txt, names = [], []
        if VARIANT["expand_cache"] == "context":
            # repaired cache: the cached traversal computes the pure expansion (instance of
            # C10_expandK_expand0), so C10_expand_full applies without any guard
            txt.append(f"Example {nm}_ok : rk {nm}_in 0 = true /\\ expand_indices_k {nm}_in = expand0 [] [] {nm}_in. "
                       f"Proof. split; vm_compute; reflexivity. Qed.\n")
            names.append(f"{nm}_ok")
            add_wf(case, txt, names)
            txt.append(t3_lemma(case, f"expand_indices_k {nm}_in", ()))
            names.append(f"{nm}_t3")
            return "".join(txt), names
        if tensor_var and not known_instance:
            txt.append(f"Example {nm}_ok : rk {nm}_in 0 = true. Proof. vm_compute; reflexivity. Qed.\n")
            names.append(f"{nm}_ok")
        elif known_instance:
            txt.append(f"Example {nm}_class : var_ctx_clash {nm}_in = true. Proof. vm_compute. reflexivity. Qed.\n")
            names.append(f"{nm}_class")
        else:
            txt.append(f"Example {nm}_ok : rk {nm}_in 0 = true /\\ var_ctx_clash {nm}_in = false. "
                       f"Proof. split; vm_compute; reflexivity. Qed.\n")
            names.append(f"{nm}_ok")
        add_wf(case, txt, names)
        if "expand-variable-cache" in FIXED and tensor_var:
            return "".join(txt), names       # the model reproduces the (fixed) cache re-use: no T3 on this class
        txt.append(t3_lemma(case, f"expand_indices {nm}_in", ()))
        names.append(f"{nm}_t3")
        return "".join(txt), names
    return f


def enumerated_cases():
    """Small deterministic families for the corner structures the property names, so that every run
    (whatever the seed) contains them: zeros with several free indices of different extents kept
    alive by conditionals / list tensors, with both creation orders of the indices and an earlier
    visited sub-expression that uses the later index first; one body in several tensor scopes;
    an index re-bound inside its own scope before a later read."""
    from ufl.classes import Conditional, LT, Sum
    out = []
    A23, A32 = uflgen.coef((2, 3)), uflgen.coef((3, 2))
    B2, B3, x = uflgen.coef((2,)), uflgen.coef((3,)), uflgen.coef(())
    S = lambda body, k: IndexSum(body, MultiIndex((k,)))          # noqa: E731
    X = lambda a, *ix: Indexed(a, MultiIndex(tuple(FixedIndex(i) if isinstance(i, int) else i for i in ix)))  # noqa: E731
    for order in (0, 1):
        a, b = Index(), Index()
        p, q = (a, b) if order == 0 else (b, a)            # p has extent 2, q extent 3
        fi = sorted([(p.count(), 2), (q.count(), 3)])
        Z = Zero((), tuple(i for i, _ in fi), tuple(d for _, d in fi))
        for first in (p, q):                                # the index the condition meets first
            vec = B2 if first is p else B3
            cond = LT(S(Product(X(vec, first), X(vec, first)), first), x)
            for zpos in (0, 1):
                other = X(A23, p, q)
                t, f = (Z, other) if zpos == 0 else (other, Z)
                tag = f"o{order}{'p' if first is p else 'q'}{zpos}"
                out.append((f"zc_{tag}", ComponentTensor(Conditional(cond, t, f), MultiIndex((p, q))), False))
                lt = ListTensor(t, f)
                out.append((f"zl_{tag}", ComponentTensor(
                    Product(S(Product(X(vec, first), X(vec, first)), first), X(lt, zpos)), MultiIndex((q, p))), False))
    # one body, several tensor scopes, equal outer multi-index
    i, j, k, l = Index(), Index(), Index(), Index()
    A22 = uflgen.coef((2, 2))
    body = Product(X(A22, i, j), Sum(IntValue(2), X(A22, 0, 1)))
    Sij = ComponentTensor(body, MultiIndex((i, j)))
    Sji = ComponentTensor(body, MultiIndex((j, i)))
    out.append(("sb_fixed", Sum(X(Sij, 0, 1), Product(IntValue(-1), X(Sji, 0, 1))), True))
    out.append(("sb_fixed_rev", Sum(X(Sji, 0, 1), Product(IntValue(-1), X(Sij, 0, 1))), True))
    out.append(("sb_free", S(S(Product(X(Sij, k, l), X(Sji, k, l)), l), k), True))
    Ri, Qj = ComponentTensor(body, MultiIndex((i,))), ComponentTensor(body, MultiIndex((j,)))
    out.append(("sb_partial", X(ComponentTensor(S(Product(X(Ri, k), X(Qj, k)), k), MultiIndex((j, i))), 0, 1), True))
    # an index re-bound inside its own scope, inner scope met before a later read of the outer one
    n2 = S(Product(X(B2, i), X(B2, i)), i)
    C2 = uflgen.coef((2,))
    br = Conditional(LT(n2, x), X(C2, i), Product(IntValue(2), X(B2, i)))
    out.append(("sh_sum", S(Product(br, X(B2, i)), i), True))
    out.append(("sh_ct0", X(ComponentTensor(br, MultiIndex((i,))), 0), True))
    out.append(("sh_ct1", X(ComponentTensor(br, MultiIndex((i,))), 1), True))
    out.append(("sh_ctj", S(Product(X(ComponentTensor(br, MultiIndex((i,))), j), X(B2, j)), j), True))
    out.append(("sh_prod", X(ComponentTensor(Product(n2, X(C2, i)), MultiIndex((i,))), 1), True))
    # a tensor valued variable reached at transposed components under the same index values
    M22, N22 = uflgen.coef((2, 2)), uflgen.coef((2, 2))
    F = ufl.variable(M22)
    G = ufl.variable(Sum(M22, N22))
    out.append(("vt_fixed", Sum(X(F, 0, 1), Product(IntValue(-1), X(F, 1, 0))), True))
    out.append(("vt_free", S(S(Product(X(F, i, j), X(F, j, i)), j), i), True))
    out.append(("vt_det", Sum(Product(X(G, 0, 0), X(G, 1, 1)), Product(IntValue(-1), Product(X(G, 0, 1), X(G, 1, 0)))), True))
    out.append(("vt_mixed", S(S(Product(X(G, i, j), X(N22, i, j)), j), i), True))
    # a component tensor accessed with the index object that is bound again inside its body:
    # by an inner sum / by an inner un-indexed component tensor under a Conditional or ListTensor
    a2, b2 = uflgen.coef((2,)), uflgen.coef((2,))
    p_, q_ = Index(), Index()
    Mb = ComponentTensor(S(Product(X(M22, i, j), X(b2, j)), j), MultiIndex((i,)))
    out.append(("cp_sum", S(Product(X(Mb, j), X(a2, j)), j), True))
    out.append(("cp_sum_free", Product(X(Mb, j), X(a2, j)), False))
    out.append(("cp_sum_ct", X(ComponentTensor(Product(Product(X(Mb, j), X(a2, j)), X(a2, j)), MultiIndex((j,))), 1), True))
    row = ComponentTensor(Product(IntValue(2), X(M22, i, j)), MultiIndex((j,)))
    col = ComponentTensor(Product(IntValue(3), X(M22, j, i)), MultiIndex((j,)))
    for tag, W in (("cond", Conditional(LT(x, X(a2, 0)), row, col)), ("list", X(ListTensor(row, col), 1))):
        outer = ComponentTensor(X(W, k), MultiIndex((i, k))) if tag == "cond" else \
            ComponentTensor(Indexed(ListTensor(row, col), MultiIndex((FixedIndex(1), k))), MultiIndex((i, k)))
        out.append((f"cp_ct_{tag}", S(S(Product(Product(X(outer, j, p_), X(a2, j)), X(b2, p_)), p_), j), True))
        out.append((f"cp_ct_{tag}_fixed", S(Product(X(outer, j, 1), X(a2, j)), j), True))
        out.append((f"cp_ct_{tag}_fresh", S(S(Product(Product(X(outer, q_, p_), X(a2, q_)), X(b2, p_)), p_), q_), True))
    # diagonal access of a component tensor whose body also depends on the enclosing binder
    out.append(("dg_ct", witness_ct_shortcut(), False))
    dj, dp, dq = Index(), Index(), Index()
    dbody = Product(X(M22, dp, dj), X(N22, dq, dj))
    out.append(("dg_ct_prod", ComponentTensor(X(ComponentTensor(dbody, MultiIndex((dp, dq))), dj, dj), MultiIndex((dj,))), False))
    out.append(("dg_ct_sum", S(X(ComponentTensor(dbody, MultiIndex((dp, dq))), dj, dj), dj), True))
    # a Zero all of whose free indices are replaced by fixed indices (regression of the repaired
    # IndexReplacer.zero), and one of whose indices only some are
    out.append(("zf_allfixed", witness_zero(), True))
    zi, zj = Index(), Index()
    z2 = Zero((), tuple(sorted((zi.count(), zj.count()))), (2, 2))
    ctz = ComponentTensor(X(ListTensor(z2, Product(X(B2, zi), X(C2, zj))), 0), MultiIndex((zi,)))
    out.append(("zf_partfixed", ComponentTensor(X(ctz, 1), MultiIndex((zj,))), False))
    return out


MAX_LEMMAS = 18
# knob profiles cycled over the cases: default / zero- and list-rich (zeros with several free indices of
# different extents survive in list tensors and conditional branches) / conditional- and scope-rich
PROFILES = [None,
            dict(zeros=0.45, lists=0.5, variables=0.1),
            dict(reuse=0.9, nested=0.8, zeros=0.1, variables=0.1)]


def build_cases(run, live):
    cfg = TIERS[run.tier]
    cases, known_hits = [], {}
    stats = {"generated": 0, "hygienic": 0, "nodes": 0, "known_instances": 0, "skipped_size": 0}
    kinds = {}

    def violation(what, e, o, w, extra=None):
        rep = {"pass": what, "input": str(e), "input_repr": repr(e)[:3000], "output": str(o)[:3000],
               "witness": w, "how": "generated input; see seed/case in `case`", "reproduce": "bin/check C10"}
        rep.update(extra or {})
        run.violation(rep, True)

    enum = enumerated_cases()
    stats["enumerated"] = len(enum)
    for n in range(-len(enum), cfg["n"]):
        if n < 0:
            ename, e, closed = enum[n + len(enum)]
            closed = closed and e.ufl_shape == () and not e.ufl_free_indices
        else:
            ename = None
            rng = random.Random(f"{run.seed}-C10-{n}")
            hyg = n % 2 == 0
            profile = PROFILES[(n // 2) % len(PROFILES)]
            g = C10_gen.Gen(rng, hygienic=hyg, knobs=profile)
            closed = n % 3 == 0
            try:
                e = g.top(cfg["depth"], closed_scalar=closed)
            except C10_gen.GenError:
                continue
        stats["generated"] += 1
        is_h = C10_gen.hygienic(e)
        stats["hygienic"] += is_h
        stats["nodes"] += C10_gen.n_nodes(e)
        for x in ufl.corealg.traversal.unique_pre_traversal(e):
            kinds[type(x).__name__] = kinds.get(type(x).__name__, 0) + 1
        base = {"seed": run.seed, "n": n, "hygienic": bool(is_h), "input": str(e)[:300]}
        if ename:
            base["family"] = ename
        n = n if n >= 0 else f"e{n + len(enum)}"
        nval = 1
        for d in e.ufl_index_dimensions + e.ufl_shape:
            nval *= d
        if nval > MAX_LEMMAS:
            stats["skipped_size"] += 1
            continue

        # ---- remove_component_tensors
        nm = f"rct{n}"
        try:
            o = remove_component_tensors(e)
            err = None
        except Exception as ex:   # noqa: BLE001
            o, err = None, ex
        note = dict(base, **{"pass": "remove_component_tensors"})
        if (err is not None or C10_lib.mismatch(o, e, trials=3, seed=n)) \
                and "componenttensor-shortcut-dependent" in live and ct_shortcut_class(e):
            known_hits.setdefault("componenttensor-shortcut-dependent", []).append(nm)
        elif err is not None:
            if not is_h and "indexreplacer-capture" in live:
                cases.append(C10_lib.PassCase(nm, None, e, extra=extra_rct(False, "capture"), note=note))
                known_hits.setdefault("indexreplacer-capture", []).append(nm)
            else:
                violation("remove_component_tensors", e, None, {"kind": "exception", "exception": repr(err)}, note)
        else:
            w = C10_lib.mismatch(o, e, trials=3, seed=n)
            if w and not is_h and "indexreplacer-capture" in live:
                cases.append(C10_lib.PassCase(nm, o, e, value=False, static=False,
                                              extra=extra_rct(True, None), note=note))
                known_hits.setdefault("indexreplacer-capture", []).append(nm)
            elif w:
                violation("remove_component_tensors", e, o, w, note)
            else:
                note["class_member"] = None if is_h else "indexreplacer-capture"
                cases.append(C10_lib.PassCase(nm, o, e, extra=extra_rct(False, None), note=note))

        # ---- renumber_indices
        nm = f"ren{n}"
        note = dict(base, **{"pass": "renumber_indices"})
        try:
            o = renumber_indices(e)
            o2, rename = relabel_map(e)
            err = None
        except Exception as ex:   # noqa: BLE001
            o, err = None, ex
        if err is not None:
            violation("renumber_indices", e, None, {"kind": "exception", "exception": repr(err)}, note)
        else:
            w = None
            if o != o2:
                w = {"kind": "tie", "detail": "renumber_indices(e) differs from map_expr_dag(IndexRelabeller(), e)"}
            elif len(set(rename.values())) != len(rename):
                w = {"kind": "relabelling-not-injective", "map": {str(a): b for a, b in rename.items()}}
            w = w or C10_lib.mismatch(o, e, trials=3, seed=n, rename=rename)
            if w:
                violation("renumber_indices", e, o, w, note)
            else:
                ctx = ufl2coq.Ctx()
                preseed(ctx, e)
                cases.append(C10_lib.PassCase(nm, o, e, rename=rename, extra=extra_ren(rename), note=note, ctx=ctx))

        # ---- expand_indices (closed scalar expressions)
        if closed:
            nm = f"exp{n}"
            note = dict(base, **{"pass": "expand_indices"})
            try:
                o = expand_indices(e)
                err = None
            except Exception as ex:   # noqa: BLE001
                o, err = None, ex
            tv = C10_gen.has_tensor_variable(e)
            if err is not None:
                violation("expand_indices", e, None, {"kind": "exception", "exception": repr(err)}, note)
            else:
                w = C10_lib.mismatch(o, e, trials=3, seed=n)
                if w and tv and "expand-variable-cache" in live:
                    cases.append(C10_lib.PassCase(nm, o, e, value=False, static=False,
                                                  extra=extra_exp(True), note=note))
                    known_hits.setdefault("expand-variable-cache", []).append(nm)
                elif w:
                    violation("expand_indices", e, o, w, note)
                else:
                    note["class_member"] = "expand-variable-cache" if tv else None
                    cases.append(C10_lib.PassCase(nm, o, e, extra=extra_exp(False, tv), note=note))
    stats["known_instances"] = {k: len(v) for k, v in known_hits.items()}
    stats["node_kinds"] = dict(sorted(kinds.items(), key=lambda kv: -kv[1])[:25])
    return cases, stats


def reclassify(run, failing, live):
    """A value obligation that fails on an input of a known-finding class (the numeric oracle can miss
    a deviation, e.g. behind a conditional) is an instance of that finding -- provided the model
    correspondence (T3) of the same case holds, i.e. the model reproduces what the implementation
    built.  Such lemmas are taken out of the obligation count and reported in the evidence."""
    t3_failed = {c.name for c, l, _ in failing if c is not None and l == f"{c.name}_t3"}
    keep, moved = [], []
    for case, lemma, msg in failing:
        cls = case.note.get("class_member") if case is not None else None
        if cls and cls in live and lemma.startswith(f"{case.name}_v") and case.name not in t3_failed:
            moved.append((case.name, lemma, cls))
            run.obligations[:] = [o for o in run.obligations if o[0] != lemma]
            run.failed[:] = [f for f in run.failed if f[0] != lemma]
        else:
            keep.append((case, lemma, msg))
    if moved:
        run.extra["known_class_instances_found_by_coq"] = [list(m) for m in moved][:40]
    return keep


def main(run):
    known = vlib.load_known_findings("C10")
    live = replay_known(run, known)
    detect_variants(run)
    FIXED.clear()
    FIXED.update(k for k in KNOWN if k not in live)     # listed as fixed, or no longer reproducing
    if FIXED:
        run.extra["known_findings_fixed_in_tree"] = sorted(FIXED)
    cases, stats = build_cases(run, live)
    run.extra["input_distribution"] = stats
    for c in cases[:6]:
        run.sample({"case": c.name, "note": c.note, "output": str(c.out)[:200]})
    for c in cases:
        run.count_case((c.name, c.note.get("input")))
    t3v = set()
    orig_add = run.add_coq_result

    def add(res, names=None):
        import re
        t3v.update(re.findall(r"^T3V (\w+)", res.out or "", flags=re.M))
        return orig_add(res, names)
    run.add_coq_result = add
    saved = coqgen.HEADER
    coqgen.HEADER = REQUIRE + saved        # this process only
    try:
        failing = coqgen.emit_and_check(run, "C10", cases, extra_header=EXTRA_HEADER,
                                        timeout=600 if run.tier == "quick" else 1500)
    finally:
        coqgen.HEADER = saved
    failing = reclassify(run, failing, live)
    C10_lib.record_hand_files(run, "C10", HAND_FILES, MAIN_THEOREMS)
    n_t3 = sum(1 for c in cases if f"{c.name}_t3" in c.lemmas)
    run.extra["t3"] = {"cases_with_model_correspondence": n_t3,
                       "value_level (constructor simplification changed the tree)": len(t3v),
                       "structural (model in = Some out by computation)": n_t3 - len(t3v)}
    seen = set()
    for case, lemma, msg in failing:
        if case is None:
            run.violation({"broken": "generated obligations file does not compile", "message": msg}, False)
            continue
        if case.name in seen:
            continue
        seen.add(case.name)
        rep = {"broken_obligation": lemma, "case": case.name, "note": case.note, "coq_message": msg,
               "input_expr": str(case.inp), "input_repr": repr(case.inp)[:3000],
               "output_expr": str(case.out)[:2000], "reproduce": "bin/check C10"}
        w = None
        if case.out is not None:
            w = C10_lib.mismatch(case.out, case.inp, trials=60, seed=run.seed, rename=case.rename)
        if w:
            rep["witness"] = w
        run.violation(rep, bool(w))
    run.trusted.update([
        "Coq 8.16.1 kernel (coqc); vm_compute used for normalisation, no native_compute",
        "py/ufl2coq.py serializer (node-for-node, fail-closed)",
        "den of coq/Core/Den.v as the meaning of index notation (Indexed / IndexSum / ComponentTensor / ListTensor)",
        "the generator py/C10_gen.py bounds the per-run tie (T2/T3); the theorems of coq/Props/C10_thm.v are unbounded",
        "py/pyden.py numeric mirror of den, used only to route known-class inputs and to search failing inputs",
    ])
    return run.finish(
        rule="one case per (generated expression, pass); value obligations: one per valuation of the free "
             "indices and component; T3: model(in) = out structurally or by value for all operand values; "
             "distinct = distinct (case, input)",
        assumptions=["valuations range over the declared dimensions of the free indices",
                     "kcond b x x = x (the law behind UFL's Conditional(c, t, t) -> t simplification)",
                     "characteristic zero for literal divisions"])
